#!/usr/bin/env python3
"""Every benign rewrite must stay silent under EVERY property's check (not only the one it was
written for). Applies each selftest/benign/*.patch to a temporary copy of /repo's working tree and
runs all 20 quick checks on the copy. Prints false alarms; writes selftest/cross_benign.json."""
import json, os, subprocess, sys, tempfile, shutil, glob
from concurrent.futures import ThreadPoolExecutor
V='/verif'
env=dict(os.environ, GOFLAGS='-mod=mod', GOPROXY='off', GOSUMDB='off', GOTOOLCHAIN='local', NCGVERIF_CHILD='1'); env.pop('GOWORK',None)
props=[json.loads(l)['id'] for l in open(f'{V}/properties.jsonl')]
# a private copy of the checker, so that rebuilding bin/ncgverif during the run does not mix versions
BIN=tempfile.mkdtemp(prefix='ncgverif-xb-bin-')+'/ncgverif'; shutil.copy(f'{V}/bin/ncgverif', BIN); os.chmod(BIN,0o755)
patches=sorted(glob.glob(f'{V}/selftest/benign/*.patch'))
if len(sys.argv)>1: patches=[p for p in patches if any(a in p for a in sys.argv[1:])]
def run(patch):
    tmp=tempfile.mkdtemp(prefix='ncgverif-xb-')
    res={}
    try:
        tree=os.path.join(tmp,'tree'); out=os.path.join(tmp,'verif'); os.makedirs(out)
        shutil.copytree('/repo', tree, ignore=shutil.ignore_patterns('.git'))
        shutil.copy(f'{V}/known_findings.txt', out)
        r=subprocess.run(['git','apply','--whitespace=nowarn',patch],cwd=tree,capture_output=True,text=True,env=dict(env,GIT_DIR='/nonexistent'))
        if r.returncode!=0:
            r=subprocess.run(['patch','-p1','-s','-i',patch],cwd=tree,capture_output=True,text=True)
            if r.returncode!=0: return patch,{'_':'does not apply'}
        for pid in props:
            r=subprocess.run([BIN,'-repo',tree,'-prop',pid,'-tier','quick','-verif',out],capture_output=True,text=True,env=env,cwd=V)
            if r.returncode!=0:
                first=[l for l in r.stdout.splitlines() if l.startswith(('FAILED','UNDECIDED'))][:1]
                res[pid]=(first[0] if first else 'exit %d'%r.returncode)[:200]
    finally:
        shutil.rmtree(tmp, ignore_errors=True)
    return patch,res
allres={}
with ThreadPoolExecutor(max_workers=12) as ex:
    for patch,res in ex.map(run, patches):
        name=os.path.basename(patch)[:-6]
        allres[name]=res
        for pid,msg in res.items():
            print(f'FALSE-ALARM {name} under {pid}: {msg}', flush=True)
if len(sys.argv)>1 and os.path.exists(f'{V}/selftest/cross_benign.json'):
    # a filtered run refreshes its entries in the full table
    full=json.load(open(f'{V}/selftest/cross_benign.json')); full.update(allres); allres=full
json.dump(allres, open(f'{V}/selftest/cross_benign.json','w'), indent=1, sort_keys=True)
shutil.rmtree(os.path.dirname(BIN), ignore_errors=True)
n=sum(1 for r in allres.values() if r)
print(f'{len(allres)} benign rewrites x {len(props)} checks: {n} rewrites with at least one alarm')
