#!/bin/bash
# usage: verify_seed.sh <dir with patch.diff, demo/, notes.md> <name>
# Confirms a seeded change in a scratch worktree: patch applies and builds, the pinned suite
# still passes (all stable_pass tests), the demo fails with the change and passes without.
set -u
export GOFLAGS=-mod=mod GOPROXY=off GOSUMDB=off GOTOOLCHAIN=local; unset GOWORK
SRC=$1; NAME=$2
WT=/tmp/seedverify/wt-$NAME
RES=/tmp/seedverify/results; mkdir -p $RES
OUT=$RES/$NAME.txt; : > $OUT
rm -rf $WT; git -C /repo worktree prune; git -C /repo worktree add --detach $WT HEAD >/dev/null 2>&1 || { echo "worktree failed" >> $OUT; exit 2; }
cleanup() { git -C /repo worktree remove --force $WT >/dev/null 2>&1; rm -rf $WT; }
trap cleanup EXIT
cd $WT
# demo on unmodified tree
(cd $SRC/demo && find . -type f) | while read f; do mkdir -p $WT/$(dirname $f); cp $SRC/demo/$f $WT/$f; done
DEMOPKGS=$(cd $SRC/demo && find . -name '*_test.go' -exec dirname {} \; | sort -u)
base_ok=1
for p in $DEMOPKGS; do go test -vet=off -count=1 -run 'TestSeedDemo' $p/ >> $OUT.base 2>&1 || base_ok=0; done
echo "demo_without_change_passes=$base_ok" >> $OUT
if ! git apply $SRC/patch.diff; then echo "patch_applies=0" >> $OUT; exit 1; fi
echo "patch_applies=1" >> $OUT
if go build ./... >> $OUT.build 2>&1; then echo "builds=1" >> $OUT; else echo "builds=0" >> $OUT; exit 1; fi
mut_fail=1
for p in $DEMOPKGS; do go test -vet=off -count=1 -run 'TestSeedDemo' $p/ >> $OUT.mut 2>&1 && mut_fail=0; done
echo "demo_with_change_fails=$mut_fail" >> $OUT
# pinned suite without the demo files
(cd $SRC/demo && find . -type f) | while read f; do rm -f $WT/$f; done
if /verif/scripts/baseline.sh $WT >> $OUT.suite 2>&1; then echo "suite_passes_with_change=1" >> $OUT; else echo "suite_passes_with_change=0" >> $OUT; fi
tail -3 $OUT.suite >> $OUT
cat $OUT
