#!/usr/bin/env python3
"""Regenerates selftest/known_benign_alarms.txt from selftest/cross_benign.json (every benign rewrite x
all 20 checks): one line per (rewrite, alarming check). The reason per rewrite is taken from the
existing file; a rewrite that alarms and has no reason there is printed and left out (it has to be
triaged by hand first: a false alarm is fixed in the machinery or documented, never listed blindly)."""
import json, re, sys
V='/verif'
path=f'{V}/selftest/known_benign_alarms.txt'
head=[]; reason={}
for l in open(path):
    if l.startswith('#'): head.append(l.rstrip('\n')); continue
    m=re.match(r'(\S+)\s+(\S+)\s+(.*)', l.strip())
    if m: reason.setdefault(m.group(1), m.group(3))
x=json.load(open(f'{V}/selftest/cross_benign.json'))
out=list(head); untriaged=[]
for name in sorted(x):
    for pid in sorted(x[name]):
        if name not in reason: untriaged.append((name,pid,x[name][pid])); continue
        out.append(f'{name} {pid} {reason[name]}')
open(path,'w').write('\n'.join(out)+'\n')
print(len(out)-len(head),'lines;',len({l.split()[0] for l in out[len(head):]}),'rewrites')
for u in untriaged: print('UNTRIAGED',*u)
sys.exit(1 if untriaged else 0)
