#!/usr/bin/env python3
"""Round 2: verifies and imports /tmp/seed10/wt-<Cxx>/_out/m<k> -> /verif/seeded/<Cxx>-<k+2>/ and
/tmp/seed10/wt-<Cxx>/_out/b<k> -> /verif/selftest/benign/<Cxx>-agent-b<k>.patch (+ .notes.md).
usage: import_seed2.py Cxx [Cxx...]"""
import json, os, shutil, sys, re, subprocess
def kv(path):
    return dict(l.strip().split("=", 1) for l in open(path) if "=" in l and not l.startswith("passed"))
for prop in sys.argv[1:]:
    import glob
    off = max([int(d.rsplit("-",1)[1]) for d in glob.glob(f"/verif/seeded/{prop}-*") if not d.rsplit("-",1)[1].startswith("r")] + [0]) if "OFF" not in os.environ else int(os.environ["OFF"])
    base = f"/tmp/seed10/wt-{prop}/_out"
    for k in (1, 2):
        src = f"{base}/m{k}"
        if not os.path.exists(src + "/patch.diff"):
            print("missing", src); continue
        name = f"{prop}-r10m{k}"
        subprocess.run(["/verif/scripts/verify_seed.sh", src, name], capture_output=True)
        r = kv(f"/tmp/seedverify/results/{name}.txt")
        ok = all(r.get(x) == "1" for x in ("demo_without_change_passes", "patch_applies", "builds", "demo_with_change_fails", "suite_passes_with_change"))
        if not ok:
            print("NOT VERIFIED", prop, "m%d" % k, r); continue
        dst = f"/verif/seeded/{prop}-{k+off}"
        if os.path.exists(dst): shutil.rmtree(dst)
        os.makedirs(dst)
        shutil.copy(src + "/patch.diff", dst + "/patch.diff")
        shutil.copytree(src + "/demo", dst + "/demo")
        if os.path.exists(src + "/notes.md"): shutil.copy(src + "/notes.md", dst + "/notes.md")
        files = sorted(set(re.findall(r"^\+\+\+ b/(\S+)", open(src + "/patch.diff").read(), re.M)))
        meta = {
            "id": f"{prop}-{k+off}", "property": prop, "round": 10,
            "origin": "independent sub-agent given only the property text (round 10: asked for twin pairs - one realistic maintenance change done correctly (selftest/benign/<Cxx>-agent10-b<k>) and the same change with one subtle slip (this one)) and a scratch worktree of /repo (nothing from /verif)",
            "files_touched": files,
            "needs_to_manifest": "see notes.md (written by the sub-agent): the specific input / fault sequence / boundary that exposes the change",
            "confirmed_by_me": {
                "how": "scripts/verify_seed.sh in a fresh scratch worktree of /repo HEAD (removed afterwards)",
                "patch_applies": True, "builds": True,
                "pinned_suite_with_change": "all 626 stable_pass tests pass; only the 7 baseline always-fail network tests fail",
                "demo_with_change": "TestSeedDemo FAILS", "demo_without_change": "TestSeedDemo PASSES",
            },
            "detected_by": None,
        }
        json.dump(meta, open(dst + "/meta.json", "w"), indent=1)
        print("imported", dst)
    for k in (1, 2):
        src = f"{base}/b{k}"
        if not os.path.exists(src + "/patch.diff"):
            print("missing", src); continue
        name = f"{prop}-r10b{k}"
        subprocess.run(["/verif/scripts/verify_benign.sh", src + "/patch.diff", name, f"{base}/m{k}/demo"], capture_output=True)
        r = kv(f"/tmp/seedverify/results/{name}.txt")
        ok = all(r.get(x) == "1" for x in ("patch_applies", "builds", "suite_passes_with_change")) and r.get("twin_demo_passes", "1") == "1"
        if not ok:
            print("NOT VERIFIED", prop, "b%d" % k, r); continue
        dst = f"/verif/selftest/benign/{prop}-agent10-b{k}.patch"
        shutil.copy(src + "/patch.diff", dst)
        if os.path.exists(src + "/notes.md"): shutil.copy(src + "/notes.md", dst.replace(".patch", ".notes.md"))
        print("imported", dst)
