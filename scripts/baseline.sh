#!/bin/bash
# Runs the repository's pinned test suite (guard OFF: there are no hooks) and
# compares with /root/.vp/BASELINE.json stable_pass. Exit 0 iff every
# stable_pass test passes.
set -u
export GOFLAGS=-mod=mod GOPROXY=off GOSUMDB=off GOTOOLCHAIN=local
unset GOWORK
REPO=${1:-/repo}
OUT=$(mktemp)
(cd "$REPO" && go test -mod=mod -json -vet=off -count=1 -timeout 25m ./... > "$OUT" 2>/dev/null)
python3 - "$OUT" <<'PY'
import json,sys
passed=set(); failed=set()
for l in open(sys.argv[1]):
    try: e=json.loads(l)
    except Exception: continue
    if e.get('Test') and e.get('Action') in ('pass','fail'):
        k=e['Package']+'::'+e['Test']
        (passed if e['Action']=='pass' else failed).add(k)
b=json.load(open('/root/.vp/BASELINE.json'))
sp=set(b['stable_pass'])
missing=sorted(sp-passed)
extra_fail=sorted(failed-set(b['always_fail']))
print(f"passed={len(passed)} failed={len(failed)} stable_pass={len(sp)} missing={len(missing)}")
for m in missing[:40]: print("MISSING", m)
for m in extra_fail[:40]: print("UNEXPECTED-FAIL", m)
sys.exit(1 if missing else 0)
PY
rc=$?
rm -f "$OUT"
exit $rc
