#!/usr/bin/env python3
"""Imports verified seeded changes from /tmp/seed/<Cxx>/_out/m<k> into /verif/seeded/<Cxx>-<k>/."""
import json, os, shutil, sys, re
for prop in sys.argv[1:]:
    for k in (1, 2):
        src = f"/tmp/seed/{prop}/_out/m{k}"
        res = f"/tmp/seedverify/results/{prop}-m{k}.txt"
        if not os.path.exists(src + "/patch.diff") or not os.path.exists(res):
            continue
        r = dict(l.strip().split("=", 1) for l in open(res) if "=" in l and not l.startswith("passed"))
        ok = all(r.get(x) == "1" for x in ("demo_without_change_passes", "patch_applies", "builds", "demo_with_change_fails", "suite_passes_with_change"))
        if not ok:
            print("NOT VERIFIED", prop, k, r); continue
        dst = f"/verif/seeded/{prop}-{k}"
        if os.path.exists(dst): shutil.rmtree(dst)
        os.makedirs(dst)
        shutil.copy(src + "/patch.diff", dst + "/patch.diff")
        shutil.copytree(src + "/demo", dst + "/demo")
        notes = open(src + "/notes.md").read() if os.path.exists(src + "/notes.md") else ""
        shutil.copy(src + "/notes.md", dst + "/notes.md") if notes else None
        files = sorted(set(re.findall(r"^\+\+\+ b/(\S+)", open(src + "/patch.diff").read(), re.M)))
        meta = {
            "id": f"{prop}-{k}",
            "property": prop,
            "origin": "independent sub-agent given only the property text and a scratch worktree of /repo (nothing from /verif)",
            "files_touched": files,
            "needs_to_manifest": "see notes.md (written by the sub-agent): the specific input / fault sequence / boundary that exposes the change",
            "confirmed_by_me": {
                "how": "scripts/verify_seed.sh in a fresh scratch worktree of /repo HEAD (removed afterwards)",
                "patch_applies": True, "builds": True,
                "pinned_suite_with_change": "all 626 stable_pass tests pass; only the 7 baseline always-fail network tests fail",
                "demo_with_change": "TestSeedDemo FAILS", "demo_without_change": "TestSeedDemo PASSES",
            },
            "detected_by": None,
        }
        json.dump(meta, open(dst + "/meta.json", "w"), indent=1)
        print("imported", dst)
