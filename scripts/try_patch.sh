#!/bin/bash
# usage: try_patch.sh <patch> <prop>[,<prop>...]   -- applies the patch to /repo, runs the checks, reverts.
set -u
PATCH=$1; PROPS=$2
cd /verif
if ! git -C /repo diff --quiet; then echo "/repo is dirty; refusing"; exit 3; fi
if ! git -C /repo apply "$PATCH"; then echo "PATCH-DOES-NOT-APPLY $PATCH"; exit 4; fi
trap 'git -C /repo checkout -- . ; git -C /repo clean -fdq' EXIT
rc=0
for p in ${PROPS//,/ }; do
  out=$(./bin/ncgverif -prop $p -verif /tmp/ncgverif_scratch 2>&1); r=$?
  echo "== $p exit=$r"
  echo "$out" | grep -E '^(FAILED|UNDECIDED|VIOLATION|KNOWN)' | head -${SHOW:-12}
  [ $r -ne 0 ] && rc=1
done
exit $rc
