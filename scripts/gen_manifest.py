#!/usr/bin/env python3
"""Generates /verif/MANIFEST.json from the table below (kept in one place so the
claims, level notes and not_applicable list stay consistent)."""
import json, os, sys

ENV = "env -u GOWORK GOFLAGS=-mod=mod GOPROXY=off GOSUMDB=off GOTOOLCHAIN=local"

# id -> (technique, level text, level note, design ref)
CLAIMED = {
 "C03": ("path-sensitive guard analysis on the typed AST (inlined CFG x abstract store), two-sided atom table",
         "Static, all-paths decision of the in-repo validator logic: every accepting path of x509.ValidateCodeSigningCertChain passes every condition the property requires in its context, and every rejection origin is guarded by the negation of a stated requirement (so boundaries, operands, positions and the OID/bit/EKU tables are exactly those of the statement); Sign/Verify/Content and the revocation validator route the chain through it. It covers all chains, positions and signing times for the shape of the logic, which a sampled test cannot.",
         "Decides the structure of the in-repo logic only. Trusted: crypto/x509 CheckSignature/CheckSignatureFrom, certificate parsing, go/types. Not decided: signature mathematics, chains with nil elements.",
         "DESIGN.md 5 C03"),
 "C14": ("path-sensitive guard analysis, two-sided atom table, sibling cross-check of the two chain walkers",
         "As C03 for x509.ValidateTimestampingCertChain with the timestamping profile (key usage present on every certificate, leaf EKU exactly timeStamping and critical, no unknown EKU), plus a sibling rule: the walker conditions extracted from the code-signing and the timestamping validators must be identical, so an edit applied to one walker only is reported; routing from timestamp.Timestamp and the revocation validator (purpose Timestamping) is checked.",
         "Structure of in-repo logic only; crypto/x509 signature checks trusted.",
         "DESIGN.md 5 C14"),
}

NOT_YET = {}

def main():
    props = [json.loads(l) for l in open('/verif/properties.jsonl')]
    checks = []
    na = []
    for p in props:
        pid = p['id']
        if pid in CLAIMED:
            tech, text, note, ref = CLAIMED[pid]
            checks.append({
                "property_id": pid,
                "quick_cmd": f"{ENV} ./bin/ncgverif -prop {pid} -tier quick",
                "thorough_cmd": f"{ENV} ./bin/ncgverif -prop {pid} -tier thorough",
                "evidence_file": f"/verif/evidence/{pid}.json",
                "replay_cmd_template": f"{ENV} ./bin/ncgverif -replay {{path}}",
                "engine": "ncgverif",
                "level_claimed": {"category": "other", "text": text, "design_ref": ref},
                "level_note": note,
                "technique": "static analysis: " + tech,
            })
        else:
            na.append({"property_id": pid, "reason": NOT_YET.get(pid, "static check for this property is not built yet in this round (planned, see DESIGN.md section 5); nothing is claimed")})
    m = {
        "version": 1,
        "setup_cmd": f"cd /verif && {ENV} go build -o bin/ncgverif ./cmd/ncgverif",
        "hooks": {
            "guard": "verif",
            "enable": "no hooks are needed: the checks analyse /repo's source as it is (no build tag, no instrumentation)",
            "baseline_off_cmd": "/verif/scripts/baseline.sh /repo",
            "source_commits": [],
            "add_only": True,
        },
        "engines": [{
            "name": "ncgverif",
            "path": "/verif/cmd/ncgverif",
            "serves_properties": sorted(CLAIMED.keys()),
            "kind_free_text": "repository-specific static analyser (go/packages + go/types typed AST; own CFG with inlining and atomic conditions; path-sensitive product exploration; constant tables; go/ssa effect and error-type analyses). Runs no repository code, no tests, no solver.",
        }],
        "checks": checks,
        "notes": "All checks are static analyses of /repo's current working tree (re-loaded and type-checked on every run). Genuine defects found are repaired by fix: commits in /repo and listed in /verif/known_findings.txt as fixed: lines (they suppress nothing).",
        "not_applicable": na,
    }
    json.dump(m, open('/verif/MANIFEST.json', 'w'), indent=1)
    print("claimed:", len(checks), "not_applicable:", len(na))

if __name__ == '__main__':
    main()
