#!/usr/bin/env python3
"""Generates /verif/MANIFEST.json from the table below (kept in one place so the
claims, level notes and not_applicable list stay consistent)."""
import json, os, sys

ENV = "env -u GOWORK GOFLAGS=-mod=mod GOPROXY=off GOSUMDB=off GOTOOLCHAIN=local"

# id -> (technique, level text, level note, design ref)
CLAIMED = {
 "C01": ("path-sensitive guard analysis of the wrapper's and both formats' Verify (modular skeletons), argument-identity terms, call-tree effect scan, closed census of integrity-error origins",
         "Every success path of Verify passes: Raw non-empty, content extracted, chain check with the content's own chain/time/algorithm, then the format's cryptographic verification called with exactly the parsed message's bytes and the public key of certs[0] of the chain parsed from the same envelope and the algorithm derived from that key; a failing cryptographic check can only reach a SignatureIntegrityError return; the verified payload/attributes returned are fields of the same parsed object; nothing between parse and verify writes the message. The returned payload is exactly the decoding of the verified payload field, the returned signing time and expiry are exactly the decoded header values, every non-specification protected header surfaces as an attribute with its own value and criticality, and a header name that differs from a specification name only by case is refused.",
         "In-repo gating and argument identity only. Trusted: go-cose Sign1Message.Verify, golang-jwt Parser.Parse, crypto/*.",
         "DESIGN.md 5 C01"),
 "C02": ("table extraction by path analysis (ExtractKeySpec, SignatureAlgorithm, format maps) + sibling agreement of writer/reader maps + guard analysis of algorithm pairing at sign and verify",
         "The algorithm space is finite and the code is table-shaped: accepted key kinds/sizes, KeySpec->Algorithm->hash rows, the JWS and COSE algorithm maps (writer and reader are the same map object or inverse rows), PS/ES only, and on verification the declared algorithm must equal the one derived from the leaf key (JWS: allow-list passed to the parser and header alg compared; COSE: verifier built from the leaf key's algorithm and protected alg compared). Local signer pairing (key belongs to leaf certificate).",
         "Trusted: jwt.WithValidMethods and go-cose reject other algorithms (pinned versions). Does not decide the cryptography.",
         "DESIGN.md 5 C02"),
 "C07": ("per-attribute guard analysis of both readers (Content path) with two-sided tables, sibling cross-check JWS/COSE, critical-header rules",
         "For each signed attribute of both formats: the reader returns content only after presence/type/scheme-consistency checks (signing scheme one of two; signingTime only under x509, authenticSigningTime only and always under signingAuthority; expiry optional; crit must list exactly the headers that require it and nothing unknown/absent); every rejection origin is justified by a stated violation; both readers implement the same rule set. The returned signing time and expiry are exactly the decoded header values (zero only when the header is absent); header names are matched exactly.",
         "Shape of in-repo parsing logic; decoder behaviour (json/cbor) trusted.",
         "DESIGN.md 5 C07"),
 "C08": ("structural necessary conditions by path analysis and term identity: lossy-decode rule, external-signer pass-through, writer/reader label agreement, truncation ordering",
         "NOT round-trip equality. Decided: (1) the JWS payload is decoded only through a json.Decoder with UseNumber() before Decode and never json.Unmarshal, COSE stores the payload verbatim; (2) external signers receive exactly the to-be-signed bytes and their signature is returned untransformed (base64 RawURL everywhere in jws); (3) writer and reader use the same header struct / label constants, scheme-dependent time field under the scheme's guard, expiry iff non-zero; times truncated to seconds before validation and before encoding; (4) JWS verification does not interpret the payload as JWT claims.",
         "Value equality after encode/decode through encoding/json, cbor, jwt and go-cose is not decided (runtime values); see not-decided list in DESIGN.",
         "DESIGN.md 5 C08"),
 "C09": ("site engine over the typed AST + product graphs: nil-after-error and optional-field dereference dominance, bounds rules for every index/slice site (with caller contexts), assertion dominance, loop-progress cycles, panic/goroutine/IO/context lints",
         "NOT crash-freedom of the dependencies' decoders. Decided for the repository's own code: every value returned with an error is dereferenced only after the error (or value) test; optional parsed fields tested before use; every index/slice/single-value-assertion site discharged by a rule; caller-supplied interface keys restricted before hashing; explicit panics only in init / nil-argument / re-raise; every goroutine recovers and forwards, spawner re-raises; bodies read through LimitReader with constant bound; requests only with context derived from the caller; every non-range loop progresses on each cycle. A pem.Decode result is tested for nil before use; every iteration of the OCSP responder loop that goes on stored the slot the aggregator later dereferences. A function of this module whose pointer result is dereferenced on the strength of the error test returns neither nil nor an untested optional field together with a nil error; every io.LimitReader bound is a positive constant (at the call, or at every call of the function that takes it as a parameter); the count handed to a Grow call is tested non-negative.",
         "Crashes, stack exhaustion or quadratic behaviour inside third-party decoders, nil elements inside caller-built slices and slow-drip bodies are not decided.",
         "DESIGN.md 5 C09"),
 "C13": ("per-iteration / only-after-exhaustion loop rules on the attribute readers and writers, reserved-key table extraction, sibling cross-check",
         "Extended attributes: the reader returns exactly the protected headers outside the system table, each with Critical = membership in crit; a critical header that is absent/unknown is refused; the writer refuses reserved and duplicate keys and marks critical ones in crit; system tables of writer and reader agree (7 keys/labels per format).",
         "Decoder behaviour for exotic key types trusted.",
         "DESIGN.md 5 C13"),
 "C15": ("modular guard analysis of timestamp.Timestamp (gate chain, aggregation fold recogniser) and of the envelope call sites (argument terms)",
         "A timestamp countersignature is requested only under notary.x509 with a timestamper configured; the token is accepted only after: response status granted/valid, SignedToken parsed, Verify with the request's roots, Info validated against the exact message (the signature bytes) and hash, TSA chain validated with the timestamping profile, optional revocation with all results OK/NonRevokable (fold recognised: Revoked dominates, Unknown refuses); the stored token is the verified response's bytes; JWS and COSE pass the signature bytes, not the payload.",
         "tspclient-go verification internals trusted.",
         "DESIGN.md 5 C15"),
 "C16": ("three-layer guard analysis of the signing gate (wrapper, JWS, COSE) with per-iteration attribute rules and reader/writer table containment",
         "Every success path of Sign passes every conjunct of the request validation (times truncated first; payload, signing time, expiry ordering, signer, key spec, scheme; format-level Sign ok; content of produced envelope ok; chain valid at signing time; declared == derived algorithm); each format refuses non-string / non-integer-or-string, duplicate and reserved attribute keys before any map access; error => nil bytes in all three Sign methods; local signer pairing.",
         "Encoder-side rejections and third-party signers returning nil certificates are not decided.",
         "DESIGN.md 5 C16"),
 "C20": ("typestate analysis over Raw and the inner message: store ordering, clear-on-failure, purity (effect scan) of Verify/Content, who-may-write",
         "The only store to the inner message in each format's Sign is not followed by a failing return; the wrapper stores Raw only after the format-level Sign succeeded, clears it on every later failure, returns the stored bytes; Verify/Content write nothing reachable from the receiver; SignatureNotFound exactly for empty Raw; Raw written only by Sign and the two ParseEnvelope literals; registry written only from init.",
         "Caller mutation of returned slices not decided.",
         "DESIGN.md 5 C20"),
 "C03": ("path-sensitive guard analysis on the typed AST (inlined CFG x abstract store), two-sided atom table",
         "Static, all-paths decision of the in-repo validator logic: every accepting path of x509.ValidateCodeSigningCertChain passes every condition the property requires in its context, and every rejection origin is guarded by the negation of a stated requirement (so boundaries, operands, positions and the OID/bit/EKU tables are exactly those of the statement); Sign/Verify/Content and the revocation validator route the chain through it. It covers all chains, positions and signing times for the shape of the logic, which a sampled test cannot.",
         "Decides the structure of the in-repo logic only. Trusted: crypto/x509 CheckSignature/CheckSignatureFrom, certificate parsing, go/types. Not decided: signature mathematics, chains with nil elements.",
         "DESIGN.md 5 C03"),
 "C04": ("modular path-sensitive guard analysis (per-server logic / request helper / error->verdict wrapper), error-type sets, who-may-call",
         "Every path to an OCSP OK verdict passes: URL parsed, scheme http, request helper succeeded (request for (cert, issuer), context, status 200, capped body, not an unsigned OCSP error body, ParseResponseForCert(body, cert, issuer) ok with exactly these arguments, responder absent / the issuer / carrying id-kp-OCSPSigning), next-update not passed, and status Good or Revoked with the invalidity-date exemption; Revoked only on status Revoked; wrapper table exact; only non-decisive results let the server loop go on; ParseResponse is called nowhere.",
         "In-repo gating only. Trusted: x/crypto ocsp.ParseResponseForCert (signature and serial check; summary read in the pinned source, DESIGN 4), net/http, clocks.",
         "DESIGN.md 5 C04"),
 "C05": ("path-sensitive guard analysis with loop rules (only-after-exhaustion, per-iteration), two-sided table for the bundle validator",
         "The CRL OK verdict is reachable only through exhaustion of the loop over all distribution points with every per-point gate passed (download, freshest-CRL refusal, issuer signature with the issuer parameter, next-update, critical-extension table, delta number/indicator rules with the stated boundaries); every failure edge can reach only Unknown/Revoked; every rejection of the bundle validator is justified by a stated violation.",
         "In-repo logic only. Trusted: RevocationList.CheckSignatureFrom (signature, cRLSign/CA), clocks, the caller's Fetcher.",
         "DESIGN.md 5 C05"),
 "C06": ("closed-set census of verdict constructors (syntax tree) + guard analysis of each site + error discipline lint + effect scan",
         "Fail-closed as structure: the set of program points that can produce OK/NonRevokable is enumerated from the syntax tree and each is one of the sites whose guards are proven on every path; verdict fields are never assigned; every error-returning call in the revocation packages has its error bound and tested (no blank assignment/drop; two frozen Body.Close exceptions); download/request helpers succeed only on a good transfer; goroutines write only their own slot; no shared state.",
         "Does not decide net/http behaviour under real faults, timing or cancellation races inside the transport.",
         "DESIGN.md 5 C06"),
 "C10": ("path-sensitive guard analysis of the entry scan (range-over-func loop), iterator literal ordering, two-sided error table",
         "On every path of the CRL entry interpreter: only the serial comparison happens for other serials; a matching entry lets the scan continue only if temporary or exempt (non-zero signing time, non-zero invalidity date from this entry's 2.5.29.24 extension decoded without error/trailing bytes, strictly later); no OK inside the scan; permanent reasons return Revoked at once; the remembered entry is only replaced by a strictly later one; final verdict by the remembered reason; unknown critical entry extensions refuse; the iterator yields base then delta entries.",
         "Shape and boundaries of the in-repo interpreter; tie-breaking among equal revocation times is not decided (the property does not fix it).",
         "DESIGN.md 5 C10"),
 "C11": ("guard analysis of the validator's per-certificate dispatch (goroutine bodies spliced in), import-graph non-reachability",
         "Decision table of method selection decided on every path of one iteration: OCSP checker only with responders; CRL checker only after OCSP or without responders and only with distribution points; fallback exactly when the OCSP result is non-nil, Unknown and the certificate has distribution points, bare OCSP result kept exactly otherwise; fallback merge stores method OCSPFallbackCRL and ServerResults = ocsp ++ crl and never the verdict; the standalone OCSP packages do not import the CRL packages.",
         "Per-source outcome classes are C04/C05; which URLs are contacted at run time beyond call reachability is not decided.",
         "DESIGN.md 5 C11"),
 "C12": ("guard/effect analysis of both fan-out entry points: dominance of chain validation, slot stores by index term, literal pairing",
         "Chain validated first (empty chain / ValidateChain failure return (nil, InvalidChainError-typed error) before anything is spawned, checked or stored); the returned slice is make(len(chain)), never appended/re-sliced; every iteration over chain[:len-1] stores at its own index, root index gets the NonRevokable literal, no other index; checker i gets (chain[i], chain[i+1]) and only its result lands in slot i; Server fields are elements of that certificate's own URL lists; every verdict literal agrees with its nested server results; OCSP aggregate/CRL lists as documented.",
         "Run-time identity of result objects under caller aliasing is not decided.",
         "DESIGN.md 5 C12"),
 "C14": ("path-sensitive guard analysis, two-sided atom table, sibling cross-check of the two chain walkers",
         "As C03 for x509.ValidateTimestampingCertChain with the timestamping profile (key usage present on every certificate, leaf EKU exactly timeStamping and critical, no unknown EKU), plus a sibling rule: the walker conditions extracted from the code-signing and the timestamping validators must be identical, so an edit applied to one walker only is reported; routing from timestamp.Timestamp and the revocation validator (purpose Timestamping) is checked.",
         "Structure of in-repo logic only; crypto/x509 signature checks trusted.",
         "DESIGN.md 5 C14"),
 "C17": ("fork/join structure analysis on the spliced CFG (Add/go/Done/Wait pairing, recover-forward classification, channel capacity) + ownership (write-set) scan",
         "The classic static argument for schedule independence: per go site, Add(1) before go and always followed by it, Done deferred first, Wait on every path to every exit after a spawn, nothing spawned after Wait; each goroutine recovers and forwards panics on a channel with one slot per goroutine, polled and re-raised after the join, closed only by a deferred call of the spawner; goroutines store only results[i] for their own range key and objects they created; no package-level or receiver state is written in the revocation packages; all go sites of the module are covered and agree. The launch loop is left only by exhaustion (which slots are filled never depends on timing); goroutines call no captured function value and read no variable declared outside the launch loop and assigned in it; the fetcher never writes into a bundle it got from the cache; every HTTP response body is closed. Every append in the revocation packages grows a slice the appending function allocated (or a field of a per-check verdict object), never a slice read from a shared certificate or CRL bundle; stores through a local that holds the receiver pointer count as receiver stores.",
         "Happens-before is taken from sync.WaitGroup semantics; races inside net/http and caller-supplied components, and run-time goroutine counts, are not decided (nothing is executed).",
         "DESIGN.md 5 C17"),
 "C18": ("guard analysis of Fetch (modular: download helper and distribution-point parser opaque) + sentinel privacy (who-may-reference) + statelessness scan",
         "Single-step rules on every path: cached bundle only if cache present, Get ok, base and delta within next-update; miss is never an error, other read errors unless discarded; fresh bundle only after a successful base download, written back under the same URL with the same bundle, write errors unless discarded; delta nil only if not advertised, otherwise first answering advertised location, exhaustion returns the last error; download helper http-only/200/capped/parsed. Statelessness (no receiver or package state written) reduces the history clause to these single-step rules; histories are not explored. The freshest-CRL parser reads the whole extension: no break from its outer loop, a failed DER read is an error, every name of a distribution point is examined; a bundle obtained from the cache is never modified. Once a delta location answered, Fetch does not fail before the bundle is written to the cache (an earlier location's error does not outlive a later success).",
         "The caller's Cache implementation and clocks are trusted to their contract.",
         "DESIGN.md 5 C18"),
 "C19": ("guard analysis of a small closed function: exact condition set, loop nesting/ordering rules, returned-value terms",
         "signature.VerifyAuthenticity returns a certificate only on the true edge of (*x509.Certificate).Equal between a chain element and a trust-list element and returns the trust-list element; the scan is chain-major, returns at the first hit, and the not-trusted error only after both scans were exhausted with every comparison false; no other condition (no certificate field) takes part; argument errors exactly for empty trust list / nil signer info; AuthenticSigningTime exactly under signingAuthority with non-zero time (two-sided).",
         "Trusted: Certificate.Equal is raw-byte equality.",
         "DESIGN.md 5 C19"),
}

NOT_YET = {}

def main():
    props = [json.loads(l) for l in open('/verif/properties.jsonl')]
    checks = []
    na = []
    for p in props:
        pid = p['id']
        if pid in CLAIMED:
            tech, text, note, ref = CLAIMED[pid]
            checks.append({
                "property_id": pid,
                "quick_cmd": f"{ENV} ./bin/ncgverif -prop {pid} -tier quick",
                "thorough_cmd": f"{ENV} ./bin/ncgverif -prop {pid} -tier thorough",
                "evidence_file": f"/verif/evidence/{pid}.json",
                "replay_cmd_template": f"{ENV} ./bin/ncgverif -replay {{path}}",
                "engine": "ncgverif",
                "level_claimed": {"category": "other", "text": text, "design_ref": ref},
                "level_note": note,
                "technique": "static analysis: " + tech,
            })
        else:
            na.append({"property_id": pid, "reason": NOT_YET.get(pid, "static check for this property is not built yet in this round (planned, see DESIGN.md section 5); nothing is claimed")})
    m = {
        "version": 1,
        "setup_cmd": f"cd /verif && {ENV} go build -o bin/ncgverif ./cmd/ncgverif",
        "hooks": {
            "guard": "verif",
            "enable": "no hooks are needed: the checks analyse /repo's source as it is (no build tag, no instrumentation)",
            "baseline_off_cmd": "/verif/scripts/baseline.sh /repo",
            "source_commits": [],
            "add_only": True,
        },
        "engines": [{
            "name": "ncgverif",
            "path": "/verif/cmd/ncgverif",
            "serves_properties": sorted(CLAIMED.keys()),
            "kind_free_text": "repository-specific static analyser (go/packages + go/types typed AST; own CFG with inlining and atomic conditions; path-sensitive product exploration; constant tables; syntactic effect scans and dynamic-type decisions for error values; no go/ssa, no go/cfg). Runs no repository code, no tests, no solver.",
        }],
        "checks": checks,
        "notes": "All checks are static analyses of /repo's current working tree (re-loaded and type-checked on every run). Genuine defects found are repaired by fix: commits in /repo and listed in /verif/known_findings.txt as fixed: lines (they suppress nothing).",
        "not_applicable": na,
    }
    json.dump(m, open('/verif/MANIFEST.json', 'w'), indent=1)
    print("claimed:", len(checks), "not_applicable:", len(na))

if __name__ == '__main__':
    main()
