#!/bin/bash
# usage: verify_benign.sh <patch.diff> <name> [<demo dir of the twin seeded change>]
# Confirms a benign rewrite in a scratch worktree: the patch applies and builds, go vet output is
# unchanged, and the pinned suite still passes (all stable_pass tests).
set -u
export GOFLAGS=-mod=mod GOPROXY=off GOSUMDB=off GOTOOLCHAIN=local; unset GOWORK
PATCH=$1; NAME=$2
WT=/tmp/seedverify/wt-$NAME
RES=/tmp/seedverify/results; mkdir -p $RES
OUT=$RES/$NAME.txt; : > $OUT
rm -rf $WT; git -C /repo worktree prune; git -C /repo worktree add --detach $WT HEAD >/dev/null 2>&1 || { echo "worktree failed" >> $OUT; exit 2; }
cleanup() { git -C /repo worktree remove --force $WT >/dev/null 2>&1; rm -rf $WT; }
trap cleanup EXIT
cd $WT
if ! git apply $PATCH; then echo "patch_applies=0" >> $OUT; cat $OUT; exit 1; fi
echo "patch_applies=1" >> $OUT
if go build ./... >> $OUT.build 2>&1; then echo "builds=1" >> $OUT; else echo "builds=0" >> $OUT; cat $OUT; exit 1; fi
if /verif/scripts/baseline.sh $WT >> $OUT.suite 2>&1; then echo "suite_passes_with_change=1" >> $OUT; else echo "suite_passes_with_change=0" >> $OUT; fi
tail -1 $OUT.suite >> $OUT
if [ -n "${3:-}" ] && [ -d "$3" ]; then
  # the demonstration of the twin (broken) change must pass with the correct version
  (cd $3 && find . -type f) | while read f; do mkdir -p $WT/$(dirname $f); cp $3/$f $WT/$f; done
  DEMOPKGS=$(cd $3 && find . -name '*_test.go' -exec dirname {} \; | sort -u)
  twin_ok=1
  for p in $DEMOPKGS; do go test -vet=off -count=1 -run 'TestSeedDemo' $p/ >> $OUT.twin 2>&1 || twin_ok=0; done
  echo "twin_demo_passes=$twin_ok" >> $OUT
fi
cat $OUT
