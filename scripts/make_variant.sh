#!/bin/bash
# usage: make_variant.sh <base.patch> <python-edit-snippet-file> <out.patch>
# Builds a patch against /repo HEAD = base patch + an edit (the snippet gets the tree path in sys.argv[1]); checks it builds.
set -eu
T=$(mktemp -d /tmp/ncgverif-var-XXXXXX); trap 'rm -rf "$T"' EXIT
rsync -a --exclude .git /repo/ $T/a/; rsync -a --exclude .git /repo/ $T/b/
(cd $T/b && GIT_DIR=/nonexistent git apply --whitespace=nowarn "$1")
python3 "$2" $T/b
(cd $T/b && GOFLAGS=-mod=mod GOPROXY=off GOSUMDB=off GOTOOLCHAIN=local go build ./... )
(cd $T && diff -ruN a b | sed -e 's#^--- a/#--- a/#' -e 's#^+++ b/#+++ b/#' -e '/^diff -ruN/d' > "$3") || true
grep -c '^@@' "$3"
