#!/bin/bash
# usage: screen_patch.sh <patch> <prop>[,<prop>...]  -- like try_patch.sh, but on a temporary copy of /repo's
# working tree (so /repo is never touched and several can run at once).
set -u
PATCH=$1; PROPS=$2
T=$(mktemp -d /tmp/ncgverif-screen-XXXXXX)
trap 'rm -rf "$T"' EXIT
mkdir -p $T/out; rsync -a --exclude .git /repo/ $T/tree/; cp /verif/known_findings.txt $T/out/
if ! (cd $T/tree && GIT_DIR=/nonexistent git apply --whitespace=nowarn "$PATCH" 2>/dev/null || patch -p1 -s -i "$PATCH" >/dev/null 2>&1); then echo "PATCH-DOES-NOT-APPLY $PATCH"; exit 4; fi
rc=0
for p in ${PROPS//,/ }; do
  out=$(cd /verif && NCGVERIF_CHILD=1 ${BIN:-./bin/ncgverif} -repo $T/tree -prop $p -verif $T/out 2>&1); r=$?
  echo "== $p exit=$r"
  echo "$out" | grep -E '^(FAILED|UNDECIDED|VIOLATION|KNOWN)' | grep -v '^VIOLATION' | head -${SHOW:-12}
  [ $r -ne 0 ] && rc=1
done
[ -n "${KEEP:-}" ] && { rm -rf /tmp/ncgverif-screen-last; cp -r $T /tmp/ncgverif-screen-last; }
exit $rc
