package main

// Product exploration: states are (graph node, abstract store of the live
// variables, non-emptiness facts). Branches whose condition is decided by the
// store are pruned; every other branch contributes an edge labelled with the
// normalised atom it establishes. All obligations are reachability queries on
// this finite product graph. No formulas, no solver, no concrete execution.

import (
	"fmt"
	"go/types"
	"sort"
	"strconv"
	"strings"
)

type Val struct {
	T *Term
	N int8 // 0 unknown, 1 nil, -1 non-nil
	// LK/LV: the last element store s[LK] = LV into a local slice (read back by
	// s[LK] until the variable is assigned, another element is stored, the
	// slice is handed to a call or the key ages)
	LK, LV *Term
	// LocV/LocP: the variable holds &LocV.LocP... (the address of a field of
	// a tracked local struct): reads and stores through it go to LocV
	LocV *Var
	LocP []string
}

type Label struct {
	Kind string // atom call store assign rangenext rangedone go defer ret note panic select unsupported
	Key  string
	Pol  bool
	T    *Term
	T2   *Term
	Node *Node
	// Implied: an ordering fact that follows from the tested condition (and
	// earlier tests on the same path) by trichotomy; matched by queries like a
	// tested atom, not listed among the conditions of the code
	Implied bool
}

func (l Label) String() string {
	switch l.Kind {
	case "atom":
		if l.Pol {
			return "+" + l.Key
		}
		return "-" + l.Key
	case "store":
		return "store " + l.Key + " := " + l.T2.Key()
	case "assign":
		return "assign " + l.Key + " := " + l.T2.Key()
	default:
		return l.Kind + " " + l.Key
	}
}

type PEdge struct {
	From, To *PState
	Labels   []Label
}

type PState struct {
	ID    int
	Node  *Node
	St    map[int]Val
	Facts map[string]bool
	Out   []*PEdge
	In    []*PEdge
	Ret   []Val // for root return nodes
}

type PG struct {
	G      *Graph
	States []*PState
	Entry  *PState
	index  map[string]*PState
	live   []map[int]bool
	pinned []int
	Trunc  bool
	Unsup  []*Node
	nedges int
	// Infeasible: edges excluded from every query because a separately
	// discharged obligation shows they cannot be taken.
	Infeasible *LP
}

var maxStates = 400000

const maxTermDepth = 30

func opaque(name string) *Term { return &Term{Op: "opaque", Name: "?" + name} }

func termNilness(t *Term) int8 {
	if t == nil {
		return 0
	}
	switch t.Op {
	case "const":
		if t.Name == "nil" {
			return 1
		}
		if t.Name == "zero" {
			return 0
		}
		return -1
	case "addr", "addrvar", "struct", "list", "maplit", "closure", "fn", "mval":
		return -1
	case "global":
		if nonNilGlobals[t.Name] {
			return -1
		}
	case "call":
		switch t.Name {
		case "fmt.Errorf", "errors.New", "new", "make", "errors.Join":
			return -1
		case "append":
			if len(t.Args) >= 2 {
				return -1
			}
		}
	}
	return 0
}

// nonNilGlobals: package-level variables initialised with a constructor call
// (errors.New, fmt.Errorf, &T{}, make, composite literal). Filled by the builder.
var nonNilGlobals = map[string]bool{}

type explorer struct {
	pg *PG
	g  *Graph
	// heap: synthetic variables holding the value last stored into a field
	// reached from a parameter ("recv.Raw"), by location key; read back until
	// an opaque call or a store into a field of the same name intervenes
	heap map[string]*Var
}

// paramRooted: the term is a chain of field selections (through pointers) that
// starts at a parameter.
func paramRooted(t *Term) bool {
	n := 0
	for t != nil {
		switch t.Op {
		case "field":
			n++
			t = t.Args[0]
		case "deref":
			t = t.Args[0]
		case "param":
			return n > 0
		default:
			return false
		}
	}
	return false
}

func (x *explorer) heapVar(key string, create bool) *Var {
	if v, ok := x.heap[key]; ok {
		return v
	}
	if !create {
		return nil
	}
	if x.heap == nil {
		x.heap = map[string]*Var{}
	}
	v := &Var{ID: len(x.g.Vars), Name: "heap:" + key, Pinned: true, Captured: true}
	x.g.Vars = append(x.g.Vars, v)
	x.heap[key] = v
	return v
}

// forgetHeap drops remembered field values: all of them (field == ""), or those
// of fields with the given name (another path may reach the same object).
func (x *explorer) forgetHeap(st map[int]Val, field string) {
	for key, v := range x.heap {
		if _, ok := st[v.ID]; !ok {
			continue
		}
		if field == "" || strings.HasSuffix(key, "."+field) {
			delete(st, v.ID)
		}
	}
}

func (x *explorer) val(t *Term, st map[int]Val) Val {
	if t != nil && t.Op == "var" && !isVolatile(t.V) {
		if v, ok := st[t.V.ID]; ok {
			return v
		}
	}
	r := x.resolve(t, st, 0)
	return Val{T: r, N: termNilness(r)}
}

func (x *explorer) resolve(t *Term, st map[int]Val, depth int) *Term {
	if t == nil {
		return nil
	}
	switch t.Op {
	case "var":
		if isVolatile(t.V) {
			return opaque("vol")
		}
		if v, ok := st[t.V.ID]; ok && v.LocV != nil && depth < 40 {
			// the address of a field of a tracked struct: its current value
			f := x.resolve(varTerm(v.LocV), st, depth+1)
			for _, p := range v.LocP {
				f = x.simplify(&Term{Op: "field", Name: p, Args: []*Term{f}}, st, depth+1)
			}
			return mk("addr", "", f)
		}
		if v, ok := st[t.V.ID]; ok && v.T != nil {
			return v.T
		}
		return opaque(t.V.Name)
	case "addrvar", "const", "param", "global", "fn", "self", "opaque":
		return t
	}
	if depth > 40 {
		return opaque("deep")
	}
	if t.Op == "index" && len(t.Args) == 2 && t.Args[0].Op == "var" && !isVolatile(t.Args[0].V) {
		if v, ok := st[t.Args[0].V.ID]; ok && v.LK != nil {
			if k := x.resolve(t.Args[1], st, depth+1); k.Key() == v.LK.Key() {
				return v.LV
			}
		}
	}
	args := make([]*Term, len(t.Args))
	changed := false
	for i, a := range t.Args {
		args[i] = x.resolve(a, st, depth+1)
		if args[i] != a {
			changed = true
		}
	}
	n := t
	if changed {
		n = &Term{Op: t.Op, Name: t.Name, Args: args, V: t.V, Fields: t.Fields, Pos: t.Pos, Owner: t.Owner}
	}
	r := x.simplify(n, st, depth)
	if len(x.heap) > 0 && r != nil && r.Op == "field" && paramRooted(r) {
		if hv := x.heapVar(r.Key(), false); hv != nil {
			if v, ok := st[hv.ID]; ok && v.T != nil {
				return v.T
			}
		}
	}
	return r
}

func (x *explorer) simplify(t *Term, st map[int]Val, depth int) *Term {
	switch t.Op {
	case "field":
		b := t.Args[0]
		if b.Op == "assert" && len(b.Args) == 1 && !strings.HasPrefix(b.Name, "interface") {
			// x.(T).f names the same thing as the f of the variable a type switch binds in `case T`
			// (rendered x.f): one form
			return x.simplify(&Term{Op: "field", Name: t.Name, Args: []*Term{b.Args[0]}, Pos: t.Pos, Owner: t.Owner}, st, depth+1)
		}
		switch b.Op {
		case "struct":
			if v := structGet(b, t.Name); v != nil {
				return v
			}
		case "addrvar":
			inner := x.resolve(varTerm(b.V), st, depth+1)
			return x.simplify(&Term{Op: "field", Name: t.Name, Args: []*Term{inner}, Pos: t.Pos, Owner: t.Owner}, st, depth+1)
		case "addr", "deref":
			return x.simplify(&Term{Op: "field", Name: t.Name, Args: []*Term{b.Args[0]}, Pos: t.Pos, Owner: t.Owner}, st, depth+1)
		}
	case "deref":
		b := t.Args[0]
		switch b.Op {
		case "addr":
			return b.Args[0]
		case "addrvar":
			return x.resolve(varTerm(b.V), st, depth+1)
		}
	case "index":
		b, i := t.Args[0], t.Args[1]
		if i.Op == "rk" && i.Args[0].Key() == b.Key() {
			// the element at the current key of a range over the same collection
			return &Term{Op: "re", Args: []*Term{b}, Pos: t.Pos}
		}
		if i.Op == "rk" && i.Args[0].Op == "slice" && len(i.Args[0].Args) == 3 && i.Args[0].Args[1] == nil && i.Args[0].Args[0].Key() == b.Key() {
			// ... or over a prefix x[:n] of it (same indices)
			return &Term{Op: "re", Args: []*Term{i.Args[0]}, Pos: t.Pos}
		}
		if b.Op == "list" {
			if k, ok := intConst(i); ok && k >= 0 && int(k) < len(b.Args) {
				return b.Args[k]
			}
		}
		if v := mapLookup(b, i); v != nil {
			return v
		}
	case "call":
		if len(t.Args) >= 1 && t.Args[0].Op == "assert" && len(t.Args[0].Args) == 1 && strings.HasPrefix(t.Name, "(") {
			// a method of T called on x.(T): likewise
			if recvT := t.Name[1:strings.Index(t.Name, ")")]; recvT == t.Args[0].Name || recvT == "*"+t.Args[0].Name {
				return &Term{Op: "call", Name: t.Name, Args: append([]*Term{t.Args[0].Args[0]}, t.Args[1:]...), Pos: t.Pos}
			}
		}
		if t.Name == "dyn" && len(t.Args) >= 1 && t.Args[0].Op == "mval" && len(t.Args[0].Args) == 1 {
			// a call through a method value (slices.ContainsFunc(xs, id.Equal)) is the method call
			mv := t.Args[0]
			return &Term{Op: "call", Name: mv.Name, Args: append([]*Term{mv.Args[0]}, t.Args[1:]...), Pos: t.Pos}
		}
		if t.Name == "len" && len(t.Args) == 1 {
			if t.Args[0].Op == "list" {
				return konst(strconv.Itoa(len(t.Args[0].Args)))
			}
			if t.Args[0].isConst() && t.Args[0].Name == "nil" {
				return konst("0")
			}
			if m := t.Args[0]; m.Op == "maplit" {
				all := true
				for i := 0; i+1 < len(m.Args); i += 2 {
					if !m.Args[i].isConst() {
						all = false
					}
				}
				if all {
					return konst(strconv.Itoa(len(m.Args) / 2))
				}
			}
		}
	case "bin":
		if a, ok := intConst(t.Args[0]); ok {
			if b, ok2 := intConst(t.Args[1]); ok2 {
				switch t.Name {
				case "+":
					return konst(strconv.FormatInt(a+b, 10))
				case "-":
					return konst(strconv.FormatInt(a-b, 10))
				case "*":
					return konst(strconv.FormatInt(a*b, 10))
				}
			}
		}
	}
	if t.depth() > maxTermDepth {
		return opaque("deep")
	}
	return t
}

// deep replaces pointers to locals by pointers to their current values (for
// values that leave the function: returns, stores, call arguments in reports).
func (x *explorer) deep(t *Term, st map[int]Val, depth int) *Term {
	if t == nil || depth > 6 {
		return t
	}
	if t.Op == "addrvar" {
		if v, ok := st[t.V.ID]; ok && v.T != nil {
			if v.T.mentionsVar(t.V) {
				// "what a call left behind this very pointer": one level only
				return mk("addr", "", v.T)
			}
			return mk("addr", "", x.deep(v.T, st, depth+1))
		}
		return t
	}
	if len(t.Args) == 0 {
		return t
	}
	switch t.Op {
	case "call", "res", "outarg":
		// inside a call the pointer keeps its placeholder: the key of a call must not
		// depend on which locals happen to be live where it is printed
		return t
	}
	args := make([]*Term, len(t.Args))
	changed := false
	for i, a := range t.Args {
		args[i] = x.deep(a, st, depth+1)
		if args[i] != a {
			changed = true
		}
	}
	if !changed {
		return t
	}
	return &Term{Op: t.Op, Name: t.Name, Args: args, V: t.V, Fields: t.Fields, Pos: t.Pos, Owner: t.Owner}
}

// ageTerm marks the element/key of the range loop over xkey held in a value
// that survives the iteration as belonging to an earlier iteration.
func ageTerm(t *Term, xkey string) *Term {
	if t == nil {
		return t
	}
	if t.Op == "old" {
		return t
	}
	if (t.Op == "re" || t.Op == "rk") && t.Args[0].Key() == xkey {
		return &Term{Op: "old", Args: []*Term{t}}
	}
	if len(t.Args) == 0 {
		return t
	}
	var args []*Term
	for i, a := range t.Args {
		na := ageTerm(a, xkey)
		if na != a && args == nil {
			args = append([]*Term{}, t.Args...)
		}
		if args != nil {
			args[i] = na
		}
	}
	if args == nil {
		return t
	}
	nt := &Term{Op: t.Op, Name: t.Name, Args: args, V: t.V, Fields: t.Fields, Pos: t.Pos, Owner: t.Owner}
	return collapseMap(nt)
}

// collapseMap merges repeated updates with the same key term (after ageing a
// loop element, successive iterations write "the same" key).
func collapseMap(t *Term) *Term {
	switch t.Op {
	case "mapset":
		in := t.Args[0]
		if in.Op == "mapset" && in.Args[1].Key() == t.Args[1].Key() {
			return &Term{Op: "mapset", Args: []*Term{in.Args[0], t.Args[1], t.Args[2]}}
		}
	case "mapdel":
		in := t.Args[0]
		if in.Op == "mapdel" && in.Args[1].Key() == t.Args[1].Key() {
			return in
		}
	}
	return t
}

func copyStore(st map[int]Val) map[int]Val {
	n := make(map[int]Val, len(st)+2)
	for k, v := range st {
		n[k] = v
	}
	return n
}

func copyFacts(f map[string]bool) map[string]bool {
	n := make(map[string]bool, len(f)+1)
	for k, v := range f {
		n[k] = v
	}
	return n
}

func (pg *PG) stateKey(n *Node, st map[int]Val, facts map[string]bool) string {
	var ids []int
	for id := range st {
		ids = append(ids, id)
	}
	sort.Ints(ids)
	var b strings.Builder
	b.WriteString(strconv.Itoa(n.ID))
	for _, id := range ids {
		v := st[id]
		b.WriteString("|")
		b.WriteString(strconv.Itoa(id))
		b.WriteString("=")
		if v.T != nil {
			b.WriteString(v.T.Key())
		}
		if v.N != 0 {
			b.WriteString("^" + strconv.Itoa(int(v.N)))
		}
		if v.LK != nil {
			b.WriteString("@" + v.LK.Key() + ":" + v.LV.Key())
		}
		if v.LocV != nil {
			b.WriteString("&" + strconv.Itoa(v.LocV.ID) + "." + strings.Join(v.LocP, "."))
		}
	}
	if len(facts) > 0 {
		var fk []string
		for k := range facts {
			fk = append(fk, k)
		}
		sort.Strings(fk)
		b.WriteString("||" + strings.Join(fk, ";"))
	}
	return b.String()
}

func (pg *PG) intern(n *Node, st map[int]Val, facts map[string]bool) (*PState, bool) {
	// prune to live variables
	live := pg.live[n.ID]
	var held map[int]bool // dead address-taken variables some remaining value points to
	for id := range st {
		if live[id] {
			continue
		}
		v := pg.G.Vars[id]
		if !v.Pinned {
			delete(st, id)
			continue
		}
		if v.Captured {
			continue
		}
		// address taken only: kept while some other value holds the address
		if held == nil {
			held = map[int]bool{}
			for {
				grew := false
				for id2, val := range st {
					if !live[id2] && !held[id2] && !pg.G.Vars[id2].Captured && pg.G.Vars[id2].Pinned {
						continue // itself a candidate: counts only once it is held
					}
					for _, a := range val.T.addrVars() {
						if !held[a] {
							held[a] = true
							grew = true
						}
					}
					if val.LocV != nil && !held[val.LocV.ID] {
						held[val.LocV.ID] = true
						grew = true
					}
				}
				if !grew {
					break
				}
			}
		}
		if !held[id] {
			delete(st, id)
		}
	}
	k := pg.stateKey(n, st, facts)
	if s, ok := pg.index[k]; ok {
		return s, false
	}
	s := &PState{ID: len(pg.States), Node: n, St: st, Facts: facts}
	pg.States = append(pg.States, s)
	pg.index[k] = s
	return s, true
}

type succ struct {
	n      *Node
	st     map[int]Val
	facts  map[string]bool
	labels []Label
}

// explore builds the product graph of g.
func explore(g *Graph) *PG {
	pg := &PG{G: g, index: map[string]*PState{}}
	pg.live = g.liveness()
	x := &explorer{pg: pg, g: g}
	entry, _ := pg.intern(g.Entry, map[int]Val{}, map[string]bool{})
	pg.Entry = entry
	work := []*PState{entry}
	for len(work) > 0 {
		s := work[len(work)-1]
		work = work[:len(work)-1]
		if len(pg.States) > maxStates {
			pg.Trunc = true
			break
		}
		for _, sc := range x.step(s) {
			t, fresh := pg.intern(sc.n, sc.st, sc.facts)
			e := &PEdge{From: s, To: t, Labels: sc.labels}
			s.Out = append(s.Out, e)
			t.In = append(t.In, e)
			pg.nedges++
			if fresh {
				work = append(work, t)
			}
		}
	}
	return pg
}

func nilOracle(cond *Term, st map[int]Val) func(*Term) int {
	known := map[string]int8{}
	cond.walk(func(t *Term) {
		if t.Op == "var" {
			if v, ok := st[t.V.ID]; ok && v.N != 0 && v.T != nil {
				known[v.T.Key()] = v.N
			}
		}
	})
	return func(t *Term) int {
		if n := termNilness(t); n != 0 {
			return int(n)
		}
		if n, ok := known[t.Key()]; ok {
			return int(n)
		}
		return 0
	}
}

// refine updates the store with what an established atom says about values.
func refine(st map[int]Val, facts map[string]bool, a Atom) map[string]bool {
	switch {
	case strings.HasPrefix(a.Key, "IsNil("):
		k := a.Key[6 : len(a.Key)-1]
		for id, v := range st {
			if v.T != nil && v.T.Key() == k && v.N == 0 {
				if a.Pol {
					st[id] = Val{T: tNil, N: 1}
				} else {
					st[id] = Val{T: v.T, N: -1}
				}
			}
		}
	case strings.HasPrefix(a.Key, "Truth("):
		k := a.Key[6 : len(a.Key)-1]
		for id, v := range st {
			if v.T != nil && v.T.Key() == k {
				if a.Pol {
					st[id] = Val{T: tTrue, N: -1}
				} else {
					st[id] = Val{T: tFalse, N: -1}
				}
			}
		}
	case strings.HasPrefix(a.Key, "Empty("):
		k := a.Key[6 : len(a.Key)-1]
		if !a.Pol {
			facts = copyFacts(facts)
			facts["NE:"+k] = true
		}
	}
	// other boolean terms bound to variables (e.g. v := a.Before(b); if v ...)
	return facts
}

// mapDeletes applies delete(m, k) calls on tracked local maps.
func (x *explorer) mapDeletes(n *Node, st, st2 map[int]Val) {
	for _, c := range n.Calls {
		if c.Op == "call" && c.Name == "delete" && len(c.Args) == 2 && c.Args[0].Op == "var" {
			mv := c.Args[0].V
			if cur, ok := st2[mv.ID]; ok && isMapValue(cur.T) {
				st2[mv.ID] = Val{T: mapDel(cur.T, x.resolve(c.Args[1], st, 0)), N: -1}
			}
		}
	}
}

func (x *explorer) callLabels(n *Node, st map[int]Val) []Label {
	var ls []Label
	for _, c := range n.Calls {
		r0 := x.resolve(c, st, 0)
		r := x.deep(r0, st, 0)
		// Key: pointers to locals stay placeholders (identity of the local object);
		// T2: the same call with the locals' current values filled in
		ls = append(ls, Label{Kind: "call", Key: r0.Key(), T: r0, T2: r, Node: n})
	}
	return ls
}

var readOnlyCallees = []string{"fmt.", "errors.New", "errors.Is", "errors.Unwrap", "errors.Join", "encoding/json.Marshal", "strings.", "bytes.Equal", "append", "len", "cap", "chansend", "slices.", "sort.", "strconv."}

func isReadOnlyCallee(name string) bool {
	for _, p := range readOnlyCallees {
		if strings.HasPrefix(name, p) {
			return true
		}
	}
	return false
}

// havoc: variables whose address is passed to a call (or fresh pointers passed
// to a call that may write them) take the value "what that call left there".
func (x *explorer) havoc(n *Node, st map[int]Val) {
	for _, c := range n.Calls {
		if c.Op != "call" || isReadOnlyCallee(c.Name) {
			continue
		}
		switch c.Name {
		case "delete", "close", "copy", "recover", "chanrecv", "panic", "print", "println", "min", "max", "make", "new", "clear", "append", "len", "cap":
			continue
		}
		x.forgetHeap(st, "")
		for _, a := range c.Args {
			if a.Op == "var" {
				if v, ok := st[a.V.ID]; ok && v.T != nil {
					forgetElems(st, v.T)
				}
			}
		}
		var rc *Term
		for i, a := range c.Args {
			switch a.Op {
			case "addrvar":
				if rc == nil {
					rc = x.resolve(c, st, 0)
				}
				st[a.V.ID] = Val{T: &Term{Op: "outarg", Name: strconv.Itoa(i), Args: []*Term{rc}, Pos: c.Pos}}
			case "var":
				v, ok := st[a.V.ID]
				if !ok || v.T == nil {
					continue
				}
				fresh := (v.T.Op == "addr" && v.T.Args[0].Op == "struct") || (v.T.Op == "call" && v.T.Name == "new")
				if fresh {
					if rc == nil {
						rc = x.resolve(c, st, 0)
					}
					st[a.V.ID] = Val{T: &Term{Op: "outarg", Name: strconv.Itoa(i), Args: []*Term{rc}, Pos: c.Pos}, N: -1}
				}
			}
		}
	}
}

// locate: the tracked local struct variable and field path that the field
// chain f (rooted at a variable) designates: the variable itself when it is a
// struct, the variable it points to when it holds that variable's address.
func (x *explorer) locate(f *Term, st map[int]Val) (*Var, []string) {
	root, path := splitPath(f)
	if root.Op != "var" || len(path) == 0 || isVolatile(root.V) {
		return nil, nil
	}
	cur, ok := st[root.V.ID]
	switch {
	case ok && cur.LocV != nil:
		return cur.LocV, append(append([]string{}, cur.LocP...), path...)
	case ok && cur.T != nil && cur.T.Op == "addrvar" && !isVolatile(cur.T.V):
		return cur.T.V, path
	}
	return nil, nil
}

// resolveLoc resolves a store target: like resolve, but the location itself is
// not replaced by the value remembered for it.
func (x *explorer) resolveLoc(t *Term, st map[int]Val) *Term {
	saved := x.heap
	x.heap = nil
	r := x.resolve(t, st, 0)
	x.heap = saved
	return r
}

// forgetElems drops the remembered element store of every variable that holds
// the collection t (the variable stored through and its aliases).
func forgetElems(st map[int]Val, t *Term) {
	if t == nil {
		return
	}
	k := t.Key()
	for id, v := range st {
		if v.LK != nil && v.T != nil && v.T.Key() == k {
			v.LK, v.LV = nil, nil
			st[id] = v
		}
	}
}

// ---- local maps -----------------------------------------------------------

func isMapValue(t *Term) bool {
	if t == nil {
		return false
	}
	switch t.Op {
	case "maplit", "mapset", "mapdel":
		return true
	case "call":
		return t.Name == "make" && len(t.Args) > 0 && t.Args[0].isConst() && strings.HasPrefix(t.Args[0].Name, "map[")
	}
	return false
}

func asMapLit(t *Term) *Term {
	if t.Op == "call" && t.Name == "make" {
		return &Term{Op: "maplit", Name: t.Args[0].Name}
	}
	return t
}

// mapPut returns the map term after m[k] = v.
func mapPut(m, k, v *Term) *Term {
	m = asMapLit(m)
	if m.Op == "maplit" && k.isConst() {
		n := &Term{Op: "maplit", Name: m.Name}
		done := false
		for i := 0; i+1 < len(m.Args); i += 2 {
			if m.Args[i].Key() == k.Key() {
				n.Args = append(n.Args, k, v)
				done = true
			} else {
				n.Args = append(n.Args, m.Args[i], m.Args[i+1])
			}
		}
		if !done {
			// keep constant keys sorted for a canonical form
			pos := len(n.Args)
			for i := 0; i+1 < len(n.Args); i += 2 {
				if n.Args[i].Key() > k.Key() {
					pos = i
					break
				}
			}
			n.Args = append(n.Args[:pos], append([]*Term{k, v}, n.Args[pos:]...)...)
		}
		return n
	}
	if m.Op == "mapset" && m.Args[1].Key() == k.Key() {
		return &Term{Op: "mapset", Args: []*Term{m.Args[0], k, v}}
	}
	return &Term{Op: "mapset", Args: []*Term{m, k, v}}
}

// mapDel returns the map term after delete(m, k).
func mapDel(m, k *Term) *Term {
	m = asMapLit(m)
	if m.Op == "maplit" && k.isConst() {
		n := &Term{Op: "maplit", Name: m.Name}
		for i := 0; i+1 < len(m.Args); i += 2 {
			if m.Args[i].Key() != k.Key() {
				n.Args = append(n.Args, m.Args[i], m.Args[i+1])
			}
		}
		return n
	}
	if m.Op == "mapdel" && m.Args[1].Key() == k.Key() {
		return m
	}
	return &Term{Op: "mapdel", Args: []*Term{m, k}}
}

// mapLookup resolves m[k] when the map term determines it (nil otherwise).
func mapLookup(m, k *Term) *Term {
	switch m.Op {
	case "maplit":
		if !k.isConst() {
			return nil
		}
		for i := 0; i+1 < len(m.Args); i += 2 {
			if m.Args[i].Key() == k.Key() {
				return m.Args[i+1]
			}
		}
	case "mapset":
		if m.Args[1].Key() == k.Key() {
			return m.Args[2]
		}
		if m.Args[1].isConst() && k.isConst() {
			return mapLookup(m.Args[0], k)
		}
	}
	return nil
}

func splitPath(t *Term) (root *Term, path []string) {
	for {
		switch t.Op {
		case "field":
			path = append([]string{t.Name}, path...)
			t = t.Args[0]
			continue
		case "deref":
			t = t.Args[0]
			continue
		}
		return t, path
	}
}

func setPath(s *Term, typ string, path []string, v *Term) *Term {
	if len(path) == 1 {
		return structSet(s, typ, path[0], v)
	}
	inner := structGet(s, path[0])
	if inner == nil {
		if s == nil {
			inner = tZero
		} else {
			inner = mk("field", path[0], s)
		}
	}
	return structSet(s, typ, path[0], setPath(inner, "", path[1:], v))
}

func isStructVar(v *Var) bool {
	if v.Typ == nil {
		return false
	}
	_, ok := v.Typ.Underlying().(*types.Struct)
	return ok
}

func (x *explorer) step(s *PState) []succ {
	n := s.Node
	st := s.St
	labels := x.callLabels(n, st)
	next := func(st2 map[int]Val, facts map[string]bool, ls []Label) []succ {
		var out []succ
		for i, sn := range n.Succ {
			stc := st2
			if i < len(n.Succ)-1 {
				stc = copyStore(st2)
			}
			out = append(out, succ{n: sn, st: stc, facts: facts, labels: ls})
		}
		return out
	}
	switch n.Kind {
	case NNop, NExit, NCall:
		st2 := copyStore(st)
		x.havoc(n, st2)
		x.mapDeletes(n, st, st2)
		if n.Note != "" {
			labels = append(labels, Label{Kind: "note", Key: n.Note, Node: n})
		}
		return next(st2, s.Facts, labels)
	case NUnsupported:
		x.pg.Unsup = append(x.pg.Unsup, n)
		labels = append(labels, Label{Kind: "unsupported", Key: n.Note, Node: n})
		return next(copyStore(st), s.Facts, labels)
	case NGo, NDefer:
		kind := "go"
		if n.Kind == NDefer {
			kind = "defer"
		}
		key := "lit"
		if len(n.Calls) > 0 {
			key = labels[len(labels)-1].Key
		}
		labels = append(labels, Label{Kind: kind, Key: key, Node: n})
		return next(copyStore(st), s.Facts, labels)
	case NSelect:
		labels = append(labels, Label{Kind: "select", Node: n})
		return next(copyStore(st), s.Facts, labels)
	case NPanic:
		s.Ret = []Val{x.val(n.Value, st)}
		return nil
	case NAssign:
		st2 := copyStore(st)
		vals := make([]Val, len(n.Dst))
		for i, d := range n.Dst {
			if d == nil {
				continue
			}
			src := n.Src[i]
			if src.Op != "var" && src.mentionsVar(d) {
				// self-referential update: x = f(x)
				tmp := copyStore(st)
				tmp[d.ID] = Val{T: tSelf}
				r := x.resolve(src, tmp, 0)
				vals[i] = Val{T: r, N: termNilness(r)}
			} else {
				vals[i] = x.val(src, st)
				if src.Op == "addr" && len(src.Args) == 1 {
					if w, path := x.locate(src.Args[0], st); w != nil {
						vals[i].LocV, vals[i].LocP = w, path
					}
				} else if src.Op == "var" {
					// copying such a pointer copies the location
					if sv, ok := st[src.V.ID]; ok && sv.LocV != nil {
						vals[i].LocV, vals[i].LocP = sv.LocV, sv.LocP
					}
				}
			}
		}
		x.havoc(n, st2)
		for i, d := range n.Dst {
			if d == nil {
				continue
			}
			st2[d.ID] = vals[i]
			if d.Obj != nil || n.Note == "ret" {
				labels = append(labels, Label{Kind: "assign", Key: d.Name, T: varTerm(d), T2: vals[i].T, Node: n})
			}
		}
		if n.Note != "" {
			labels = append(labels, Label{Kind: "note", Key: n.Note, Node: n})
		}
		return next(st2, s.Facts, labels)
	case NStore:
		st2 := copyStore(st)
		x.havoc(n, st2)
		v := x.val(n.Value, st)
		root, path := splitPath(n.Target)
		done := false
		if root.Op == "var" && len(path) > 0 && !isVolatile(root.V) {
			cur, ok := st[root.V.ID]
			switch {
			case ok && cur.LocV != nil:
				w := cur.LocV
				wv := st[w.ID]
				full := append(append([]string{}, cur.LocP...), path...)
				st2[w.ID] = Val{T: setPath(wv.T, x.g.P.typeStr(w.Typ), full, v.T), N: -1}
				done = true
			case ok && cur.T != nil && cur.T.Op == "addrvar":
				w := cur.T.V
				wv := st[w.ID]
				st2[w.ID] = Val{T: setPath(wv.T, cur.T.Name, path, v.T), N: -1}
				done = true
			case ok && cur.T != nil && cur.T.Op == "addr" && cur.T.Args[0].Op == "struct":
				st2[root.V.ID] = Val{T: mk("addr", "", setPath(cur.T.Args[0], cur.T.Args[0].Name, path, v.T)), N: -1}
				done = true
			case isStructVar(root.V) || (ok && cur.T != nil && cur.T.Op == "struct"):
				var base *Term
				if ok {
					base = cur.T
				}
				st2[root.V.ID] = Val{T: setPath(base, x.g.P.typeStr(root.V.Typ), path, v.T), N: -1}
				done = true
			}
		}
		if n.Target.Op == "index" && n.Target.Args[0].Op == "var" && !isVolatile(n.Target.Args[0].V) {
			mv := n.Target.Args[0].V
			if cur, ok := st[mv.ID]; ok && isMapValue(cur.T) {
				k := x.resolve(n.Target.Args[1], st, 0)
				st2[mv.ID] = Val{T: mapPut(cur.T, k, v.T), N: -1}
				done = true
			} else if ok && cur.T != nil && v.T != nil {
				// element store into a local slice: remembered for reading back
				k := x.resolve(n.Target.Args[1], st, 0)
				forgetElems(st2, cur.T)
				nv := cur
				nv.LK, nv.LV = k, v.T
				st2[mv.ID] = nv
			}
		} else if r, _ := splitPath(n.Target); r.Op == "index" {
			// a store through any other path into an indexed collection
			forgetElems(st2, x.resolve(r.Args[0], st, 0))
		}
		tk := x.deep(x.resolveLoc(n.Target, st), st, 0)
		kind := "store"
		if done {
			kind = "lstore" // store into a tracked local object
		}
		if !done && tk.Op == "field" {
			x.forgetHeap(st2, tk.Name)
			// (an update of the location in terms of itself, req.T = req.T.Truncate(..), keeps the
			// location's name: the rules speak about "the request's T")
			if paramRooted(tk) && v.T != nil && !strings.Contains(v.T.Key(), tk.Key()) {
				st2[x.heapVar(tk.Key(), true).ID] = Val{T: v.T, N: v.N}
			}
		}
		labels = append(labels, Label{Kind: kind, Key: tk.Key(), T: tk, T2: x.deep(v.T, st, 0), Node: n})
		return next(st2, s.Facts, labels)
	case NReturn:
		for _, r := range n.Results {
			v := x.val(r, st)
			v.T = x.deep(v.T, st, 0)
			s.Ret = append(s.Ret, v)
		}
		labels = append(labels, Label{Kind: "ret", Node: n})
		return next(map[int]Val{}, map[string]bool{}, labels)
	case NRange:
		xr := x.resolve(n.X, st, 0)
		key := xr.Key()
		constMap := xr.Op == "maplit" && len(xr.Args) > 0 && len(xr.Args) <= 32 && n.IdxVar != nil
		if constMap {
			for i := 0; i+1 < len(xr.Args); i += 2 {
				if !xr.Args[i].isConst() {
					constMap = false
				}
			}
		}
		if constMap {
			// range over a local map with constant keys: unrolled in the (sorted) order of the keys -
			// the language leaves the order open, nothing may depend on it
			cnt := len(xr.Args) / 2
			idx := 0
			if !n.First {
				if v, ok := st[n.IdxVar.ID]; ok {
					if k, ok := intConst(v.T); ok {
						idx = int(k)
					}
				}
			}
			st2 := copyStore(st)
			if idx < cnt {
				st2[n.IdxVar.ID] = Val{T: konst(strconv.Itoa(idx + 1))}
				if n.KeyVar != nil {
					st2[n.KeyVar.ID] = Val{T: xr.Args[2*idx], N: -1}
				}
				if n.ValVar != nil {
					st2[n.ValVar.ID] = Val{T: xr.Args[2*idx+1], N: termNilness(xr.Args[2*idx+1])}
				}
				ls := append(append([]Label{}, labels...), Label{Kind: "rangenext", Key: key, T: xr, Node: n})
				return []succ{{n: n.Succ[0], st: st2, facts: s.Facts, labels: ls}}
			}
			delete(st2, n.IdxVar.ID)
			ls := append(append([]Label{}, labels...), Label{Kind: "rangedone", Key: key, T: xr, Node: n})
			return []succ{{n: n.Succ[1], st: st2, facts: s.Facts, labels: ls}}
		}
		if xr.Op == "list" && len(xr.Args) <= 32 && n.IdxVar != nil {
			// range over a literal list: unrolled with a hidden counter
			idx := 0
			if !n.First {
				if v, ok := st[n.IdxVar.ID]; ok {
					if k, ok := intConst(v.T); ok {
						idx = int(k)
					}
				}
			}
			st2 := copyStore(st)
			if idx < len(xr.Args) {
				st2[n.IdxVar.ID] = Val{T: konst(strconv.Itoa(idx + 1))}
				if n.KeyVar != nil {
					st2[n.KeyVar.ID] = Val{T: konst(strconv.Itoa(idx)), N: -1}
				}
				if n.ValVar != nil {
					st2[n.ValVar.ID] = Val{T: xr.Args[idx], N: termNilness(xr.Args[idx])}
				}
				ls := append(append([]Label{}, labels...), Label{Kind: "rangenext", Key: key, T: xr, Node: n})
				return []succ{{n: n.Succ[0], st: st2, facts: s.Facts, labels: ls}}
			}
			delete(st2, n.IdxVar.ID)
			ls := append(append([]Label{}, labels...), Label{Kind: "rangedone", Key: key, T: xr, Node: n})
			return []succ{{n: n.Succ[1], st: st2, facts: s.Facts, labels: ls}}
		}
		age := func(st2 map[int]Val) {
			for id, v := range st2 {
				if v.T == nil || (n.KeyVar != nil && id == n.KeyVar.ID) || (n.ValVar != nil && id == n.ValVar.ID) {
					continue
				}
				nt := ageTerm(v.T, key)
				// a list grown in the loop is carried to the next iteration with its elements
				// summarised (constant fields and loop keys kept, other fields dropped): the
				// edge that appended them keeps the full term in its label
				nt = summariseGrown(nt)
				lk, lv := v.LK, v.LV
				if lk != nil {
					// the remembered element store survives only if its key is not this loop's
					if ageTerm(lk, key) != lk {
						lk, lv = nil, nil
					} else {
						lv = ageTerm(lv, key)
					}
				}
				if nt != v.T || lk != v.LK || lv != v.LV {
					nv := v
					nv.T, nv.LK, nv.LV = nt, lk, lv
					st2[id] = nv
				}
			}
		}
		ageFacts := func(f map[string]bool) map[string]bool {
			var nf map[string]bool
			for k := range f {
				if strings.Contains(k, "re("+key+")") || strings.Contains(k, "rk("+key+")") {
					if nf == nil {
						nf = copyFacts(f)
					}
					delete(nf, k)
				}
			}
			if nf == nil {
				return f
			}
			return nf
		}
		bodyOK, doneOK := true, true
		if n.First {
			if s.Facts["NE:"+key] || emptiness(xr) == -1 {
				doneOK = false
			}
		}
		if emptiness(xr) == 1 {
			bodyOK = false
		}
		var out []succ
		if bodyOK {
			st2 := copyStore(st)
			age(st2)
			if n.KeyVar != nil {
				st2[n.KeyVar.ID] = Val{T: mk("rk", "", xr)}
			}
			if n.ValVar != nil {
				st2[n.ValVar.ID] = Val{T: mk("re", "", xr)}
			}
			ls := append(append([]Label{}, labels...), Label{Kind: "rangenext", Key: key, T: xr, Node: n})
			fs := ageFacts(s.Facts)
			if n.First && (xr.Op != "closure") {
				// a first iteration: the collection is not empty
				if ea := emptyAtom(xr, true); strings.HasPrefix(ea.Key, "Empty(") {
					ls = append(ls, Label{Kind: "atom", Key: ea.Key, Pol: !ea.Pol, T: xr, Node: n, Implied: true})
					fs = copyFacts(fs)
					fs["NE:"+ea.Key[6:len(ea.Key)-1]] = true
				}
			}
			out = append(out, succ{n: n.Succ[0], st: st2, facts: fs, labels: ls})
		}
		if doneOK {
			ls := append(append([]Label{}, labels...), Label{Kind: "rangedone", Key: key, T: xr, Node: n})
			if n.First && (xr.Op != "closure") {
				// done without a first iteration: the collection is empty
				if ea := emptyAtom(xr, true); strings.HasPrefix(ea.Key, "Empty(") {
					ls = append(ls, Label{Kind: "atom", Key: ea.Key, Pol: ea.Pol, T: xr, Node: n, Implied: true})
				}
			}
			st3 := copyStore(st)
			age(st3)
			out = append(out, succ{n: n.Succ[1], st: st3, facts: ageFacts(s.Facts), labels: ls})
		}
		return out
	case NBranch:
		rt := x.resolve(n.Cond, st, 0)
		a := normAtom(rt, nilOracle(n.Cond, st))
		if a.Const == 0 && strings.HasPrefix(a.Key, "Empty(") {
			k := a.Key[6 : len(a.Key)-1]
			if s.Facts["NE:"+k] {
				// known non-empty on this path
				if a.Pol {
					a.Const = -1
				} else {
					a.Const = 1
				}
			}
		}
		if a.Const == 0 && a.EqConst != "" {
			// equality with a constant already decided on this path?
			for f := range s.Facts {
				if strings.HasPrefix(f, "EQ:"+a.EqTerm+"=") {
					known := strings.TrimPrefix(f, "EQ:"+a.EqTerm+"=")
					holds := (known == a.EqConst) == a.Pol
					if holds {
						a.Const = 1
					} else {
						a.Const = -1
					}
				}
			}
		}
		var out []succ
		for i := 0; i < 2; i++ {
			pol := i == 0
			if a.Const != 0 {
				holds := a.Const == 1
				if holds != pol {
					continue
				}
				ls := append([]Label{}, labels...)
				if a.Key != "true" {
					// decided by knowledge carried in the store: the fact still holds here
					ls = append(ls, Label{Kind: "atom", Key: a.Key, Pol: a.Pol == pol, T: rt, Node: n})
				}
				out = append(out, succ{n: n.Succ[i], st: copyStore(st), facts: s.Facts, labels: ls})
				continue
			}
			est := Atom{Key: a.Key, Pol: a.Pol == pol}
			st2 := copyStore(st)
			x.havoc(n, st2)
			facts := refine(st2, s.Facts, est)
			if a.EqConst != "" && est.Pol {
				facts = copyFacts(facts)
				facts["EQ:"+a.EqTerm+"="+a.EqConst] = true
			}
			ls := append(append([]Label{}, labels...), Label{Kind: "atom", Key: est.Key, Pol: est.Pol, T: rt, Node: n})
			var imp []Atom
			facts, imp = orderFacts(facts, est)
			for _, ia := range imp {
				ls = append(ls, Label{Kind: "atom", Key: ia.Key, Pol: ia.Pol, T: rt, Node: n, Implied: true})
			}
			out = append(out, succ{n: n.Succ[i], st: st2, facts: facts, labels: ls})
		}
		return out
	}
	panic(fmt.Sprintf("unknown node kind %d", n.Kind))
}

// ---------------------------------------------------------------------------
// queries

// Search finds a path from any state in from to a state satisfying target that
// uses no blocked edge. It returns the edges of a shortest such path, or nil
// (with found == false) if there is none.
func (pg *PG) Search(from []*PState, target func(*PState) bool, blocked func(*PEdge) bool) (path []*PEdge, found bool) {
	prev := make(map[*PState]*PEdge, len(pg.States))
	seen := make(map[*PState]bool, len(pg.States))
	queue := append([]*PState{}, from...)
	for _, s := range from {
		seen[s] = true
	}
	for len(queue) > 0 {
		s := queue[0]
		queue = queue[1:]
		if target(s) {
			for e := prev[s]; e != nil; e = prev[e.From] {
				path = append(path, e)
			}
			for l, r := 0, len(path)-1; l < r; l, r = l+1, r-1 {
				path[l], path[r] = path[r], path[l]
			}
			return path, true
		}
		for _, e := range s.Out {
			if seen[e.To] || (blocked != nil && blocked(e)) {
				continue
			}
			seen[e.To] = true
			prev[e.To] = e
			queue = append(queue, e.To)
		}
	}
	return nil, false
}

func (e *PEdge) has(pred func(Label) bool) bool {
	for _, l := range e.Labels {
		if pred(l) {
			return true
		}
	}
	return false
}

// Returns lists the product states at root return statements.
func (pg *PG) Returns() []*PState {
	var out []*PState
	for _, s := range pg.States {
		if s.Node.Kind == NReturn {
			out = append(out, s)
		}
	}
	return out
}

func (pg *PG) Panics() []*PState {
	var out []*PState
	for _, s := range pg.States {
		if s.Node.Kind == NPanic {
			out = append(out, s)
		}
	}
	return out
}

// describePath renders the atoms/calls of a path for a report.
func (pg *PG) describePath(path []*PEdge, max int) []string {
	var out []string
	for _, e := range path {
		for _, l := range e.Labels {
			switch l.Kind {
			case "atom", "rangedone", "rangenext", "store", "lstore", "ret":
				pos := "-"
				if l.Node != nil {
					pos = pg.G.P.pos(l.Node.Pos)
				}
				out = append(out, fmt.Sprintf("%s  %s", pos, l.String()))
			}
		}
	}
	if max > 0 && len(out) > max {
		out = append(out[:max/2], append([]string{"..."}, out[len(out)-max/2:]...)...)
	}
	return out
}

// AtomSet lists all atoms (with polarity) on edges, for dumps.
func (pg *PG) AtomSet() []string {
	m := map[string]bool{}
	for _, s := range pg.States {
		for _, e := range s.Out {
			for _, l := range e.Labels {
				if l.Kind == "atom" && !l.Implied {
					m[l.String()] = true
				}
			}
		}
	}
	return sortedKeys(m)
}

// splitTop2 splits "a, b" at the top-level separator.
func splitTop2(s string) (string, string, bool) {
	depth := 0
	inStr := false
	for i := 0; i+1 < len(s); i++ {
		ch := s[i]
		if ch == '"' && (i == 0 || s[i-1] != '\\') {
			inStr = !inStr
		}
		if inStr {
			continue
		}
		switch ch {
		case '(', '[', '{':
			depth++
		case ')', ']', '}':
			depth--
		case ',':
			if depth == 0 && s[i+1] == ' ' {
				return s[:i], s[i+2:], true
			}
		}
	}
	return "", "", false
}

func isIntLit(s string) bool {
	if s == "" {
		return false
	}
	for i, ch := range s {
		if ch == '-' && i == 0 && len(s) > 1 {
			continue
		}
		if ch < '0' || ch > '9' {
			return false
		}
	}
	return true
}

// orderFacts: integer trichotomy along one path. An established Lt/Eq atom
// over a pair of terms implies the atoms that follow from it together with the
// negative ordering facts already collected for the same pair:
//
//	a<b  =>  !(b<a), a!=b        !(a<b) & !(b<a)  =>  a==b
//	!(a<b) & a!=b  =>  b<a       a==b  =>  !(a<b), !(b<a)   (only if the pair was compared before)
func orderFacts(facts map[string]bool, a Atom) (map[string]bool, []Atom) {
	// three families with the same order laws: integers, time instants, big integers
	var lt, eq string
	isLt := false
	switch {
	case strings.HasPrefix(a.Key, "Lt("):
		lt, eq, isLt = "Lt", "Eq", true
	case strings.HasPrefix(a.Key, "Eq("):
		lt, eq = "Lt", "Eq"
	case strings.HasPrefix(a.Key, "TLt("):
		lt, eq, isLt = "TLt", "TEq", true
	case strings.HasPrefix(a.Key, "TEq("):
		lt, eq = "TLt", "TEq"
	case strings.HasPrefix(a.Key, "BLt("):
		lt, eq, isLt = "BLt", "BEq", true
	case strings.HasPrefix(a.Key, "BEq("):
		lt, eq = "BLt", "BEq"
	default:
		return facts, nil
	}
	pred := "Eq"
	if isLt {
		pred = "Lt"
	}
	open := strings.Index(a.Key, "(")
	x, y, ok := splitTop2(a.Key[open+1 : len(a.Key)-1])
	if !ok {
		return facts, nil
	}
	eqKey := func() string { p, q := sorted2(x, y); return eq + "(" + p + ", " + q + ")" }
	var out []Atom
	add := func(k string) {
		facts = copyFacts(facts)
		facts[k] = true
	}
	switch {
	case pred == "Lt" && a.Pol:
		out = append(out, Atom{Key: lt + "(" + y + ", " + x + ")", Pol: false}, Atom{Key: eqKey(), Pol: false})
	case pred == "Lt" && !a.Pol:
		// x >= y
		if facts[lt+"GE:"+y+"|"+x] {
			out = append(out, Atom{Key: eqKey(), Pol: true})
		}
		p, q := sorted2(x, y)
		if facts[lt+"NQ:"+p+"|"+q] {
			out = append(out, Atom{Key: lt + "(" + y + ", " + x + ")", Pol: true})
		}
		add(lt + "GE:" + x + "|" + y)
	case pred == "Eq" && !a.Pol:
		if facts[lt+"GE:"+x+"|"+y] {
			out = append(out, Atom{Key: lt + "(" + y + ", " + x + ")", Pol: true})
		}
		if facts[lt+"GE:"+y+"|"+x] {
			out = append(out, Atom{Key: lt + "(" + x + ", " + y + ")", Pol: true})
		}
		if lt != "Lt" || isIntLit(x) || isIntLit(y) {
			add(lt + "NQ:" + x + "|" + y)
		}
	case pred == "Eq" && a.Pol:
		if facts[lt+"GE:"+x+"|"+y] || facts[lt+"GE:"+y+"|"+x] {
			out = append(out, Atom{Key: lt + "(" + x + ", " + y + ")", Pol: false}, Atom{Key: lt + "(" + y + ", " + x + ")", Pol: false})
		}
	}
	return facts, out
}

// summariseGrown: for append(self, e1, ...) replace every struct element by a
// copy that keeps only constant fields and fields that name loop elements/keys.
func summariseGrown(t *Term) *Term {
	if t == nil || t.Op != "call" || t.Name != "append" || len(t.Args) < 2 || t.Args[0].Op != "self" {
		return t
	}
	changed := false
	args := make([]*Term, len(t.Args))
	copy(args, t.Args)
	for i := 1; i < len(args); i++ {
		if ns := summariseElem(args[i]); ns != args[i] {
			args[i] = ns
			changed = true
		}
	}
	if !changed {
		return t
	}
	return &Term{Op: t.Op, Name: t.Name, Args: args, V: t.V, Fields: t.Fields, Pos: t.Pos}
}

func summariseElem(e *Term) *Term {
	switch e.Op {
	case "addr":
		if len(e.Args) == 1 {
			if in := summariseElem(e.Args[0]); in != e.Args[0] {
				return &Term{Op: "addr", Args: []*Term{in}, Pos: e.Pos}
			}
		}
		return e
	case "struct":
		keep := func(v *Term) bool {
			if v == nil || v == tZero || v.isConst() {
				return true
			}
			k := v.Key()
			return strings.HasPrefix(k, "re(") || strings.HasPrefix(k, "rk(") || strings.HasPrefix(k, "old(re(") || strings.HasPrefix(k, "old(rk(")
		}
		changed := false
		args := make([]*Term, len(e.Args))
		copy(args, e.Args)
		for i := 1; i < len(args); i++ {
			if !keep(args[i]) && args[i].depth() > 2 {
				args[i] = opaque("dropped")
				changed = true
			}
		}
		if !changed {
			return e
		}
		return &Term{Op: "struct", Name: e.Name, Args: args, Fields: e.Fields, Pos: e.Pos}
	}
	return e
}
