package main

// C13: extended attributes = non-specification protected headers, with their
// criticality.

import (
	"go/ast"
	"go/types"
	"sort"
	"strings"
)

func isAttrAppend(l Label) (*Term, bool) {
	if l.Kind != "assign" || l.T2 == nil || l.T2.Op != "call" || l.T2.Name != "append" || len(l.T2.Args) != 2 {
		return nil, false
	}
	if l.Node == nil || l.Node.Note != "" {
		return nil, false // copies of the list (returns, parameter passing), not the append itself
	}
	a := l.T2.Args[1]
	if a.Op == "struct" && a.Name == "ncg/signature.Attribute" {
		// a summarised copy of a grown list handed on (result of the builder kept in a local): not an append
		for _, f := range a.Args[1:] {
			if f != nil && f.Op == "opaque" && f.Name == "?dropped" {
				return nil, false
			}
		}
		if l.T2.Args[0].Op != "self" {
			return nil, false
		}
		if len(l.Node.Src) == 1 && l.Node.Src[0] != nil && l.Node.Src[0].Op == "var" {
			return nil, false // x := y
		}
		return a, true
	}
	return nil, false
}

func checkC13(c *Check) {
	c.Explain = "C13: (1) JWS: the set of keys removed from the attribute map (decoded from the same bytes as the header struct) equals the JSON member names of the protected-header struct, so exactly the specification headers are hidden; (2) COSE: a protected label becomes an extended key only if it differs from each of the seven system labels, and that set equals the labels the reader consumes (alg and crit through the go-cose accessors, the constant keys with which the content path indexes the protected map, and the values of the scheme->time-label table); (3) in both formats each surviving key yields exactly one Attribute per iteration with Key = that key, Value = the map's value for the same key, Critical = true only on the equality edge of the membership scan over the crit list of the same header and false only after that scan was exhausted; (4) a critical label that names no present header is refused (JWS: per element of crit; COSE: go-cose Critical()); (5) the lookup helper returns an attribute only on key equality and an error after exhaustion; (6) on signing, a request key is appended to crit exactly when its Critical flag is set. Value fidelity through the decoders is not decided."
	fmts := discoverFormats(c)
	for _, f := range fmts {
		pg := c.pgOf(f.method("Content"))
		if pg == nil {
			continue
		}
		ok := returnsWhere(pg, func(s *PState) bool { return retNilErr(s, 1) })
		switch f.name {
		case "JWS":
			t := jwsNames(c)
			EA := t.PH + ".ExtendedAttributes"
			crit := t.PH + ".Critical"
			// (1) table
			var structNames []string
			for _, s := range pg.States {
				for _, e := range s.Out {
					for _, l := range e.Labels {
						if l.Kind == "call" && l.Key == t.dec && l.T != nil && len(l.T.Args) == 2 && l.T.Args[1].V != nil {
							structNames = jsonNames(l.T.Args[1].V.Typ)
						}
					}
				}
			}
			deleted := map[string]bool{}
			var badDel []string
			for _, s := range pg.States {
				for _, e := range s.Out {
					for _, l := range e.Labels {
						if l.Kind == "call" && l.T != nil && l.T.Name == "delete" && l.T.Args[0].Key() == EA {
							k := l.T.Args[1]
							if !k.isConst() {
								// a key known equal to a constant on this path (deleted under key == name)
								known := ""
								for f := range s.Facts {
									if strings.HasPrefix(f, "EQ:"+k.Key()+"=") {
										known = strings.TrimPrefix(f, "EQ:"+k.Key()+"=")
									}
								}
								if known == "" {
									badDel = append(badDel, c.P.pos(l.Node.Pos)+": non-constant key "+k.Key())
									continue
								}
								deleted[strings.Trim(known, `"`)] = true
								continue
							}
							deleted[strings.Trim(k.Name, `"`)] = true
						}
					}
				}
			}
			var dels []string
			for k := range deleted {
				dels = append(dels, k)
			}
			sort.Strings(dels)
			c.Tables["jws_header_struct_members"] = structNames
			c.Tables["jws_system_keys_removed"] = dels
			c.add("O-C13.1", "JWS system key table equals the header struct", "the keys removed from the extended-attribute map are exactly the JSON member names of the protected-header struct (7 = 7)", sameSet(structNames, dels) && len(dels) >= 7 && len(badDel) == 0, "", append([]string{"struct members: " + strings.Join(structNames, ","), "removed keys: " + strings.Join(dels, ",")}, badDel...)...)
			for _, k := range structNames {
				del := CallKey("delete(" + EA + ", \"" + k + "\")")
				if always, _ := c.cut(pg, ok, del); always || len(edgeTargets(pg, RangeNext(EA))) == 0 {
					c.mustPass(pg, "O-C13.1", "JWS: specification header "+k+" never surfaces as an attribute", "returning content", ok, del)
				} else {
					// deleted while the raw names are scanned: every name equal to it is removed in its iteration
					c.perIteration(pg, "O-C13.1", "JWS: specification header "+k+" never surfaces as an attribute", "each raw member name equal to "+k+" is deleted from the attribute map", EA, AnyOf(A("-Eq(\""+k+"\", rk("+EA+"))"), CallKey("delete("+EA+", rk("+EA+"))")))
					c.onlyAfterExhaustion(pg, "O-C13.1", "JWS: all raw member names scanned before content is returned ("+k+")", "returning content", EA, ok)
				}
			}
			c.mustPass(pg, "O-C13.1", "JWS: attribute map decoded from the same bytes as the header struct", "returning content", ok, CallKey(t.decX))
			// (4) phantom critical labels
			c.perIteration(pg, "O-C13.4", "JWS: every critical label names a required header or a present attribute", "each element of crit is a must-be-critical header of this envelope or a key of the extended attribute map", crit, AnyOf(AG("+Has(map*, re("+crit+"))"), AG("+Has(mapdel(*), re("+crit+"))"), A("+Has("+EA+", re("+crit+"))")))
			for _, h := range []struct {
				key    string
				guards []LP
				what   string
			}{
				{hExpiry, []LP{A("-IsNil(" + t.PH + ".Expiry)"), A("-TZero(*" + t.PH + ".Expiry)")}, "expiry is accepted in crit only when an expiry header is present"},
				{hAuthTime, []LP{A("-Eq(" + schemeX + ", " + t.PH + ".SigningScheme)")}, "authenticSigningTime is accepted in crit only under signingAuthority"},
			} {
				tg := append(edgeTargets(pg, AG("+Has(map[*"+h.key+"=>*], re("+crit+"))")), edgeTargets(pg, AG("+Has(mapdel(map[*"+h.key+"=>*], *), re("+crit+"))"))...)
				c.floor("JWS pending-set tests mentioning "+h.key, 1, len(tg))
				for _, g := range h.guards {
					c.mustPass(pg, "O-C13.4", "JWS: "+h.what+" ("+g.Desc[:12]+")", "accepting "+h.key+" as a required critical label", tg, g)
				}
			}
			// (3) construction
			attrRules(c, pg, "JWS", EA, "rk("+EA+")", "re("+EA+")", crit, func(k string) string {
				a, b := sorted2("re("+crit+")", k)
				return "Eq(" + a + ", " + b + ")"
			}, ok)
		case "COSE":
			t := coseNames(c)
			P := t.P
			// (2) table: guards of the key collection
			keyAppend := LP{Desc: "collect extended key", F: func(l Label) bool {
				return l.Kind == "assign" && l.T2 != nil && l.T2.Key() == "append(self, rk("+P+"))"
			}}
			c.floor("COSE extended key collection sites", 1, len(distinctEdgeNodes(pg, keyAppend)))
			guards := map[string]bool{}
			for _, a := range pg.AtomSet() {
				if strings.HasPrefix(a, "-Eq(") && strings.HasSuffix(a, ", rk("+P+"))") {
					guards[strings.TrimSuffix(strings.TrimPrefix(a, "-Eq("), ", rk("+P+"))")] = true
				}
			}
			var gl []string
			for g := range guards {
				gl = append(gl, g)
				c.within(pg, "O-C13.2", "COSE: label "+g+" never becomes an extended key", "a protected label is collected as extended key only after it compared different from system label "+g, P, A("-Eq("+g+", rk("+P+"))"), keyAppend)
			}
			sort.Strings(gl)
			// labels the reader consumes
			consumed := map[string]bool{"1": true, "2": true}
			visitIdx := func(t *Term) {
				t.walk(func(x *Term) {
					if x.Op == "index" && x.Args[0].Key() == P && x.Args[1].isConst() {
						consumed[x.Args[1].Name] = true
					}
				})
			}
			for _, s := range pg.States {
				for _, e := range s.Out {
					for _, l := range e.Labels {
						if l.Kind == "atom" && l.T != nil {
							visitIdx(l.T)
						}
					}
				}
			}
			for _, s := range ok {
				visitIdx(s.Ret[0].T)
			}
			if _, init, pk := c.globalInit(t.labelMap); init != nil {
				for _, v := range constMap(pk, init) {
					consumed[`"`+v+`"`] = true
				}
			} else if rows := pureTables[t.labelMap]; rows != nil {
				for _, r := range rows {
					consumed[r.val.Key()] = true
				}
			}
			var cl []string
			for k := range consumed {
				cl = append(cl, k)
			}
			sort.Strings(cl)
			c.Tables["cose_system_labels"] = gl
			c.Tables["cose_labels_consumed_by_reader"] = cl
			c.add("O-C13.2", "COSE system label table equals the labels the reader consumes", "the labels excluded from the extended attributes are exactly alg, crit, the constant labels the content path reads and the scheme time labels (7 = 7)", sameSet(gl, cl) && len(gl) >= 7, "", "system labels: "+strings.Join(gl, ","), "consumed: "+strings.Join(cl, ","))
			c.perIteration(pg, "O-C13.2", "COSE: every non-system label is collected", "a protected label that differs from all system labels is collected", P, AnyOf(append([]LP{keyAppend}, func() []LP {
				var o []LP
				for _, g := range gl {
					o = append(o, A("+Eq("+g+", rk("+P+"))"))
				}
				return o
			}()...)...))
			K := "append(self, old(rk(" + P + ")))"
			critList := P + "[2].([]any)"
			attrRules(c, pg, "COSE", K, "re("+K+")", P+"[re("+K+")]", critList, func(k string) string {
				a, b := sorted2("re("+critList+")", k)
				return "Eq(" + a + ", " + b + ")"
			}, ok)
			c.mustPass(pg, "O-C13.4", "COSE: critical labels must be present", "returning content", ok, A("+IsNil("+t.crit+"#1)"))
		}
	}
	// (5) lookup helper
	const look = "(*ncg/signature.SignerInfo).ExtendedAttribute"
	if pg := c.pgOf(look); pg != nil {
		L := "recv.SignedAttributes.ExtendedAttributes"
		ok := returnsWhere(pg, func(s *PState) bool { return retNilErr(s, 1) })
		fail := returnsWhere(pg, func(s *PState) bool { return !retNilErr(s, 1) })
		c.floor("ExtendedAttribute returns", 2, len(ok)+len(fail))
		c.mustPass(pg, "O-C13.5", "lookup returns only on key equality", "returning an attribute", ok, A("+Eq(p0, re("+L+").Key)"))
		good := len(ok) > 0
		for _, s := range ok {
			if retKey(s, 0) != "re("+L+")" {
				good = false
			}
		}
		c.add("O-C13.5", "lookup returns the matching attribute", "the attribute returned is the element whose key compared equal", good, posOf(pg, ok))
		c.mustPass(pg, "O-C13.5", "lookup fails only after all attributes", "the not-found error", fail, RangeDone(L))
		c.onlyAfterExhaustion(pg, "O-C13.5", "no early not-found", "the not-found error", L, fail)
		c.perIteration(pg, "O-C13.5", "lookup compares every attribute", "each attribute's key is compared before the next", L, A("-Eq(p0, re("+L+").Key)"))
		atoms := pg.AtomSet()
		c.add("O-C13.5", "lookup has no other condition", "the lookup decides on key equality only", len(atoms) == 2, "", atoms...)
	}
	// (6) writer side
	for _, f := range fmts {
		w := findAttrWriter(c, f)
		if w == "" {
			c.undecided("O-C13.6", f.name+" attribute writer", "no function in the signing call tree ranges over ExtendedSignedAttributes", "")
			continue
		}
		pg := c.pgOf(w)
		if pg == nil {
			continue
		}
		req := paramOfType(pg, "signature.SignRequest")
		X := req + ".ExtendedSignedAttributes"
		el := "re(" + X + ")"
		isKeyAppend := LP{Desc: "append request key to crit", F: func(l Label) bool {
			if l.Kind != "assign" || l.T2 == nil || l.T2.Op != "call" || l.T2.Name != "append" || len(l.T2.Args) != 2 {
				return false
			}
			k := l.T2.Args[1].Key()
			return k == el+".Key" || k == el+".Key.(string)"
		}}
		c.floor(f.name+" crit append sites for request keys", 1, len(distinctEdgeNodes(pg, isKeyAppend)))
		c.within(pg, "O-C13.6", f.name+": key marked critical only if flagged", "a request key is appended to crit only if its Critical flag is set", X, A("+Truth("+el+".Critical)"), isKeyAppend)
		c.perIteration(pg, "O-C13.6", f.name+": flagged key always marked critical", "a request attribute flagged critical is appended to crit", X, AnyOf(A("-Truth("+el+".Critical)"), isKeyAppend))
		// nothing else of the request is ever appended to crit
		var bad []string
		for _, s := range pg.States {
			for _, e := range s.Out {
				for _, l := range e.Labels {
					if l.Kind == "assign" && l.T2 != nil && l.T2.Op == "call" && l.T2.Name == "append" && len(l.T2.Args) == 2 && !isKeyAppend.F(l) {
						k := l.T2.Args[1]
						ks := strings.ReplaceAll(k.Key(), "old("+el+")", el)
						if ks == el+".Key" || ks == el+".Key.(string)" {
							continue // the key of an earlier iteration carried along with the list
						}
						if k.Op == "spread" {
							// a list spliced in: fine if everything it holds of the request are attribute keys
							ks = strings.ReplaceAll(ks, el+".Key", "")
						}
						if !k.isConst() && strings.Contains(ks, req+".") {
							bad = append(bad, c.P.pos(l.Node.Pos)+": appends "+k.Key())
						}
					}
				}
			}
		}
		c.add("O-C13.6", f.name+": no other request value is appended to a list", "only flagged attribute keys (and constant specification labels) are appended on the signing side", len(bad) == 0, "", bad...)
	}
	// which crit list and which attribute values are reported depends on the header being found by
	// its exact name: a member "CRIT" must not stand in for "crit" (O-C02.5)
	c.floor("header-name rules (shared with C02)", 3, shareRules(c, checkC02, []string{"O-C02.5"}, "O-C13.1", "header names: "))
}

// attrRules: O-C13.3 on the attribute construction loop.
func attrRules(c *Check, pg *PG, name, loopX, keyT, valT, critList string, eqAtom func(string) string, ok []*PState) {
	var sites []Label
	for _, s := range pg.States {
		for _, e := range s.Out {
			for _, l := range e.Labels {
				if _, is := isAttrAppend(l); is {
					sites = append(sites, l)
				}
			}
		}
	}
	c.floor(name+" attribute append labels", 2, len(sites))
	good := len(sites) > 0
	setForm := false
	var det []string
	for _, l := range sites {
		a, _ := isAttrAppend(l)
		k, v, cr := structGet(a, "Key"), structGet(a, "Value"), structGet(a, "Critical")
		if k == nil || k.Key() != keyT || v == nil || v.Key() != valT || cr == nil || (cr.Key() != "true" && cr.Key() != "false" && !listSetLookup(cr, keyT, critList)) {
			good = false
			det = append(det, c.P.pos(l.Node.Pos)+": "+a.Key())
		}
		if cr != nil && listSetLookup(cr, keyT, critList) {
			setForm = true
		}
	}
	if setForm {
		// set form: the crit list is indexed once into a local set and the
		// criticality is the presence of the key in it. The set holds exactly
		// the list when (a) every layer of the set term is keyed by a list
		// element (listSetLookup above) and (b) every iteration over the list
		// stores its element.
		fill := LP{Desc: "store crit element into the set", F: func(l Label) bool {
			return l.Kind == "lstore" && l.T != nil && l.T.Op == "index" && len(l.T.Args) == 2 && l.T.Args[1].Key() == "re("+critList+")" && isListSet(l.T.Args[0], critList)
		}}
		c.floor(name+" crit set fill sites", 1, len(distinctEdgeNodes(pg, fill)))
		c.perIteration(pg, "O-C13.3", name+": every crit element enters the criticality set", "every iteration over the crit list stores its element into the set the criticality is looked up in", critList, fill)
	}
	c.add("O-C13.3", name+": attribute carries the key, its own value and a decided criticality", "every Attribute appended has Key = the surviving key, Value = the protected map's value for the same key, Critical = the result of the membership scan", good, "", det...)
	isApp := func(crit string) LP {
		return LP{Desc: "append attribute Critical:" + crit, F: func(l Label) bool {
			a, is := isAttrAppend(l)
			if !is {
				return false
			}
			cr := structGet(a, "Critical")
			return cr != nil && cr.Key() == crit
		}}
	}
	anyApp := LP{Desc: "append attribute", F: func(l Label) bool { _, is := isAttrAppend(l); return is }}
	eq := eqAtom(keyT)
	c.within(pg, "O-C13.3", name+": critical only if listed in crit of the same header", "an attribute is flagged critical only on the equality edge of the scan over the crit list", loopX, A("+"+eq), isApp("true"))
	c.within(pg, "O-C13.3", name+": non-critical only after the whole crit list was scanned", "an attribute is flagged non-critical only after the scan over the crit list was exhausted", loopX, RangeDone(critList), isApp("false"))
	c.noPathFrom(pg, "O-C13.3", name+": a listed key is never flagged non-critical", "after the key compared equal to a crit element the attribute is not appended as non-critical", A("+"+eq), edgeSources(pg, isApp("false")), ptr(RangeNext(loopX)))
	c.perIteration(pg, "O-C13.3", name+": one attribute per surviving key", "every iteration over the surviving keys appends an attribute", loopX, anyApp)
	c.noPathFrom(pg, "O-C13.3", name+": at most one attribute per key", "no second attribute is appended in the same iteration", anyApp, edgeSources(pg, anyApp), ptr(RangeNext(loopX)))
	// the returned list is the accumulated one
	goodRet := len(ok) > 0
	for _, s := range ok {
		ea := fieldPath(s.Ret[0].T, "SignerInfo", "SignedAttributes", "ExtendedAttributes")
		if ea == nil {
			goodRet = false
			continue
		}
		k := ea.Key()
		if !(strings.HasPrefix(k, "append(self, {ncg/signature.Attribute ") || strings.HasPrefix(k, "make([]ncg/signature.Attribute, 0, ") || k == "nil") {
			goodRet = false
		}
	}
	c.add("O-C13.3", name+": content returns the accumulated attributes", "SignedAttributes.ExtendedAttributes of the returned content is the list built by that loop", goodRet, posOf(pg, ok))
}

// findAttrWriter: the function of the signing call tree that ranges over the
// request's ExtendedSignedAttributes.
func findAttrWriter(c *Check, f format) string {
	for _, fs := range c.callTree([]string{f.method("Sign")}) {
		mentions := false
		ast.Inspect(fs.Decl.Body, func(n ast.Node) bool {
			if se, ok := n.(*ast.SelectorExpr); ok && se.Sel.Name == "ExtendedSignedAttributes" {
				mentions = true
			}
			return !mentions
		})
		if !mentions {
			continue
		}
		// the function whose graph has a loop over the request's attribute list
		// (any loop form: counted loops over len(x) are range loops in the graph)
		name := c.P.abbrev(fs.Obj.FullName())
		// helpers that are handed the attribute list are part of the writer
		var keep []string
		for _, cal := range c.P.directCallees(fs) {
			if cf := c.P.fn(cal); cf != nil {
				sig := cf.Obj.Type().(*types.Signature)
				for i := 0; i < sig.Params().Len(); i++ {
					if c.P.typeStr(sig.Params().At(i).Type()) == "[]ncg/signature.Attribute" {
						keep = append(keep, cal)
					}
				}
			}
		}
		pg := c.skeleton(name, keep...)
		if pg == nil {
			continue
		}
		for _, s := range pg.States {
			for _, e := range s.Out {
				for _, l := range e.Labels {
					if l.Kind == "rangenext" && strings.HasSuffix(l.Key, ".ExtendedSignedAttributes") {
						return name
					}
				}
			}
		}
	}
	return ""
}

// isListSet: a tracked local map every layer of which was stored under an
// element of the list (so its key set is a subset of the list's elements).
func isListSet(m *Term, list string) bool {
	for depth := 0; m != nil && depth < 64; depth++ {
		switch m.Op {
		case "maplit":
			return len(m.Args) == 0
		case "call":
			return m.Name == "make" && isMapValue(m)
		case "mapset":
			if k := m.Args[1].Key(); k != "re("+list+")" && k != "old(re("+list+"))" {
				return false
			}
			m = m.Args[0]
		default:
			return false
		}
	}
	return false
}

// listSetLookup: cr is the presence of key in a set built from the list: the
// ok of a lookup, or the value of a lookup in an all-true bool map.
func listSetLookup(cr *Term, key, list string) bool {
	ix := cr
	if cr.Op == "ok" && len(cr.Args) == 1 {
		ix = cr.Args[0]
	} else if cr.Op != "index" || len(cr.Args) != 2 || !allTrueBoolMap(cr.Args[0]) {
		return false
	}
	return ix.Op == "index" && len(ix.Args) == 2 && ix.Args[1].Key() == key && isListSet(ix.Args[0], list)
}
