package main

func checkC03Routing(c *Check) {}
func checkC14Routing(c *Check) {}
