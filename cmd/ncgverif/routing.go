package main

// Routing: the places that must hand a chain to the profile validators do so
// (C03.C / C14.C).

import (
	"go/types"
	"strings"
)

const tsValidator = "ncg/x509.ValidateTimestampingCertChain"

func purposeConst(c *Check, name string) string {
	for path, pk := range c.P.All {
		if strings.HasSuffix(path, "/revocation/purpose") && pk.Types != nil {
			if k, ok := pk.Types.Scope().Lookup(name).(*types.Const); ok {
				return k.Val().String()
			}
		}
	}
	c.undecided("anchor", "purpose."+name, "constant not found", "")
	return "?"
}

// chainValidatorDispatch: x509util.ValidateChain returns nil only through the
// validator of the requested purpose.
func chainValidatorDispatch(c *Check, rule, purposeName, atom string) {
	vpg := c.pgOfNI(chainValFn, csValidator, tsValidator)
	if vpg == nil {
		return
	}
	k := purposeConst(c, purposeName)
	ok := returnsWhere(vpg, func(s *PState) bool { return retNilErr(s, 0) })
	c.floor("ValidateChain success returns", 1, len(ok))
	c.mustPass(vpg, rule, "revocation chain check passes only through a profile validator", "ValidateChain returns nil", ok, AnyOf(A("+IsNil("+csValidator+"(p0, nil))"), A("+IsNil("+tsValidator+"(p0))")))
	c.noPathFrom(vpg, rule, "purpose "+purposeName+" is validated with its own profile", "for purpose "+purposeName+" ValidateChain returns nil only if the "+purposeName+" profile validator accepted the chain", A("+Eq("+k+", p1)"), ok, ptr(A(atom)))
}

// fanoutRouting: both revocation entry points validate the chain with the
// caller's purpose before anything else (shared with O-C12.1).
func fanoutRouting(c *Check, rule string) {
	if fn := validatorMethod(c); fn != "" {
		if pg := c.pgOfNI(fn, ocspCheckFn, crlCheckFn, chainValFn); pg != nil {
			ok := returnsWhere(pg, func(s *PState) bool { return retNilErr(s, 1) })
			c.mustPass(pg, rule, "revocation validator: chain validated for the configured purpose", "ValidateContext returns results", ok, A("+IsNil("+chainValFn+"(p1.CertChain, recv.certChainPurpose))"))
		}
		if npg := c.pgOf(newWithOpts); npg != nil {
			good := false
			for _, s := range npg.Returns() {
				if !retNilErr(s, 1) {
					continue
				}
				t := s.Ret[0].T
				if t.Op == "addr" && t.Args[0].Op == "struct" {
					if v := structGet(t.Args[0], "certChainPurpose"); v != nil && v.Key() == "p0.CertChainPurpose" {
						good = true
					} else {
						good = false
						break
					}
				}
			}
			c.add(rule, "revocation validator: purpose taken from the options", "NewWithOptions stores the caller's CertChainPurpose as the purpose the chain is validated for", good, c.P.pos(npg.G.Root.Decl.Pos()))
		}
	}
	if pg := c.pgOfNI(standalone, ocspCheckFn, chainValFn); pg != nil {
		ok := returnsWhere(pg, func(s *PState) bool { return retNilErr(s, 1) })
		c.mustPass(pg, rule, "standalone OCSP: chain validated for the caller's purpose", "CheckStatus returns results", ok, A("+IsNil("+chainValFn+"(p0.CertChain, p0.CertChainPurpose))"))
	}
}

func checkC03Routing(c *Check) {
	rule := "O-C03.C"
	// the envelope wrapper
	for _, w := range []struct{ fn, inner, timeArg string }{
		{baseSign, "Content", "TIME"}, {baseVerify, "Verify", "nil"}, {baseContent, "Content", "nil"},
	} {
		pg := c.pgOfNI(w.fn, csValidator)
		if pg == nil {
			continue
		}
		ct := "(ncg/signature.Envelope)." + w.inner + "(recv.Envelope)#0"
		si := ct + ".SignerInfo"
		ta := w.timeArg
		if ta == "TIME" {
			ta = "&" + si + ".SignedAttributes.SigningTime"
		}
		ok := returnsWhere(pg, func(s *PState) bool { return retNilErr(s, 1) })
		short := w.fn[strings.LastIndex(w.fn, ".")+1:]
		for _, r := range chainCheckReqs(si+".CertificateChain", ta, si+".SignatureAlgorithm")[:2] {
			c.mustPass(pg, rule, "wrapper "+short+": "+r.name, "the wrapper's "+short+" succeeds", ok, r.lp)
		}
	}
	chainValidatorDispatch(c, rule, "CodeSigning", "+IsNil("+csValidator+"(p0, nil))")
	fanoutRouting(c, rule)
}

func checkC14Routing(c *Check) {
	rule := "O-C14.C"
	chainValidatorDispatch(c, rule, "Timestamping", "+IsNil("+tsValidator+"(p0))")
	fanoutRouting(c, rule)
	// the timestamp helper validates the chain returned by the token verification
	if pg := c.pgOfNI("ncg/internal/timestamp.Timestamp", tsValidator); pg != nil {
		ok := returnsWhere(pg, func(s *PState) bool { return retNilErr(s, 1) })
		c.floor("timestamp.Timestamp success returns", 1, len(ok))
		c.mustPass(pg, rule, "timestamp: TSA chain validated with the timestamping profile", "a timestamp token is returned", ok, AG("+IsNil("+tsValidator+"((*github.com/notaryproject/tspclient-go.SignedToken).Verify(**)#0))"))
	}
}
