package main

// Rules on the format-independent envelope wrapper (signature/internal/base):
// shared by C02 (declared == derived), C03 (routing), C07 (post-conditions),
// C16 (sign gate) and C20 (typestate).

import (
	"fmt"
	"strings"
)

const (
	baseSign    = "(*ncg/signature/internal/base.Envelope).Sign"
	baseVerify  = "(*ncg/signature/internal/base.Envelope).Verify"
	baseContent = "(*ncg/signature/internal/base.Envelope).Content"
	csValidator = "ncg/x509.ValidateCodeSigningCertChain"
)

// algorithm table of the property: (key type, size) -> signature.Algorithm
// constants PS256..ES512 = 1..6.
type algRow struct {
	rsa  bool
	size int
	alg  int
	name string
}

var algTable = []algRow{
	{true, 2048, 1, "RSA-2048 -> PS256"}, {true, 3072, 2, "RSA-3072 -> PS384"}, {true, 4096, 3, "RSA-4096 -> PS512"},
	{false, 256, 4, "EC P-256 -> ES256"}, {false, 384, 5, "EC P-384 -> ES384"}, {false, 521, 6, "EC P-521 -> ES512"},
}

// chainCheckReqs: what a successful shared chain check requires, for a chain
// term, a time argument term and the declared algorithm term.
func chainCheckReqs(chain, timeArg, alg string) []req {
	leaf := chain + "[0]"
	rsa := "TypeIs(" + leaf + ".PublicKey, *crypto/rsa.PublicKey)"
	ec := "TypeIs(" + leaf + ".PublicKey, *crypto/ecdsa.PublicKey)"
	rs := []req{
		{"chain not empty", A("-Empty(" + chain + ")")},
		{"chain passes code-signing validation" + map[bool]string{true: " (no signing time)", false: " at the signing time"}[timeArg == "nil"], A("+IsNil(" + csValidator + "(" + chain + ", " + timeArg + "))")},
	}
	for _, r := range keySpecReqs(leaf) {
		rs = append(rs, req{"leaf " + r.name, r.lp})
	}
	for _, row := range algTable {
		var premise []LP
		if row.rsa {
			premise = []LP{A("-" + rsa), A(fmt.Sprintf("-Eq(%s, %d)", rsaSize(leaf), row.size))}
		} else {
			premise = []LP{A("+" + rsa), A("-" + ec), A(fmt.Sprintf("-Eq(%s, %d)", ecSize(leaf), row.size))}
		}
		// the size is known to be another one of the same family
		for _, o := range algTable {
			if o.rsa == row.rsa && o.size != row.size {
				if row.rsa {
					premise = append(premise, A(fmt.Sprintf("+Eq(%s, %d)", rsaSize(leaf), o.size)))
				} else {
					premise = append(premise, A(fmt.Sprintf("+Eq(%s, %d)", ecSize(leaf), o.size)))
				}
			}
		}
		eq := fmt.Sprintf("Eq(%s, %d)", alg, row.alg)
		rs = append(rs, req{"declared algorithm equals the one dictated by the leaf key: " + row.name, AnyOf(append(premise, A("+"+eq))...)})
	}
	return rs
}

func contentReqs(ct string) []req {
	si := ct + ".SignerInfo"
	st, ex := si+".SignedAttributes.SigningTime", si+".SignedAttributes.Expiry"
	a, b := sorted2(ex, st)
	rs := []req{
		{"payload not empty", A("-Empty(" + ct + ".Payload.Content)")},
		{"signature not empty", A("-Empty(" + si + ".Signature)")},
		{"algorithm present", A("-Eq(" + si + ".SignatureAlgorithm, 0)")},
		{"signing time present", A("-TZero(" + st + ")")},
		{"expiry absent or not before signing time", AnyOf(A("+TZero("+ex+")"), A("-TLt("+ex+", "+st+")"))},
		{"expiry absent or not equal to signing time", AnyOf(A("+TZero("+ex+")"), A("-TEq("+a+", "+b+")"))},
		{"signing scheme present", A(`-Eq("", ` + si + ".SignedAttributes.SigningScheme)")},
	}
	rs = append(rs, chainCheckReqs(si+".CertificateChain", "nil", si+".SignatureAlgorithm")...)
	return rs
}

func contentViols(ct string) []Viol {
	si := ct + ".SignerInfo"
	st, ex := si+".SignedAttributes.SigningTime", si+".SignedAttributes.Expiry"
	a, b := sorted2(ex, st)
	vs := []Viol{
		{Name: "payload empty", All: []LP{A("+Empty(" + ct + ".Payload.Content)")}},
		{Name: "signature empty", All: []LP{A("+Empty(" + si + ".Signature)")}},
		{Name: "algorithm missing", All: []LP{A("+Eq(" + si + ".SignatureAlgorithm, 0)")}},
		{Name: "signing time missing", All: []LP{A("+TZero(" + st + ")")}},
		{Name: "expiry not after signing time", All: []LP{A("-TZero(" + ex + ")"), AnyOf(A("+TLt("+ex+", "+st+")"), A("+TEq("+a+", "+b+")"), A("-TLt("+st+", "+ex+")"))}},
		{Name: "signing scheme missing", All: []LP{A(`+Eq("", ` + si + ".SignedAttributes.SigningScheme)")}},
	}
	vs = append(vs, chainCheckViols(si+".CertificateChain", "nil", si+".SignatureAlgorithm")...)
	return vs
}

func chainCheckViols(chain, timeArg, alg string) []Viol {
	leaf := chain + "[0]"
	vs := []Viol{
		{Name: "chain empty", All: []LP{A("+Empty(" + chain + ")")}},
		{Name: "chain fails code-signing validation", All: []LP{A("-IsNil(" + csValidator + "(" + chain + ", " + timeArg + "))")}},
	}
	vs = append(vs, keySpecViols(leaf, nil)...)
	var mism []LP
	for _, row := range algTable {
		mism = append(mism, A(fmt.Sprintf("-Eq(%s, %d)", alg, row.alg)))
	}
	vs = append(vs, Viol{Name: "declared algorithm differs from the one dictated by the leaf key", All: []LP{AnyOf(mism...)}})
	return vs
}

// wrapperReadRules: O-C07.1 on Verify or Content of the wrapper.
func wrapperReadRules(c *Check, rule, fn, innerMethod string) (required map[string]bool) {
	pg := c.pgOfNI(fn, csValidator)
	if pg == nil {
		return nil
	}
	inner := "(ncg/signature.Envelope)." + innerMethod + "(recv.Envelope)"
	ct := inner + "#0"
	ok := returnsWhere(pg, func(s *PState) bool { return retNilErr(s, 1) })
	c.floor(fn+" success returns", 1, len(ok))
	required = map[string]bool{}
	reqs := append([]req{
		{"raw signature present", A("-Empty(recv.Raw)")},
		{"inner " + innerMethod + " succeeded", A("+IsNil(" + inner + "#1)")},
	}, contentReqs(ct)...)
	for _, r := range reqs {
		c.mustPass(pg, rule, innerMethod+": "+r.name, "the wrapper's "+innerMethod+" returns content", ok, r.lp)
		required[strings.ReplaceAll(r.lp.Desc, inner, "INNER")] = true
	}
	good := len(ok) > 0
	for _, s := range ok {
		if retKey(s, 0) != ct {
			good = false
		}
	}
	c.add(rule, innerMethod+": returns the inner content unchanged", "what the wrapper returns is exactly what the inner "+innerMethod+" returned", good, posOf(pg, ok))
	contentNotModified(c, rule, pg, ct, innerMethod)
	// no signature state
	nf := returnsWhere(pg, func(s *PState) bool { return retHasType(s, 1, "ncg/signature.SignatureNotFoundError") })
	c.floor(fn+" not-found returns", 1, len(nf))
	c.mustPass(pg, "O-C20.4", innerMethod+": no-signature error only for empty Raw", "SignatureNotFoundError", nf, A("+Empty(recv.Raw)"))
	c.noPathFrom(pg, "O-C20.4", innerMethod+": empty Raw always reports no signature", "with an empty Raw nothing but SignatureNotFoundError is returned and the inner envelope is not touched", A("+Empty(recv.Raw)"), append(returnsWhere(pg, func(s *PState) bool { return !retHasType(s, 1, "ncg/signature.SignatureNotFoundError") }), edgeSources(pg, CallKey(inner))...), nil)
	// completeness side of the wrapper layer
	var origins []*origin
	for _, o := range errorOrigins(pg, 1) {
		if strings.Contains(o.Key, "SignatureNotFoundError") || o.Term.Key() == inner+"#1" {
			continue
		}
		origins = append(origins, o)
	}
	c.floor(fn+" rejection origins", 10, len(origins))
	c.justify(pg, rule+"B", origins, contentViols(ct), func(o *origin) string { return innerMethod + ": " + originMsg(o) })
	return required
}

func originMsg(o *origin) string {
	k := o.Term.Key()
	if i := strings.Index(k, "Msg:"); i >= 0 {
		k = k[i+4:]
	}
	k = strings.TrimLeft(k, `"`)
	for _, p := range []string{"fmt.Sprintf(\"", "(error).Error("} {
		k = strings.TrimPrefix(k, p)
	}
	if len(k) > 60 {
		k = k[:60]
	}
	return k
}

// wrapperSignRules: O-C16.1 and O-C20.2 on the wrapper's Sign.
func wrapperSignRules(c *Check, gate, typestate bool) {
	pg := c.pgOfNI(baseSign, csValidator)
	if pg == nil {
		return
	}
	M := "(ncg/signature.Envelope).Sign(recv.Envelope, p0)"
	ctc := "(ncg/signature.Envelope).Content(recv.Envelope)"
	ct := ctc + "#0"
	si := ct + ".SignerInfo"
	ok := returnsWhere(pg, func(s *PState) bool { return retNilErr(s, 1) })
	c.floor("wrapper Sign success returns", 1, len(ok))
	if gate {
		a, b := sorted2("p0.Expiry", "p0.SigningTime")
		reqs := []req{
			{"signing time truncated to seconds first", isStoreOf("p0.SigningTime", func(k string) bool { return k == "(time.Time).Truncate(p0.SigningTime, 1000000000)" })},
			{"expiry truncated to seconds first", isStoreOf("p0.Expiry", func(k string) bool { return k == "(time.Time).Truncate(p0.Expiry, 1000000000)" })},
			{"payload not empty", A("-Empty(p0.Payload.Content)")},
			{"signing time present", A("-TZero(p0.SigningTime)")},
			{"expiry absent or not before signing time", AnyOf(A("+TZero(p0.Expiry)"), A("-TLt(p0.Expiry, p0.SigningTime)"))},
			{"expiry absent or not equal to signing time", AnyOf(A("+TZero(p0.Expiry)"), A("-TEq("+a+", "+b+")"))},
			{"signer present", A("-IsNil(p0.Signer)")},
			{"signer reports a key spec", A("+IsNil((ncg/signature.Signer).KeySpec(p0.Signer)#1)")},
			{"signing scheme present", A(`-Eq("", p0.SigningScheme)`)},
			{"format-level Sign succeeded", A("+IsNil(" + M + "#1)")},
			{"content of the produced envelope extracted", A("+IsNil(" + ctc + "#1)")},
		}
		reqs = append(reqs, chainCheckReqs(si+".CertificateChain", "&"+si+".SignedAttributes.SigningTime", si+".SignatureAlgorithm")...)
		for _, r := range reqs {
			c.mustPass(pg, "O-C16.1", "Sign: "+r.name, "the wrapper's Sign returns an envelope", ok, r.lp)
		}
		// truncation happens before validation: the stores precede every test
		anyAtom := LP{Desc: "any test", F: func(l Label) bool { return l.Kind == "atom" }}
		for _, f := range []string{"p0.SigningTime", "p0.Expiry"} {
			c.mustPass(pg, "O-C16.1", "Sign: "+f+" truncated before anything is validated", "testing any condition of the request", edgeSources(pg, anyAtom), StoreTo(f))
		}
		// the KeySpec call happens only for a non-nil signer
		c.mustPass(pg, "O-C16.1", "Sign: signer tested before use", "calling Signer.KeySpec", edgeSources(pg, CallKey("(ncg/signature.Signer).KeySpec(p0.Signer)")), A("-IsNil(p0.Signer)"))
		// error => no bytes, success => bytes
		good := true
		var det []string
		for _, s := range pg.Returns() {
			if retNilErr(s, 1) {
				if k := retKey(s, 0); k != "recv.Raw" && k != M+"#0" {
					good = false
					det = append(det, c.P.pos(s.Node.Pos)+": success returns "+k)
				}
			} else if retKey(s, 0) != "nil" {
				good = false
				det = append(det, c.P.pos(s.Node.Pos)+": error returned together with "+retKey(s, 0))
			}
		}
		c.add("O-C16.5", "wrapper Sign: error means no bytes", "every failing return of the wrapper's Sign has nil bytes; success returns the bytes the format produced", good, "", det...)
	}
	if typestate {
		mCall := CallKey(M)
		mOK := A("+IsNil(" + M + "#1)")
		rawStore := LP{Desc: "store to Raw", F: func(l Label) bool { return (l.Kind == "store" || l.Kind == "lstore") && l.Key == "recv.Raw" }}
		// (a) nothing is stored before the mutation point succeeded
		c.mustPass(pg, "O-C20.2", "no store to Raw before the format-level Sign succeeded", "storing into Raw", edgeSources(pg, rawStore), mOK)
		c.floor("stores to Raw in the wrapper's Sign", 1, len(distinctEdgeNodes(pg, rawStore)))
		// (b) failure after M: Raw cleared
		failAfter := returnsWhere(pg, func(s *PState) bool { return !retNilErr(s, 1) })
		clear := isStoreOf("recv.Raw", func(k string) bool { return k == "nil" })
		c.noPathFrom(pg, "O-C20.2", "a failure after the inner envelope was replaced clears Raw", "once the format-level Sign succeeded every failing return first stores nil into Raw (the object then reports no signature instead of the failed request)", mOK, failAfter, ptr(clear))
		// (c) success stores and returns the produced bytes
		set := isStoreOf("recv.Raw", func(k string) bool { return k == M+"#0" })
		c.mustPass(pg, "O-C20.2", "success stores the produced bytes", "returning an envelope", ok, set)
		c.noPathFrom(pg, "O-C20.2", "nothing overwrites Raw after the produced bytes were stored", "after Raw received the produced bytes it is not written again before returning", set, edgeSources(pg, rawStore), nil)
		good := len(ok) > 0
		for _, s := range ok {
			if k := retKey(s, 0); k != "recv.Raw" && k != M+"#0" {
				good = false
			}
		}
		c.add("O-C20.2", "success returns the stored bytes", "the bytes returned are the bytes stored in Raw (the format-level Sign's result)", good, posOf(pg, ok))
		// exactly one mutation point
		c.floor("format-level Sign call sites", 1, len(distinctEdgeNodes(pg, mCall)))
		c.add("O-C20.2", "single mutation point", "the wrapper calls the format-level Sign exactly once", len(distinctEdgeNodes(pg, mCall)) == 1, "")
		// paths failing before M store nothing at all
		anyStore := LP{Desc: "any store into the receiver", F: func(l Label) bool {
			return (l.Kind == "store" || l.Kind == "lstore") && strings.HasPrefix(l.Key, "recv.")
		}}
		c.mustPass(pg, "O-C20.2", "the receiver is untouched until the format-level Sign succeeded", "storing into the wrapper", edgeSources(pg, anyStore), mOK)
	}
}

// contentNotModified: no field of the content returned by the inner envelope is
// written by the wrapper (a normalising validator would hand out bytes the key
// never signed).
func contentNotModified(c *Check, rule string, pg *PG, ct, name string) {
	var wr []string
	for _, s := range pg.States {
		for _, e := range s.Out {
			for _, l := range e.Labels {
				if (l.Kind == "store" || l.Kind == "lstore") && strings.Contains(l.Key, ct+".") {
					wr = append(wr, c.P.pos(l.Node.Pos)+": "+l.String())
				}
			}
		}
	}
	c.add(rule, name+": the content is not modified by the wrapper", "no field of the content returned by the inner "+name+" is written in the wrapper's validation", len(wr) == 0, "", dedupe(wr)...)
}
