package main

import (
	"flag"
	"fmt"
	"os"
	"sort"
	"strconv"
	"strings"
	"time"
)

var (
	flagRepo     = flag.String("repo", "/repo", "repository to analyse")
	flagProp     = flag.String("prop", "", "property id (C01..C20) or 'all'")
	flagTier     = flag.String("tier", "quick", "quick|thorough")
	flagDump     = flag.String("dump", "", "debug: dump the inlined graph and product atoms of a function (abbreviated full name)")
	flagDepth    = flag.Int("depth", 8, "inlining depth")
	flagReplay   = flag.String("replay", "", "replay a violation file")
	flagVerifD   = flag.String("verif", "/verif", "verification directory (evidence, known findings)")
	flagNoInl    = flag.String("noinline", "", "debug: comma separated functions not to inline")
	flagV        = flag.Bool("v", false, "verbose")
	flagSelftest = flag.Bool("selftest", false, "also run the property's mutant/seeded/revert/benign corpus on scratch copies (always on in the thorough tier)")
)

func main() {
	flag.Parse()
	t0 := time.Now()
	if v, err := strconv.Atoi(os.Getenv("NCGVERIF_MAXSTATES")); err == nil && v > 0 {
		maxStates = v
	}
	if *flagDump != "" {
		p, err := loadProg(*flagRepo, "", "")
		if err != nil {
			fmt.Fprintln(os.Stderr, "load:", err)
			os.Exit(2)
		}
		fs := p.fn(*flagDump)
		if fs == nil {
			fmt.Fprintln(os.Stderr, "no such function; known:")
			var names []string
			for n := range p.ByName {
				names = append(names, n)
			}
			sort.Strings(names)
			for _, n := range names {
				if strings.Contains(n, strings.TrimPrefix(*flagDump, "~")) {
					fmt.Fprintln(os.Stderr, "  ", n)
				}
			}
			os.Exit(2)
		}
		ni := map[string]bool{}
		for _, s := range strings.Split(*flagNoInl, ",") {
			if s != "" {
				ni[s] = true
			}
		}
		g := buildGraph(p, fs, *flagDepth, ni)
		if *flagV {
			fmt.Print(g.dump())
		}
		pg := explore(g)
		fmt.Printf("nodes=%d vars=%d insts=%d states=%d edges=%d trunc=%v unsupported=%v load+explore=%.1fs\n", len(g.Nodes), len(g.Vars), len(g.Insts), len(pg.States), pg.nedges, pg.Trunc, g.Unsup, time.Since(t0).Seconds())
		if os.Getenv("NCGVERIF_HIST") != "" {
			hist := map[string]int{}
			for _, st := range pg.States {
				if st.Node != nil && st.Node.Inst != nil {
					hist[st.Node.Inst.Path()]++
				}
			}
			for _, k := range sortedKeys2(hist) {
				fmt.Printf("  %7d %s\n", hist[k], k)
			}
			// the busiest range heads: how many distinct stores / fact sets
			type agg struct {
				n      int
				stores map[string]bool
				facts  map[string]bool
				vars   map[string]map[string]bool
				fk     map[string]int
			}
			byNode := map[*Node]*agg{}
			for _, st := range pg.States {
				if st.Node == nil || st.Node.Kind != NRange {
					continue
				}
				a := byNode[st.Node]
				if a == nil {
					a = &agg{stores: map[string]bool{}, facts: map[string]bool{}, vars: map[string]map[string]bool{}, fk: map[string]int{}}
					byNode[st.Node] = a
				}
				a.n++
				var sk []string
				for id, v := range st.St {
					nm := fmt.Sprintf("%s#%d", pg.G.Vars[id].Name, id)
					if a.vars[nm] == nil {
						a.vars[nm] = map[string]bool{}
					}
					k := "nil"
					if v.T != nil {
						k = v.T.Key()
					}
					a.vars[nm][k] = true
					sk = append(sk, nm+"="+k)
				}
				sort.Strings(sk)
				a.stores[strings.Join(sk, ";")] = true
				var fk []string
				for f := range st.Facts {
					fk = append(fk, f)
					a.fk[f]++
				}
				sort.Strings(fk)
				a.facts[strings.Join(fk, ";")] = true
			}
			for n, a := range byNode {
				fmt.Printf("RANGEHEAD %s states=%d stores=%d factsets=%d\n", p.pos(n.Pos), a.n, len(a.stores), len(a.facts))
				for nm, vs := range a.vars {
					if len(vs) > 1 {
						fmt.Printf("     var %s: %d values\n", nm, len(vs))
					}
				}
				for f, k := range a.fk {
					fmt.Printf("     fact %s: in %d states\n", f, k)
				}
			}
		}
		fmt.Println("ATOMS:")
		for _, a := range pg.AtomSet() {
			fmt.Println("  ", a)
		}
		fmt.Println("RETURNS:")
		seen := map[string]bool{}
		for _, r := range pg.Returns() {
			var parts []string
			for _, v := range r.Ret {
				parts = append(parts, fmt.Sprintf("%s^%d", v.T.Key(), v.N))
			}
			line := fmt.Sprintf("  %s: %s", p.pos(r.Node.Pos), strings.Join(parts, " , "))
			if !seen[line] {
				seen[line] = true
				fmt.Println(line)
			}
		}
		return
	}
	os.Exit(runProps(t0))
}

func sortedKeys2(m map[string]int) []string {
	var ks []string
	for k := range m {
		ks = append(ks, k)
	}
	sort.Strings(ks)
	return ks
}
