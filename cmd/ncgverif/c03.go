package main

// C03 / C14: chain validators. Two-sided comparison of the validator's decision
// logic with the atom table of the property statement.

import (
	"fmt"
	"strings"
)

const (
	oidKU  = "[encoding/asn1.ObjectIdentifier: 2, 5, 29, 15]"
	oidEKU = "[encoding/asn1.ObjectIdentifier: 2, 5, 29, 37]"
)

// x509 constants (values are part of the crypto/x509 API).
const (
	kuDigitalSignature  = 1
	kuContentCommitment = 2
	kuKeyEncipherment   = 4
	kuDataEncipherment  = 8
	kuKeyAgreement      = 16
	kuCertSign          = 32
	kuCRLSign           = 64
	kuEncipherOnly      = 128
	kuDecipherOnly      = 256

	ekuServerAuth      = 1
	ekuClientAuth      = 2
	ekuCodeSigning     = 3
	ekuEmailProtection = 4
	ekuTimeStamping    = 8
	ekuOCSPSigning     = 9
)

var forbiddenLeafBits = []int{kuKeyEncipherment, kuDataEncipherment, kuKeyAgreement, kuCertSign, kuCRLSign, kuEncipherOnly, kuDecipherOnly}
var excludedCodeSigningEKUs = []int{ekuServerAuth, ekuClientAuth, ekuEmailProtection, ekuTimeStamping, ekuOCSPSigning}

type chainSpec struct {
	prop      string
	fn        string
	timeParam bool // signing time p1
	kuCrit    bool // key usage extension must be critical
	tsaEKU    bool // leaf EKU rule of the timestamping profile
}

// req is a required label with the labels that exempt a path from it.
type req struct {
	name string
	lp   LP
}

func rsaSize(c string) string { return "((*crypto/rsa.PublicKey).Size(" + c + ".PublicKey) << 3)" }
func ecSize(c string) string {
	return "(crypto/elliptic.Curve).Params(" + c + ".PublicKey.Curve).BitSize"
}

func keySpecReqs(c string) []req {
	rsa := "TypeIs(" + c + ".PublicKey, *crypto/rsa.PublicKey)"
	ec := "TypeIs(" + c + ".PublicKey, *crypto/ecdsa.PublicKey)"
	return []req{
		{"key type RSA or EC", AnyOf(A("+"+rsa), A("+"+ec))},
		{"RSA size in {2048,3072,4096}", AnyOf(A("-"+rsa), A("+Eq("+rsaSize(c)+", 2048)"), A("+Eq("+rsaSize(c)+", 3072)"), A("+Eq("+rsaSize(c)+", 4096)"))},
		{"EC size in {256,384,521}", AnyOf(A("+"+rsa), A("-"+ec), A("+Eq("+ecSize(c)+", 256)"), A("+Eq("+ecSize(c)+", 384)"), A("+Eq("+ecSize(c)+", 521)"))},
	}
}

func keySpecViols(c string, ctx []LP) []Viol {
	rsa := "TypeIs(" + c + ".PublicKey, *crypto/rsa.PublicKey)"
	ec := "TypeIs(" + c + ".PublicKey, *crypto/ecdsa.PublicKey)"
	w := func(lps ...LP) []LP { return append(append([]LP{}, ctx...), lps...) }
	return []Viol{
		{Name: "key type neither RSA nor EC", All: w(A("-"+rsa), A("-"+ec))},
		{Name: "RSA key size not 2048/3072/4096", All: w(A("+"+rsa), A("-Eq("+rsaSize(c)+", 2048)"), A("-Eq("+rsaSize(c)+", 3072)"), A("-Eq("+rsaSize(c)+", 4096)"))},
		{Name: "EC key size not 256/384/521", All: w(A("+"+ec), A("-Eq("+ecSize(c)+", 256)"), A("-Eq("+ecSize(c)+", 384)"), A("-Eq("+ecSize(c)+", 521)"))},
	}
}

func (sp chainSpec) leafReqs(c string) []req {
	ext := "re(" + c + ".Extensions)"
	rs := []req{
		{"leaf is not a CA", AnyOf(A("-Truth("+c+".BasicConstraintsValid)"), A("-Truth("+c+".IsCA)"))},
		{"key usage extension present", A("+OidEq(" + oidKU + ", " + ext + ".Id)")},
		{"key usage has digitalSignature", A(fmt.Sprintf("+Bit(%s.KeyUsage, %d)", c, kuDigitalSignature))},
	}
	if sp.kuCrit {
		rs = append(rs, req{"key usage extension critical", A("+Truth(" + ext + ".Critical)")})
	}
	for _, b := range forbiddenLeafBits {
		rs = append(rs, req{fmt.Sprintf("key usage bit %d clear", b), A(fmt.Sprintf("-Bit(%s.KeyUsage, %d)", c, b))})
	}
	if sp.tsaEKU {
		rs = append(rs,
			req{"exactly one EKU", A("+Eq(1, len(" + c + ".ExtKeyUsage))")},
			req{"EKU is timeStamping", A(fmt.Sprintf("+Eq(%d, %s.ExtKeyUsage[0])", ekuTimeStamping, c))},
			req{"no unknown EKU", A("+Empty(" + c + ".UnknownExtKeyUsage)")},
		)
	} else {
		rs = append(rs, req{"EKU list empty or fully scanned", AnyOf(A("+Empty("+c+".ExtKeyUsage)"), RangeDone(c+".ExtKeyUsage"))})
	}
	rs = append(rs, keySpecReqs(c)...)
	return rs
}

func (sp chainSpec) caReqs(c, d string) []req {
	ext := "re(" + c + ".Extensions)"
	mpl := c + ".MaxPathLen"
	rs := []req{
		{"CA basic constraints valid", A("+Truth(" + c + ".BasicConstraintsValid)")},
		{"CA flag set", A("+Truth(" + c + ".IsCA)")},
		{"path length not exceeded (a)", AnyOf(A("-Lt("+mpl+", "+d+")"), A("-Lt(0, "+mpl+")"))},
		{"path length not exceeded (b)", AnyOf(A("-Lt("+mpl+", "+d+")"), A("+Lt(0, "+mpl+")"), A("-Eq(0, "+mpl+")"), A("-Truth("+c+".MaxPathLenZero)"))},
		{"key usage extension present", A("+OidEq(" + oidKU + ", " + ext + ".Id)")},
		{"key usage has certSign", A(fmt.Sprintf("+Bit(%s.KeyUsage, %d)", c, kuCertSign))},
	}
	if sp.kuCrit {
		rs = append(rs, req{"key usage extension critical", A("+Truth(" + ext + ".Critical)")})
	}
	return rs
}

func (sp chainSpec) leafViols(c string, ctx []LP) []Viol {
	ext := "re(" + c + ".Extensions)"
	w := func(lps ...LP) []LP { return append(append([]LP{}, ctx...), lps...) }
	vs := []Viol{
		{Name: "leaf is a CA", All: w(A("+Truth("+c+".BasicConstraintsValid)"), A("+Truth("+c+".IsCA)"))},
		{Name: "key usage extension absent", All: w(RangeDone(c + ".Extensions")), Not: []LP{A("+OidEq(" + oidKU + ", " + ext + ".Id)")}, Scope: walkScope},
		{Name: "digitalSignature missing", All: w(A(fmt.Sprintf("-Bit(%s.KeyUsage, %d)", c, kuDigitalSignature)))},
	}
	if sp.kuCrit {
		vs = append(vs, Viol{Name: "key usage extension not critical", All: w(A("+OidEq("+oidKU+", "+ext+".Id)"), A("-Truth("+ext+".Critical)"))})
	}
	var bits []LP
	for _, b := range forbiddenLeafBits {
		bits = append(bits, A(fmt.Sprintf("+Bit(%s.KeyUsage, %d)", c, b)))
	}
	vs = append(vs, Viol{Name: "forbidden key usage bit set", All: w(AnyOf(bits...))})
	if sp.tsaEKU {
		vs = append(vs,
			Viol{Name: "EKU is not exactly timeStamping", All: w(AnyOf(A("-Eq(1, len("+c+".ExtKeyUsage))"), A(fmt.Sprintf("-Eq(%d, %s.ExtKeyUsage[0])", ekuTimeStamping, c)), A("-Empty("+c+".UnknownExtKeyUsage)")))},
			Viol{Name: "EKU extension not critical", All: w(A("+OidEq("+oidEKU+", "+ext+".Id)"), A("-Truth("+ext+".Critical)"))},
		)
	} else {
		for _, e := range excludedCodeSigningEKUs {
			vs = append(vs, Viol{Name: fmt.Sprintf("excluded EKU %d present", e), All: w(A(fmt.Sprintf("+Eq(%d, re(%s.ExtKeyUsage))", e, c)))})
		}
	}
	vs = append(vs, keySpecViols(c, ctx)...)
	return vs
}

// walkScope: the key of the loop that walks the chain in the validator being checked (the
// whole chain, or - when the root is handled after the loop - the chain without its last element).
var walkScope = "p0"

func (sp chainSpec) caViols(c, d string, ctx []LP) []Viol {
	ext := "re(" + c + ".Extensions)"
	mpl := c + ".MaxPathLen"
	w := func(lps ...LP) []LP { return append(append([]LP{}, ctx...), lps...) }
	vs := []Viol{
		{Name: "issuer is not a CA", All: w(AnyOf(A("-Truth("+c+".BasicConstraintsValid)"), A("-Truth("+c+".IsCA)")))},
		{Name: "path length constraint smaller than depth", All: w(A("+Lt("+mpl+", "+d+")"), AnyOf(A("+Lt(0, "+mpl+")"), A("+Truth("+c+".MaxPathLenZero)")), AnyOf(A("+Lt(0, "+mpl+")"), A("+Eq(0, "+mpl+")")))},
		{Name: "key usage extension absent", All: w(RangeDone(c + ".Extensions")), Not: []LP{A("+OidEq(" + oidKU + ", " + ext + ".Id)")}, Scope: walkScope},
		{Name: "certSign missing", All: w(A(fmt.Sprintf("-Bit(%s.KeyUsage, %d)", c, kuCertSign)))},
	}
	if sp.kuCrit {
		vs = append(vs, Viol{Name: "key usage extension not critical", All: w(A("+OidEq("+oidKU+", "+ext+".Id)"), A("-Truth("+ext+".Critical)"))})
	}
	return vs
}

func originName(o *origin) string {
	// innermost constant message of the error constructor, shortened
	t := o.Term
	msg := ""
	t.walk(func(x *Term) {
		if x.Op == "call" && (x.Name == "fmt.Errorf" || x.Name == "errors.New") && len(x.Args) > 0 && x.Args[0].isConst() {
			msg = x.Args[0].Name
		}
	})
	if msg == "" {
		msg = t.Key()
	}
	msg = strings.Trim(msg, `"`)
	if len(msg) > 70 {
		msg = msg[:70]
	}
	ctx := ""
	if strings.Contains(o.Key, "p0[0]") {
		ctx = "single:"
	}
	return ctx + msg
}

// checkChainValidator runs the A (accept => conforming) and B (reject =>
// violation) sides on one validator and returns the extracted walker
// signature for the sibling cross-check.
func checkChainValidator(c *Check, sp chainSpec) map[string]bool {
	pg := c.pgOf(sp.fn)
	if pg == nil {
		return nil
	}
	R := sp.prop + ".A"
	accept := returnsWhere(pg, func(s *PState) bool { return retNilErr(s, 0) })
	c.floor(sp.fn+" accepting returns", 2, len(distinctNodes(accept)))
	single := "p0[0]"
	// the walk: one loop over the whole chain (the root is its last iteration), or a loop over the
	// chain without its last element followed by straight-line code for the root ("peeled")
	L, peeled := "p0", false
	if len(edgeTargets(pg, RangeNext("p0"))) == 0 && len(edgeTargets(pg, RangeNext("p0[_:(len(p0) - 1)]"))) > 0 {
		L, peeled = "p0[_:(len(p0) - 1)]", true
	}
	walkScope = L
	defer func() { walkScope = "p0" }()
	el := "re(" + L + ")"
	rkL := "rk(" + L + ")"
	par := "p0[(" + rkL + " + 1)]"
	rootEl, rootDepth := "p0[(len(p0) - 1)]", "((len(p0) - 1) - 1)"
	never := LP{Desc: "never", F: func(Label) bool { return false }}
	isSingle, notSingle := A("+Eq(1, len(p0))"), A("-Eq(1, len(p0))")
	isLast, notLast := A("+Eq((len(p0) - 1), "+rkL+")"), A("-Eq((len(p0) - 1), "+rkL+")")
	if peeled {
		isLast = never // no iteration of the loop is the root's
	}
	isLeaf, notLeaf := A("+Eq(0, "+rkL+")"), A("-Eq(0, "+rkL+")")
	// the walk is entered only for chains of more than one certificate (the single-certificate
	// case returns before it): then the last position is not position 0, tested or not
	if body := edgeTargets(pg, RangeNext(L)); len(body) > 0 && !peeled {
		if multi, _ := c.cut(pg, body, notSingle); multi {
			if nonEmpty, _ := c.cut(pg, body, A("-Empty(p0)")); nonEmpty {
				notLeaf = AnyOf(A("-Eq(0, "+rkL+")"), isLast)
			}
		}
	}

	// --- A side --------------------------------------------------------------
	c.mustPass(pg, R, "chain not empty", "accept requires a non-empty chain", accept, A("-Empty(p0)"))
	// single-certificate context
	sreqs := []req{
		{"self-signature verifies", A("+IsNil((*crypto/x509.Certificate).CheckSignature(" + single + ", " + single + ".SignatureAlgorithm, " + single + ".RawTBSCertificate, " + single + ".Signature))")},
		{"self-issued", A("+BytesEq(" + single + ".RawIssuer, " + single + ".RawSubject)")},
	}
	if sp.timeParam {
		sreqs = append(sreqs,
			req{"signing time not before NotBefore", AnyOf(A("+IsNil(p1)"), A("-TLt(*p1, "+single+".NotBefore)"))},
			req{"signing time not after NotAfter", AnyOf(A("+IsNil(p1)"), A("-TLt("+single+".NotAfter, *p1)"))})
	}
	sreqs = append(sreqs, sp.leafReqs(single)...)
	for _, r := range sreqs {
		c.mustPass(pg, R, "single: "+r.name, "single-certificate chain: "+r.name, accept, AnyOf(r.lp, notSingle))
	}
	// multi-certificate context: the loop over the whole chain
	c.mustPass(pg, R, "walk covers the chain", "a chain of several certificates is accepted only after the loop over the whole chain is exhausted", accept, AnyOf(isSingle, RangeDone(L)))
	c.onlyAfterExhaustion(pg, R, "no accept inside the walk", "accepting return", L, accept)
	var lreqs []req
	if sp.timeParam {
		lreqs = append(lreqs,
			req{"signing time not before NotBefore", AnyOf(A("+IsNil(p1)"), A("-TLt(*p1, "+el+".NotBefore)"))},
			req{"signing time not after NotAfter", AnyOf(A("+IsNil(p1)"), A("-TLt("+el+".NotAfter, *p1)"))})
	}
	selfSig := "IsNil((*crypto/x509.Certificate).CheckSignatureFrom(" + el + ", " + el + "))"
	selfIss := "BytesEq(" + el + ".RawIssuer, " + el + ".RawSubject)"
	lreqs = append(lreqs,
		req{"root: self-signature verifies", AnyOf(notLast, A("+"+selfSig))},
		req{"root: self-issued", AnyOf(notLast, A("+"+selfIss))},
		req{"non-root: not self-signed", AnyOf(isLast, A("-"+selfSig), A("-"+selfIss))},
		req{"non-root: signed by next", AnyOf(isLast, A("+IsNil((*crypto/x509.Certificate).CheckSignatureFrom("+el+", "+par+"))"))},
		req{"non-root: names next as issuer", AnyOf(isLast, A("+BytesEq("+par+".RawSubject, "+el+".RawIssuer)"))},
	)
	for _, r := range sp.leafReqs(el) {
		lreqs = append(lreqs, req{"position 0: " + r.name, AnyOf(notLeaf, r.lp)})
	}
	for _, r := range sp.caReqs(el, "("+rkL+" - 1)") {
		lreqs = append(lreqs, req{"position >0: " + r.name, AnyOf(isLeaf, r.lp)})
	}
	for _, r := range lreqs {
		if peeled && strings.HasPrefix(r.name, "root: ") {
			continue // decided below, on the code that follows the loop
		}
		c.perIteration(pg, R, "walk: "+r.name, "every certificate of the walk: "+r.name, L, r.lp)
	}
	scanCtx := []string{single, el}
	if peeled {
		// the root, handled after the loop: the same requirements, on every accepting path of a
		// chain of several certificates
		rootSig := "IsNil((*crypto/x509.Certificate).CheckSignatureFrom(" + rootEl + ", " + rootEl + "))"
		rreqs := []req{
			{"root: self-signature verifies", A("+" + rootSig)},
			{"root: self-issued", A("+BytesEq(" + rootEl + ".RawIssuer, " + rootEl + ".RawSubject)")},
		}
		if sp.timeParam {
			rreqs = append(rreqs,
				req{"root: signing time not before NotBefore", AnyOf(A("+IsNil(p1)"), A("-TLt(*p1, "+rootEl+".NotBefore)"))},
				req{"root: signing time not after NotAfter", AnyOf(A("+IsNil(p1)"), A("-TLt("+rootEl+".NotAfter, *p1)"))})
		}
		for _, r := range sp.caReqs(rootEl, rootDepth) {
			rreqs = append(rreqs, req{"root: " + r.name, r.lp})
		}
		for _, r := range rreqs {
			c.mustPass(pg, R, "walk: "+r.name, "chain of several certificates: "+r.name, accept, AnyOf(isSingle, r.lp))
		}
		scanCtx = append(scanCtx, rootEl)
	}
	// nested scans
	for _, cx := range scanCtx {
		ext := "re(" + cx + ".Extensions)"
		if sp.kuCrit {
			c.within(pg, R, "critical flag is the key usage extension's ("+cx+")", "criticality is tested on the key-usage extension itself", cx+".Extensions", A("+OidEq("+oidKU+", "+ext+".Id)"), AnyOf(A("+Truth("+ext+".Critical)"), A("-Truth("+ext+".Critical)")))
		}
		if cx == rootEl {
			continue // the extended-key-usage rules are the leaf's
		}
		if sp.tsaEKU {
			// every extension with the EKU OID must be critical: per iteration either not that OID or critical (first one decides)
			if c.perIteration(pg, R, "EKU extension critical ("+cx+")", "the extended-key-usage extension is critical", cx+".Extensions", AnyOf(A("-OidEq("+oidEKU+", "+ext+".Id)"), A("+Truth("+ext+".Critical)"))) {
				ctxOut := notSingle
				if cx == el {
					ctxOut = AnyOf(isSingle, notLeaf)
				}
				lt := LoopTouched(c.lastLoops)
				if cx == el {
					c.perIteration(pg, R, "EKU criticality scan is mandatory ("+cx+")", "the scan for a non-critical EKU extension runs for the leaf", L, AnyOf(notLeaf, lt))
				} else {
					c.mustPass(pg, R, "EKU criticality scan is mandatory ("+cx+")", "the scan for a non-critical EKU extension runs for the leaf", accept, AnyOf(ctxOut, lt))
				}
			}
		} else {
			for _, e := range excludedCodeSigningEKUs {
				c.perIteration(pg, R, fmt.Sprintf("EKU %d excluded (%s)", e, cx), fmt.Sprintf("every EKU of the leaf differs from %d", e), cx+".ExtKeyUsage", A(fmt.Sprintf("-Eq(%d, re(%s.ExtKeyUsage))", e, cx)))
			}
			c.onlyAfterExhaustion(pg, R, "EKU scan complete ("+cx+")", "accepting return", cx+".ExtKeyUsage", accept)
		}
	}

	// --- B side --------------------------------------------------------------
	var viols []Viol
	viols = append(viols, Viol{Name: "empty chain", All: []LP{A("+Empty(p0)")}})
	sctx := []LP{isSingle}
	viols = append(viols,
		Viol{Name: "single: self-signature invalid", All: []LP{isSingle, A("-IsNil((*crypto/x509.Certificate).CheckSignature(" + single + ", " + single + ".SignatureAlgorithm, " + single + ".RawTBSCertificate, " + single + ".Signature))")}},
		Viol{Name: "single: not self-issued", All: []LP{isSingle, A("-BytesEq(" + single + ".RawIssuer, " + single + ".RawSubject)")}},
	)
	if sp.timeParam {
		for _, cx := range scanCtx {
			viols = append(viols,
				Viol{Name: "signing time outside validity", All: []LP{A("-IsNil(p1)"), AnyOf(A("+TLt(*p1, "+cx+".NotBefore)"), A("+TLt("+cx+".NotAfter, *p1)"))}})
		}
	}
	viols = append(viols, sp.leafViols(single, sctx)...)
	if peeled {
		rootSig := "IsNil((*crypto/x509.Certificate).CheckSignatureFrom(" + rootEl + ", " + rootEl + "))"
		viols = append(viols,
			Viol{Name: "root self-signature invalid", All: []LP{A("-" + rootSig)}},
			Viol{Name: "root not self-issued", All: []LP{A("-BytesEq(" + rootEl + ".RawIssuer, " + rootEl + ".RawSubject)")}},
			Viol{Name: "non-root certificate is self-signed", All: []LP{A("+" + selfSig), A("+" + selfIss)}},
			Viol{Name: "not signed by the next certificate", All: []LP{A("-IsNil((*crypto/x509.Certificate).CheckSignatureFrom(" + el + ", " + par + "))")}},
			Viol{Name: "next certificate is not the named issuer", All: []LP{A("-BytesEq(" + par + ".RawSubject, " + el + ".RawIssuer)")}},
		)
		viols = append(viols, sp.caViols(rootEl, rootDepth, nil)...)
	} else {
		viols = append(viols,
			Viol{Name: "root self-signature invalid", All: []LP{isLast, A("-" + selfSig)}},
			Viol{Name: "root not self-issued", All: []LP{isLast, A("-" + selfIss)}},
			Viol{Name: "non-root certificate is self-signed", All: []LP{notLast, A("+" + selfSig), A("+" + selfIss)}},
			Viol{Name: "not signed by the next certificate", All: []LP{notLast, A("-IsNil((*crypto/x509.Certificate).CheckSignatureFrom(" + el + ", " + par + "))")}},
			Viol{Name: "next certificate is not the named issuer", All: []LP{notLast, A("-BytesEq(" + par + ".RawSubject, " + el + ".RawIssuer)")}},
		)
	}
	viols = append(viols, sp.leafViols(el, []LP{isLeaf})...)
	viols = append(viols, sp.caViols(el, "("+rkL+" - 1)", []LP{notLeaf})...)
	origins := errorOrigins(pg, 0)
	c.floor(sp.fn+" rejection origins", 20, len(origins))
	c.justify(pg, sp.prop+".B", origins, viols, originName)

	// walker signature for the sibling check: the atoms on the walk that do not
	// belong to the profile-specific tables
	sig := map[string]bool{}
	for _, a := range pg.AtomSet() {
		if strings.Contains(a, "Extensions") || strings.Contains(a, "ExtKeyUsage") || strings.Contains(a, "TLt(") || strings.Contains(a, "IsNil(p1)") {
			continue
		}
		// the two forms of the walk name the same things differently
		a = strings.ReplaceAll(a, "p0[_:(len(p0) - 1)]", "p0")
		a = strings.ReplaceAll(a, "p0[(len(p0) - 1)]", "re(p0)")
		a = strings.ReplaceAll(a, "((len(p0) - 1) - 1)", "(rk(p0) - 1)")
		if strings.Contains(a, "Eq((len(p0) - 1), rk(p0))") {
			continue // "is this the root's iteration": only the one-loop form asks
		}
		sig[a] = true
	}
	return sig
}

func distinctNodes(ss []*PState) map[*Node]bool {
	m := map[*Node]bool{}
	for _, s := range ss {
		m[s.Node] = true
	}
	return m
}

func checkC03(c *Check) {
	c.Explain = "C03: decision logic of x509.ValidateCodeSigningCertChain (all helpers inlined) compared in both directions with the atom table of the property: (A) every accepting path passes every required condition in its context (single certificate / each position of the walk; leaf rules at position 0, CA rules with depth i-1 elsewhere; root self-signed; non-root not self-signed and issued by the next; inclusive time bounds when a signing time is given); (B) every origin of a rejection is guarded by the negation of a stated requirement; (C) Sign/Verify/Content of the envelope wrapper and the revocation chain validator route the chain through this validator. Decides the shape of the in-repo logic on every path; does not decide what CheckSignature/CheckSignatureFrom accept."
	c.Assume = append(c.Assume, "crypto/x509 CheckSignature/CheckSignatureFrom verify signatures as documented", "parsed certificates have no nil elements in the chain")
	sp := chainSpec{prop: "O-C03", fn: "ncg/x509.ValidateCodeSigningCertChain", timeParam: true, kuCrit: true}
	checkChainValidator(c, sp)
	checkC03Routing(c)
}

func checkC14(c *Check) {
	c.Explain = "C14: decision logic of x509.ValidateTimestampingCertChain compared in both directions with the atom table of the property (as C03, without signing time; key usage present on every certificate; leaf EKU exactly timeStamping, no unknown EKU, EKU extension critical), plus a sibling cross-check: the walker atoms (ordering, issuance, self-signed root, CA rules, leaf basic constraints and key usage bits, key spec) extracted from the code-signing and timestamping validators must be identical; plus routing from timestamp.Timestamp and the revocation validator. Does not decide stdlib signature checks."
	c.Assume = append(c.Assume, "crypto/x509 CheckSignature/CheckSignatureFrom verify signatures as documented")
	sp := chainSpec{prop: "O-C14", fn: "ncg/x509.ValidateTimestampingCertChain", kuCrit: false, tsaEKU: true}
	tsSig := checkChainValidator(c, sp)
	// sibling cross-check with the code-signing walker
	c2 := newCheck("C03-sibling", c.P, c.Tier)
	csSig := checkChainValidator(c2, chainSpec{prop: "O-C03", fn: "ncg/x509.ValidateCodeSigningCertChain", timeParam: true, kuCrit: true})
	c.Searches += c2.Searches
	var diff []string
	for a := range csSig {
		if !tsSig[a] {
			diff = append(diff, "only in code-signing walker: "+a)
		}
	}
	for a := range tsSig {
		if !csSig[a] {
			diff = append(diff, "only in timestamping walker: "+a)
		}
	}
	c.floor("walker atoms compared", 60, len(tsSig))
	c.add("O-C14.C", "walker siblings agree", "the chain-walk conditions of the code-signing and timestamping validators are identical (only the declared profile differences may differ)", len(diff) == 0 && len(tsSig) > 0, "", diff...)
	checkC14Routing(c)
}
