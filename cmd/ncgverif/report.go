package main

import (
	"bufio"
	"encoding/json"
	"fmt"
	"os"
	"path/filepath"
	"sort"
	"strings"
	"time"
)

// Obl is one obligation instance: rule + construct (never a line number).
type Obl struct {
	Key       string   `json:"key"`
	Rule      string   `json:"rule"`
	Desc      string   `json:"desc"`
	OK        bool     `json:"ok"`
	Undecided bool     `json:"undecided,omitempty"`
	Where     string   `json:"where,omitempty"`
	Detail    []string `json:"detail,omitempty"`
}

// Check collects the obligations of one property run.
type Check struct {
	Prop       string
	P          *Prog
	Tier       string
	Obls       []*Obl
	seen       map[string]int
	Funcs      map[string]bool
	States     int
	Edges      int
	Atoms      map[string]bool
	Searches   int
	Floors     map[string][2]int // name -> {expected, found}
	Controls   map[string]bool
	Notes      []string
	Explain    string
	Assume     []string
	Tables     map[string]any
	Config     string
	graphs     map[string]*PG
	noInline   map[string]bool
	depth      int
	CallSites  int
	isShared   bool  // evaluated by shareRules on behalf of another property
	lastLoops  []int // loops that satisfied the last perIteration query
	loopFilter []int // if set, onlyAfterExhaustion considers only these loops
}

func newCheck(prop string, p *Prog, tier string) *Check {
	return &Check{Prop: prop, P: p, Tier: tier, seen: map[string]int{}, Funcs: map[string]bool{}, Atoms: map[string]bool{}, Floors: map[string][2]int{}, Controls: map[string]bool{}, Tables: map[string]any{}, graphs: map[string]*PG{}, noInline: map[string]bool{}, depth: 8}
}

// add records an obligation result. Keys are made unique by a suffix.
func (c *Check) add(rule, construct, desc string, ok bool, where string, detail ...string) *Obl {
	key := rule + "|" + construct
	if n := c.seen[key]; n > 0 {
		c.seen[key] = n + 1
		key = fmt.Sprintf("%s#%d", key, n+1)
	} else {
		c.seen[key] = 1
	}
	o := &Obl{Key: key, Rule: rule, Desc: desc, OK: ok, Where: where, Detail: detail}
	c.Obls = append(c.Obls, o)
	return o
}

func (c *Check) undecided(rule, construct, why string, where string) *Obl {
	o := c.add(rule, construct, "UNDECIDED: "+why, false, where)
	o.Undecided = true
	return o
}

func (c *Check) floor(name string, expected, found int) {
	c.Floors[name] = [2]int{expected, found}
	if found < expected {
		c.add("floor", name, fmt.Sprintf("instance floor: expected at least %d, found %d (the rule would pass vacuously)", expected, found), false, "")
	} else {
		c.add("floor", name, fmt.Sprintf("instance floor: expected at least %d, found %d", expected, found), true, "")
	}
}

// pgOf builds (and caches) the product graph of a product function.
func (c *Check) pgOf(name string) *PG { return c.pgOfNI(name) }

// pgOfNI: as pgOf, with the listed in-module callees left as opaque calls.
func (c *Check) pgOfNI(name string, noInline ...string) *PG {
	ck := name
	if len(noInline) > 0 {
		ck = name + " !" + strings.Join(noInline, ",")
	}
	saved := c.noInline
	if len(noInline) > 0 {
		c.noInline = map[string]bool{}
		for k, v := range saved {
			c.noInline[k] = v
		}
		for _, n := range noInline {
			c.noInline[n] = true
		}
	}
	defer func() { c.noInline = saved }()
	return c.pgOfKey(ck, name)
}

func (c *Check) pgOfKey(ck, name string) *PG {
	if pg, ok := c.graphs[ck]; ok {
		return pg
	}
	fs := c.P.fn(name)
	if fs == nil {
		c.undecided("anchor", name, "anchor function does not resolve", "")
		c.graphs[ck] = nil
		return nil
	}
	g := buildGraph(c.P, fs, c.depth, c.noInline)
	pg := explore(g)
	c.graphs[ck] = pg
	c.Funcs[name] = true
	for _, in := range g.Insts {
		if in.Fn != nil {
			c.Funcs[in.Name] = true
		}
	}
	c.States += len(pg.States)
	c.Edges += pg.nedges
	for _, a := range pg.AtomSet() {
		c.Atoms[a] = true
	}
	if pg.Trunc {
		c.undecided("engine", name, "state space truncated", c.P.pos(fs.Decl.Pos()))
	}
	for _, u := range g.Unsup {
		// only constructs reachable in the product graph matter
		_ = u
	}
	seenU := map[int]bool{}
	for _, n := range pg.Unsup {
		if !seenU[n.ID] {
			seenU[n.ID] = true
			c.undecided("engine", name+"|"+n.Note, "construct not understood by the graph builder: "+n.Note, c.P.pos(n.Pos))
		}
	}
	return pg
}

// ---------------------------------------------------------------------------

type knownFinding struct {
	Prop, Key, Text string
}

func loadKnown(dir string) []knownFinding {
	f, err := os.Open(filepath.Join(dir, "known_findings.txt"))
	if err != nil {
		return nil
	}
	defer f.Close()
	var out []knownFinding
	sc := bufio.NewScanner(f)
	for sc.Scan() {
		line := strings.TrimSpace(sc.Text())
		if !strings.HasPrefix(line, "finding:") {
			continue
		}
		rest := strings.TrimSpace(strings.TrimPrefix(line, "finding:"))
		kf := knownFinding{}
		for _, fld := range strings.Fields(rest) {
			if strings.HasPrefix(fld, "property=") && kf.Prop == "" {
				kf.Prop = strings.TrimPrefix(fld, "property=")
			} else if strings.HasPrefix(fld, "key=") && kf.Key == "" {
				kf.Key = strings.TrimPrefix(fld, "key=")
			}
		}
		if i := strings.Index(rest, "key="+kf.Key); i >= 0 {
			kf.Text = strings.TrimSpace(rest[i+len("key="+kf.Key):])
		}
		if kf.Prop != "" && kf.Key != "" {
			out = append(out, kf)
		}
	}
	return out
}

type evidence struct {
	PropertyID  string         `json:"property_id"`
	Tier        string         `json:"tier"`
	Seed        int            `json:"seed"`
	Level       string         `json:"level"`
	Coverage    map[string]any `json:"coverage"`
	Assumptions []string       `json:"assumptions"`
	WallS       float64        `json:"wall_s"`
	Violations  int            `json:"violations"`
}

// finish prints the verdict, writes evidence and violation files and returns
// the exit code.
func (c *Check) finish(verifDir string, t0 time.Time, seed int, onlyKey string) int {
	known := loadKnown(verifDir)
	sort.SliceStable(c.Obls, func(i, j int) bool { return c.Obls[i].Key < c.Obls[j].Key })
	var failed, knownHit []*Obl
	discharged := 0
	distinct := map[string]bool{}
	for _, o := range c.Obls {
		distinct[o.Rule+"|"+strings.SplitN(strings.TrimPrefix(o.Key, o.Rule+"|"), "#", 2)[0]] = true
		if *flagV {
			fmt.Printf("OBL ok=%v %s @%s :: %s\n", o.OK, o.Key, o.Where, o.Desc)
		}
		if o.OK {
			discharged++
			continue
		}
		isKnown := false
		for _, k := range known {
			if k.Prop == c.Prop && k.Key == o.Key {
				isKnown = true
				fmt.Printf("KNOWN-FINDING: property=%s %s [%s]\n", c.Prop, k.Text, o.Key)
			}
		}
		if isKnown {
			knownHit = append(knownHit, o)
		} else {
			failed = append(failed, o)
		}
	}
	_ = os.MkdirAll(filepath.Join(verifDir, "out", "violations"), 0o755)
	_ = os.MkdirAll(filepath.Join(verifDir, "evidence"), 0o755)
	nviol := 0
	for i, o := range failed {
		if onlyKey != "" && o.Key != onlyKey {
			continue
		}
		nviol++
		path := filepath.Join("out", "violations", fmt.Sprintf("%s-%d.json", c.Prop, i+1))
		rec := map[string]any{"property": c.Prop, "obligation": o, "repo": c.P.Dir, "tier": c.Tier}
		bs, _ := json.MarshalIndent(rec, "", " ")
		_ = os.WriteFile(filepath.Join(verifDir, path), bs, 0o644)
		kind := "FAILED"
		if o.Undecided {
			kind = "UNDECIDED"
		}
		fmt.Printf("%s %s %s\n    %s\n", kind, o.Key, o.Where, o.Desc)
		for _, d := range o.Detail {
			fmt.Printf("      %s\n", d)
		}
		fmt.Printf("VIOLATION property=%s replay=%s\n", c.Prop, path)
	}
	if onlyKey != "" {
		if nviol == 0 {
			fmt.Printf("replay: obligation %s holds on the current tree\n", onlyKey)
			return 0
		}
		return 1
	}
	// samples: failed first, then a spread of discharged ones
	var samples []any
	for _, o := range failed {
		if len(samples) < 10 {
			samples = append(samples, o)
		}
	}
	step := len(c.Obls)/12 + 1
	for i := 0; i < len(c.Obls) && len(samples) < 22; i += step {
		o := c.Obls[i]
		samples = append(samples, map[string]any{"key": o.Key, "desc": o.Desc, "where": o.Where, "ok": o.OK})
	}
	var funcs []string
	for f := range c.Funcs {
		funcs = append(funcs, f)
	}
	sort.Strings(funcs)
	floors := map[string]any{}
	for k, v := range c.Floors {
		floors[k] = map[string]int{"expected_min": v[0], "found": v[1]}
	}
	var ctrl []string
	for k, v := range c.Controls {
		if v {
			ctrl = append(ctrl, k)
		}
	}
	sort.Strings(ctrl)
	cov := map[string]any{
		"explanation":         c.Explain,
		"obligations":         len(c.Obls),
		"discharged":          discharged,
		"evaluations":         len(c.Obls),
		"distinct_nontrivial": len(distinct),
		"rule":                "one evaluation per obligation instance (rule + construct found in the analysed source); distinct = distinct rule|construct keys that matched at least one construct; every obligation is a reachability/table/structure query on the type-checked source of the current tree",
		"samples":             samples,
		"functions_analysed":  funcs,
		"product_states":      c.States,
		"product_edges":       c.Edges,
		"atoms_extracted":     len(c.Atoms),
		"path_queries":        c.Searches,
		"call_sites":          c.CallSites,
		"floors":              floors,
		"controls_fired":      ctrl,
		"known_findings_hit":  len(knownHit),
		"dep_versions":        c.P.DepVers,
		"config":              c.Config,
		"tables":              c.Tables,
		"notes":               c.Notes,
		"checker_cmd":         fmt.Sprintf("bin/ncgverif -prop %s -tier %s", c.Prop, c.Tier),
		"trusted_base":        []string{"Go type checker (go/types) and golang.org/x/tools v0.29.0 loader", "dependency summaries listed in DESIGN.md section 4"},
	}
	if c.Assume == nil {
		c.Assume = []string{}
	}
	c.Assume = append(c.Assume, "the Go type checker and loader are faithful to the language; dependency summaries of DESIGN.md section 4")
	ev := evidence{PropertyID: c.Prop, Tier: c.Tier, Seed: seed, Level: "other", Coverage: cov, Assumptions: c.Assume, WallS: time.Since(t0).Seconds(), Violations: len(failed)}
	bs, _ := json.MarshalIndent(ev, "", " ")
	if err := os.WriteFile(filepath.Join(verifDir, "evidence", c.Prop+".json"), bs, 0o644); err != nil {
		fmt.Fprintln(os.Stderr, "cannot write evidence:", err)
		return 2
	}
	fmt.Printf("%s: %d obligations, %d discharged, %d failed, %d known; %d functions, %d product states, %d path queries; %.1fs\n",
		c.Prop, len(c.Obls), discharged, len(failed), len(knownHit), len(c.Funcs), c.States, c.Searches, time.Since(t0).Seconds())
	if len(failed) > 0 {
		return 1
	}
	return 0
}

// shareRules evaluates another property's check and copies the obligations of
// the named rules (and any unresolved anchor / engine problem) into c under
// asRule. Used where one structural rule is a necessary condition of two
// properties.
func shareRules(c *Check, fn func(*Check), rules []string, asRule, prefix string) int {
	return shareRulesWhere(c, fn, rules, asRule, prefix, nil)
}

// shareRulesWhere: as shareRules, restricted to the obligations whose name satisfies keep.
func shareRulesWhere(c *Check, fn func(*Check), rules []string, asRule, prefix string, keep func(name string) bool) int {
	if c.isShared {
		// a check evaluated for the sake of another one does not pull in third parties' rules
		return 1 << 20
	}
	sub := newCheck(c.Prop, c.P, c.Tier)
	sub.isShared = true
	sub.depth = c.depth
	fn(sub)
	want := map[string]bool{}
	for _, r := range rules {
		want[r] = true
	}
	n := 0
	for _, o := range sub.Obls {
		if (want[o.Rule] && (keep == nil || keep(strings.TrimPrefix(o.Key, o.Rule+"|")))) || (!o.OK && (o.Rule == "anchor" || o.Rule == "engine")) {
			n++
			ob := c.add(asRule, prefix+strings.TrimPrefix(o.Key, o.Rule+"|"), o.Desc, o.OK, o.Where, o.Detail...)
			ob.Undecided = o.Undecided
		}
	}
	c.Searches += sub.Searches
	c.States += sub.States
	return n
}
