package main

// C04: OCSP yields OK only on an authentic, current Good answer by an
// authorised signer. Modular: (S) the per-certificate / per-server logic with
// the request helper left opaque, (H) the request helper as its own root,
// (W) the error -> server-result wrapper as its own root.

import (
	"fmt"
	"strings"
)

const ocspRoot = "ncg/revocation/internal/ocsp.CertCheckStatus"

const (
	ocspGood    = 0
	ocspRevoked = 1
)

// nestedClass returns the class of the single nested server result of a
// CertRevocationResult literal, and the nested term.
func nestedSingle(t *Term) (*Term, bool) {
	if t == nil {
		return nil, false
	}
	if t.Op == "addr" {
		t = t.Args[0]
	}
	sr := structGet(t, "ServerResults")
	if sr == nil || sr.Op != "list" || len(sr.Args) != 1 {
		return nil, false
	}
	return sr.Args[0], true
}

func checkC04(c *Check) {
	c.Explain = "C04: internal/ocsp.CertCheckStatus, decided modularly on every path. (W) the error->verdict wrapper maps exactly nil->OK, NoServerError->NonRevokable, RevokedError->Revoked, anything else->Unknown. (H) the request helper returns a response only after: request created for (cert, issuer); http request built with the caller's context from that request; client.Do succeeded; status 200; body read under the size cap; body differs from the five unsigned OCSP error responses; ocsp.ParseResponseForCert(body, cert, issuer) succeeded with exactly these arguments; and the embedded responder certificate is absent, equal to the issuer, or carries id-kp-OCSPSigning; it returns what ParseResponseForCert returned; its errors are GenericError/TimeoutError literals or errors made by dependencies (never RevokedError/NoServerError). (S) a server result is OK only after the URL parsed, the scheme is http, the helper succeeded, next-update is not passed, and the status is Good, or Revoked with an invalidity date (decoded without error or trailing bytes from the response's extension map entry 2.5.29.24) strictly after a non-zero signing time; Revoked only on status Revoked; otherwise Unknown; the per-certificate loop returns early only on a decisive result. ocsp.ParseResponse is called nowhere. Signature mathematics and serial matching are inside x/crypto (DESIGN section 4)."
	c.Assume = append(c.Assume, "golang.org/x/crypto/ocsp.ParseResponseForCert with non-nil cert and issuer verifies the response signature under the issuer key or an embedded certificate signed by the issuer and selects the response for cert's serial (pinned v0.37.0, read)", "errors made by net/http, net/url, x/crypto/ocsp, encoding/* are values of their own packages' types")
	// discover the request helper: the product function that calls ParseResponseForCert
	sites := c.P.callSites(func(n string) bool { return strings.HasPrefix(n, "golang.org/x/crypto/ocsp.ParseResponse") })
	c.CallSites += len(sites)
	var helper *FuncSrc
	bad := []string{}
	for _, s := range sites {
		if s.Callee != "golang.org/x/crypto/ocsp.ParseResponseForCert" {
			bad = append(bad, c.P.pos(s.Call.Pos())+": "+s.Callee)
		} else {
			helper = s.Fn
		}
	}
	c.add("O-C04.3", "responses are parsed only by ParseResponseForCert", "no product code calls ocsp.ParseResponse (which verifies nothing); exactly one call of ParseResponseForCert exists", len(bad) == 0 && len(sites) == 1, "", bad...)
	if helper == nil {
		c.undecided("O-C04.3", "request helper", "no call of ocsp.ParseResponseForCert found", "")
		return
	}
	if h2 := ocspExchangeHelper(c); h2 != nil {
		helper = h2
	}
	H := c.P.abbrev(helper.Obj.FullName())

	// ---------------- (H) the request helper -----------------------------------
	hpg := c.pgOf(H)
	if hpg == nil {
		return
	}
	// parameter roles by type/position: ctx, cert, issuer, server, opts
	pr := "golang.org/x/crypto/ocsp.ParseResponseForCert(io.ReadAll(io.LimitReader(*.Body, 20480))#0, p1, p2)"
	hok := returnsWhere(hpg, func(s *PState) bool { return retNilErr(s, 1) })
	c.floor("request helper success returns", 1, len(hok))
	for _, g := range []struct {
		n  string
		lp LP
	}{
		{"request created for (cert, issuer)", AG("+IsNil(golang.org/x/crypto/ocsp.CreateRequest(p1, p2, *)#1)")},
		{"transport succeeded", AG("+IsNil((*net/http.Client).Do(p4.HTTPClient, *)#1)")},
		{"HTTP status is 200", AG("+Eq((*net/http.Client).Do(p4.HTTPClient, *)#0.StatusCode, 200)")},
		{"body read without error", AG("+IsNil(io.ReadAll(io.LimitReader(*.Body, 20480))#1)")},
		{"body is not OCSP 'unauthorized'", AG("-BytesEq(golang.org/x/crypto/ocsp.UnauthorizedErrorResponse, io.ReadAll(*)#0)")},
		{"body is not OCSP 'malformed request'", AG("-BytesEq(golang.org/x/crypto/ocsp.MalformedRequestErrorResponse, io.ReadAll(*)#0)")},
		{"body is not OCSP 'internal error'", AG("-BytesEq(golang.org/x/crypto/ocsp.InternalErrorErrorResponse, io.ReadAll(*)#0)")},
		{"body is not OCSP 'try later'", AG("-BytesEq(golang.org/x/crypto/ocsp.TryLaterErrorResponse, io.ReadAll(*)#0)")},
		{"body is not OCSP 'signature required'", AG("-BytesEq(golang.org/x/crypto/ocsp.SigRequredErrorResponse, io.ReadAll(*)#0)")},
		{"response parsed and verified for (cert, issuer)", AG("+IsNil(" + pr + "#1)")},
		{"responder authorised (issuer itself, or OCSP-signing EKU)", AnyOf(AG("+IsNil("+pr+"#0.Certificate)"), AG("+CertEq("+pr+"#0.Certificate, p2)"), AG("+CertEq(p2, "+pr+"#0.Certificate)"), AG("+Eq(9, re("+pr+"#0.Certificate.ExtKeyUsage))"))},
	} {
		c.mustPass(hpg, "O-C04.3", "helper: "+g.n, "the request helper returns a response", hok, g.lp)
	}
	// what is returned is what ParseResponseForCert returned
	retOK := len(hok) > 0
	var rdet []string
	for _, s := range hok {
		if !globMatch(pr+"#0", retKey(s, 0)) {
			retOK = false
			rdet = append(rdet, "returns "+retKey(s, 0))
		}
	}
	c.add("O-C04.3", "helper returns the verified response", "the value returned on success is result 0 of ParseResponseForCert(body, cert, issuer) where body is what was read from the HTTP response", retOK, posOf(hpg, hok), rdet...)
	// the HTTP requests carry the context and the created request
	nreq := 0
	reqOK := true
	var qdet []string
	for _, s := range hpg.States {
		for _, e := range s.Out {
			for _, l := range e.Labels {
				if l.Kind == "call" && l.T != nil && l.T.Op == "call" && strings.HasPrefix(l.T.Name, "net/http.NewRequest") {
					nreq++
					k := l.Key
					if l.T.Name != "net/http.NewRequestWithContext" || l.T.Args[0].Key() != "p0" || !strings.Contains(k, "golang.org/x/crypto/ocsp.CreateRequest(p1, p2, ") {
						reqOK = false
						qdet = append(qdet, c.P.pos(l.Node.Pos)+": "+k)
					}
				}
			}
		}
	}
	c.add("O-C04.3", "requests carry the context and the OCSP request", "every HTTP request is built with NewRequestWithContext(ctx, ..) from the bytes of CreateRequest(cert, issuer, ..)", reqOK && nreq >= 2, "", qdet...)
	c.floor("OCSP HTTP request constructions", 2, nreq)
	// error types of the helper (X): literals of GenericError / TimeoutError or dependency errors
	errTypesOK := true
	var edet []string
	norig := 0
	for _, o := range errorOrigins(hpg, 1) {
		norig++
		dt, ok := dynType(o.Term)
		switch {
		case ok && (dt == "ncg/revocation/internal/ocsp.GenericError" || dt == "ncg/revocation/internal/ocsp.TimeoutError"):
		case ok && (strings.HasPrefix(dt, "ext:") || strings.HasPrefix(dt, "*fmt.") || strings.HasPrefix(dt, "*errors.")):
		default:
			errTypesOK = false
			edet = append(edet, c.P.pos(o.States[0].Node.Pos)+": "+o.Term.Key())
		}
	}
	c.add("O-C04.1", "helper errors are never verdict-bearing", "every error of the request helper is a GenericError/TimeoutError literal or an error made by a dependency — never RevokedError, NoServerError or nil with a nil response", errTypesOK, "", edet...)
	c.floor("request helper error origins", 12, norig)
	// a nil response never comes with a nil error
	for _, s := range hok {
		if retKey(s, 0) == "nil" {
			c.add("O-C04.3", "no nil response with nil error", "success returns a response", false, c.P.pos(s.Node.Pos))
		}
	}
	// B side of the authorisation gate: the rejection is justified
	c.justify(hpg, "O-C04.5B", filterOrigins(errorOrigins(hpg, 1), func(o *origin) bool { return strings.Contains(o.Key, "not authorized") }), []Viol{
		{Name: "embedded responder certificate is neither the issuer nor an OCSP signer", All: []LP{AG("-IsNil(" + pr + "#0.Certificate)"), AnyOf(AG("-CertEq("+pr+"#0.Certificate, p2)"), AG("-CertEq(p2, "+pr+"#0.Certificate)")), RangeDoneG(pr + "#0.Certificate.ExtKeyUsage")}},
	}, originName)

	// ---------------- (S) per-certificate / per-server logic ---------------------
	spg := c.pgOfNI(ocspRoot, H)
	if spg == nil {
		return
	}
	srv := "re(p1.OCSPServer)"
	X := H + "(p0, p1, p2, " + srv + ", p3)"
	resp, xerr := X+"#0", X+"#1"
	// the helper is called with exactly (ctx, cert, issuer, this server, opts)
	hcalls := 0
	for _, s := range spg.States {
		for _, e := range s.Out {
			for _, l := range e.Labels {
				if l.Kind == "call" && l.T != nil && l.T.Name == H {
					hcalls++
					if l.Key != X {
						c.add("O-C04.3", "helper called for (cert, issuer, server)", "the request helper is called with the certificate, its issuer and the current server URL", false, c.P.pos(l.Node.Pos), "call: "+l.Key)
					}
				}
			}
		}
	}
	c.floor("request helper call sites", 1, hcalls)
	// the helper never yields these error types (discharged above): such edges are infeasible
	inf := AnyOf(A("+TypeIs("+xerr+", ncg/revocation/internal/ocsp.RevokedError)"), A("+TypeIs("+xerr+", ncg/revocation/internal/ocsp.NoServerError)"))
	if errTypesOK {
		spg.Infeasible = &inf
	}
	type srvRet struct {
		s   *PState
		el  *Term
		cls int
	}
	var early []srvRet
	var final, notSupp []*PState
	for _, s := range spg.Returns() {
		t := s.Ret[0].T
		el, ok := nestedSingle(t)
		if !ok {
			final = append(final, s)
			continue
		}
		cl, ok2 := resultClass(el)
		if !ok2 {
			c.add("O-C04.1", "server result classified", "every server result has a constant verdict", false, c.P.pos(s.Node.Pos), el.Key())
			continue
		}
		if sv := structGet(el.Args[0], "Server"); sv != nil && sv.Key() == `""` {
			notSupp = append(notSupp, s)
			continue
		}
		early = append(early, srvRet{s, el, cl})
	}
	// feasibility filter: drop returns only reachable through infeasible edges
	feasible := func(s *PState) bool {
		_, ok := c.search(spg, []*PState{spg.Entry}, inSet([]*PState{s}), nil)
		return ok
	}
	var okS, revS, unkS []*PState
	for _, r := range early {
		if !feasible(r.s) {
			continue
		}
		switch r.cls {
		case resOK:
			okS = append(okS, r.s)
		case resRevoked:
			revS = append(revS, r.s)
		case resUnknown:
			unkS = append(unkS, r.s)
		default:
			c.add("O-C04.1", "decisive server results", "a per-server early return is OK, Revoked or Unknown", false, c.P.pos(r.s.Node.Pos), r.el.Key())
		}
	}
	c.floor("OCSP OK verdict states", 1, len(okS))
	c.floor("OCSP Revoked verdict states", 1, len(revS))
	extmap := "mapset(map[map[string][]byte:], (encoding/asn1.ObjectIdentifier).String(old(re(" + resp + ".Extensions)).Id)=>old(re(" + resp + ".Extensions)).Value)"
	unm := `encoding/asn1.UnmarshalWithParams(` + extmap + `["2.5.29.24"], &$[time.Time], "generalized")`
	good := A(fmt.Sprintf("+Eq(%d, %s.Status)", ocspGood, resp))
	revoked := A(fmt.Sprintf("+Eq(%d, %s.Status)", ocspRevoked, resp))
	common := []req{
		{"server URL parses", A("+IsNil(net/url.Parse(" + srv + ")#1)")},
		{"scheme is http", A(`+EqFold("http", net/url.Parse(` + srv + `)#0.Scheme)`)},
		{"request helper succeeded", A("+IsNil(" + xerr + ")")},
		{"next update not passed", A("-TLt(" + resp + ".NextUpdate, time.Now())")},
	}
	for _, r := range common {
		c.mustPass(spg, "O-C04.2", "OK: "+r.name, "an OCSP OK verdict", okS, r.lp)
		c.mustPass(spg, "O-C04.2", "Revoked: "+r.name, "an OCSP Revoked verdict", revS, r.lp)
	}
	c.mustPass(spg, "O-C04.2", "OK: status Good or exempt Revoked", "an OCSP OK verdict", okS, AnyOf(good, revoked))
	for _, r := range []req{
		{"invalidity date extension present in the response", A("+Has(" + extmap + `, "2.5.29.24")`)},
		{"signing time is not zero", A("-TZero(p3.SigningTime)")},
		{"invalidity date decodes without error", A("+IsNil(" + unm + "#1)")},
		{"invalidity date has no trailing bytes", A("+Empty(" + unm + "#0)")},
		{"signing time strictly before invalidity date", A("+TLt(p3.SigningTime, " + unm + "!1)")},
	} {
		c.mustPass(spg, "O-C04.2", "OK on Revoked only if "+r.name, "an OCSP OK verdict for a response that does not say Good", okS, AnyOf(good, r.lp))
	}
	c.mustPass(spg, "O-C04.2", "Revoked: status Revoked", "an OCSP Revoked verdict", revS, revoked)
	// a Revoked answer yields Revoked unless exempt: from +Revoked the OK verdict needs the strict comparison
	c.noPathFrom(spg, "O-C04.2", "Revoked answer is not OK", "after status Revoked an OK verdict needs the invalidity-date exemption", revoked, okS, ptr(A("+TLt(p3.SigningTime, "+unm+"!1)")))
	// ... and never Unknown: once the (validated) response says Revoked the verdict is Revoked or the exempt OK
	// (an Unknown here would let the full validator fall back to CRLs and soften a revocation)
	c.noPathFrom(spg, "O-C04.5", "Revoked answer is final", "after status Revoked no Unknown verdict is produced", revoked, unkS, nil)
	// Unknown-status: neither Good nor Revoked
	var unkStatus []*PState
	for _, s := range unkS {
		el, _ := nestedSingle(s.Ret[0].T)
		if e := structGet(el.Args[0], "Error"); e != nil {
			if dt, ok := dynType(e); ok && dt == "ncg/revocation/internal/ocsp.UnknownStatusError" {
				unkStatus = append(unkStatus, s)
			}
		}
	}
	c.floor("OCSP Unknown-status verdict states", 1, len(unkStatus))
	c.mustPass(spg, "O-C04.2", "Unknown status: not Good", "an UnknownStatusError", unkStatus, A(fmt.Sprintf("-Eq(%d, %s.Status)", ocspGood, resp)))
	c.mustPass(spg, "O-C04.2", "Unknown status: not Revoked", "an UnknownStatusError", unkStatus, A(fmt.Sprintf("-Eq(%d, %s.Status)", ocspRevoked, resp)))
	// the extension map is built from the response's extensions (value of this response)
	// O-C04.4 the early return is decisive; the final aggregate only after all servers
	for _, s := range unkS {
		isUS := false
		for _, u := range unkStatus {
			if u == s {
				isUS = true
			}
		}
		if isUS {
			continue
		}
		// an Unknown early return must be justified by errors.Is(err, UnknownStatusError)
		ok, path := c.cut(spg, []*PState{s}, AG("+ErrIs(*, {ncg/revocation/internal/ocsp.UnknownStatusError})"))
		var det []string
		if !ok {
			det = spg.describePath(path, 20)
		}
		c.add("O-C04.4", "early Unknown return only for an unknown status", "the server loop returns early with Unknown only when the error is an UnknownStatusError", ok, c.P.pos(s.Node.Pos), det...)
	}
	// every server result that lets the loop go on is non-decisive (Unknown, not an unknown *status*)
	slice := "make([]*ncg/revocation/result.ServerResult, len(p1.OCSPServer))"
	slot := slice + "[rk(p1.OCSPServer)]"
	var badSt []string
	nst := 0
	// the same accumulation written with append: failed = append(failed, result)
	isAccAppend := func(l Label) bool {
		return l.Kind == "assign" && l.T2 != nil && l.T2.Op == "call" && l.T2.Name == "append" && len(l.T2.Args) == 2 && l.T2.Args[0].Op == "self" && l.T != nil && l.T.V != nil && l.T.V.Obj != nil && l.Node != nil && l.Node.Note != "ret"
	}
	appendForm := false
	for _, s := range spg.States {
		for _, e := range s.Out {
			for _, l := range e.Labels {
				if !isAccAppend(l) {
					continue
				}
				if _, ok := c.search(spg, []*PState{spg.Entry}, inSet([]*PState{s}), nil); !ok {
					continue
				}
				v := l.T2.Args[1]
				cl, ok := resultClass(v)
				if !ok {
					continue // not a server result (some other list)
				}
				appendForm = true
				nst++
				okSt := cl == resUnknown
				if okSt && v.Op == "addr" {
					if er := structGet(v.Args[0], "Error"); er != nil {
						if dt, k := dynType(er); k && dt == "ncg/revocation/internal/ocsp.UnknownStatusError" {
							okSt = false
						}
					}
				}
				if !okSt {
					badSt = append(badSt, c.P.pos(l.Node.Pos)+": "+l.String())
				}
			}
		}
	}
	for _, s := range spg.States {
		for _, e := range s.Out {
			for _, l := range e.Labels {
				if (l.Kind == "store" || l.Kind == "lstore") && strings.HasPrefix(l.Key, slice+"[") {
					if _, ok := c.search(spg, []*PState{spg.Entry}, inSet([]*PState{s}), nil); !ok {
						continue // only reachable through infeasible edges
					}
					nst++
					cl, ok := resultClass(l.T2)
					okSt := l.Key == slot && ok && cl == resUnknown
					if okSt {
						if er := structGet(l.T2.Args[0], "Error"); er != nil {
							if dt, k := dynType(er); k && dt == "ncg/revocation/internal/ocsp.UnknownStatusError" {
								okSt = false
							}
						}
					}
					if !okSt && l.Key == slot && ok {
						// a decisive result stored before it is tested is harmless when the
						// scan cannot go on with it: no path from the store to the loop head
						heads := edgeSources(spg, AnyOf(RangeNext("p1.OCSPServer"), RangeDone("p1.OCSPServer")))
						if _, goesOn := c.search(spg, []*PState{e.To}, inSet(heads), nil); !goesOn {
							okSt = true
						}
					}
					if !okSt {
						badSt = append(badSt, c.P.pos(l.Node.Pos)+": "+l.String())
					}
				}
			}
		}
	}
	c.add("O-C04.4", "only non-decisive results are accumulated", "a server result is kept for the aggregate (and the next server asked) only if it is Unknown and not an unknown-status answer: OK, Revoked and unknown-status answers end the loop at once", len(badSt) == 0 && nst > 0, "", badSt...)
	if appendForm {
		c.perIteration(spg, "O-C04.4", "every non-decisive server result is recorded in its slot", "an iteration that goes on to the next server appends its result to the accumulated list", "p1.OCSPServer", LP{Desc: "append the server result", F: func(l Label) bool {
			if !isAccAppend(l) {
				return false
			}
			_, ok := resultClass(l.T2.Args[1])
			return ok
		}})
	} else {
		c.perIteration(spg, "O-C04.4", "every non-decisive server result is recorded in its slot", "an iteration that goes on to the next server records its result at the server's index", "p1.OCSPServer", StoreTo(slot))
	}
	c.mustPass(spg, "O-C04.4", "aggregate only after all servers", "the aggregated (non-decisive) result", final, RangeDone("p1.OCSPServer"))
	c.onlyAfterExhaustion(spg, "O-C04.4", "no aggregate from inside the loop", "the aggregated result", "p1.OCSPServer", final)
	// a decisive per-server result returns at once: after an OK/Revoked server result no further server is asked
	c.floor("OCSP aggregate returns", 1, len(final))
	// not supported literal
	c.floor("OCSP not-supported returns", 1, len(notSupp))
	c.mustPass(spg, "O-C04.1", "NonRevokable only without responders", "the NonRevokable (OCSP not supported) verdict", notSupp, AnyOf(A("+Empty(p1.OCSPServer)"), A("+IsNil(p1)")))
	for _, s := range notSupp {
		cl, _ := resultClass(s.Ret[0].T)
		if cl != resNonRevokable {
			c.add("O-C04.1", "not-supported verdict is NonRevokable", "the not-supported literal is NonRevokable", false, c.P.pos(s.Node.Pos))
		}
	}
	c.mustPass(spg, "O-C04.1", "verdicts need responders", "any per-server verdict", append(append(append([]*PState{}, okS...), revS...), unkS...), A("-Empty(p1.OCSPServer)"))

	// ---------------- (W) the wrapper --------------------------------------------
	_, winst := instOfAtomPrefix(spg, "TypeIs(")
	if winst == nil || winst.Fn == nil {
		c.undecided("O-C04.1", "error->verdict wrapper", "cannot locate the function that maps errors to server results", "")
		return
	}
	wpg := c.pgOf(winst.Name)
	if wpg == nil {
		return
	}
	want := map[int][]LP{
		resOK:           {A("+IsNil(p1)")},
		resNonRevokable: {A("-IsNil(p1)"), A("+TypeIs(p1, ncg/revocation/internal/ocsp.NoServerError)")},
		resRevoked:      {A("-IsNil(p1)"), A("-TypeIs(p1, ncg/revocation/internal/ocsp.NoServerError)"), A("+TypeIs(p1, ncg/revocation/internal/ocsp.RevokedError)")},
		resUnknown:      {A("-IsNil(p1)"), A("-TypeIs(p1, ncg/revocation/internal/ocsp.NoServerError)"), A("-TypeIs(p1, ncg/revocation/internal/ocsp.RevokedError)")},
	}
	names := map[int]string{resOK: "OK", resNonRevokable: "NonRevokable", resRevoked: "Revoked", resUnknown: "Unknown"}
	seen := map[int]int{}
	for _, s := range wpg.Returns() {
		cl, ok := resultClass(s.Ret[0].T)
		if !ok {
			c.add("O-C04.1", "wrapper returns constant verdicts", "the wrapper returns literals with constant verdicts", false, c.P.pos(s.Node.Pos), retKey(s, 0))
			continue
		}
		seen[cl]++
		for _, lp := range want[cl] {
			c.mustPass(wpg, "O-C04.1", "wrapper: "+names[cl]+" only for "+lp.Desc, "the wrapper's "+names[cl]+" verdict", []*PState{s}, lp)
		}
		t := s.Ret[0].T.Args[0]
		if m := structGet(t, "RevocationMethod"); m == nil || m.Key() != "1" {
			c.add("O-C04.1", "wrapper labels results as OCSP", "server results of the wrapper carry RevocationMethodOCSP", false, c.P.pos(s.Node.Pos))
		}
		if sv := structGet(t, "Server"); sv == nil || sv.Key() != "p0" {
			c.add("O-C04.1", "wrapper records the server", "server results of the wrapper carry the server argument", false, c.P.pos(s.Node.Pos))
		}
		e := structGet(t, "Error")
		switch cl {
		case resOK, resNonRevokable:
			if e == nil || e.Key() != "nil" {
				c.add("O-C04.1", "wrapper: good verdicts carry no error", "OK/NonRevokable server results have a nil error", false, c.P.pos(s.Node.Pos))
			}
		default:
			if e == nil || e.Key() != "p1" {
				c.add("O-C04.1", "wrapper: bad verdicts carry the error", "Revoked/Unknown server results carry the error passed in", false, c.P.pos(s.Node.Pos))
			}
		}
	}
	c.add("O-C04.1", "wrapper table complete", "the wrapper has a return for each of OK, NonRevokable, Revoked, Unknown", seen[resOK] > 0 && seen[resNonRevokable] > 0 && seen[resRevoked] > 0 && seen[resUnknown] > 0, c.P.pos(wpg.G.Root.Decl.Pos()))
}

func filterOrigins(os []*origin, f func(*origin) bool) []*origin {
	var out []*origin
	for _, o := range os {
		if f(o) {
			out = append(out, o)
		}
	}
	return out
}

// RangeDoneG: exhaustion of a loop whose operand key matches a glob.
func RangeDoneG(pat string) LP {
	return LP{Desc: "rangedone(" + pat + ")", F: func(l Label) bool { return l.Kind == "rangedone" && globMatch(pat, l.Key) }}
}

func instOfAtomPrefix(pg *PG, prefix string) (*Node, *Instance) {
	for _, s := range pg.States {
		for _, e := range s.Out {
			for _, l := range e.Labels {
				if l.Kind == "atom" && strings.HasPrefix(l.Key, prefix) && l.Node.Inst.Fn != nil {
					return l.Node, l.Node.Inst
				}
			}
		}
	}
	return nil, nil
}

// ocspExchangeHelper: the function that performs one OCSP exchange - the lowest product function
// whose call tree holds both the HTTP round trip ((*http.Client).Do) and the verification
// (ocsp.ParseResponseForCert), however the steps in between are split into helpers.
func ocspExchangeHelper(c *Check) *FuncSrc {
	holds := func(callee string) map[*FuncSrc]bool {
		m := map[*FuncSrc]bool{}
		for _, s := range c.P.callSites(func(n string) bool { return n == callee }) {
			m[s.Fn] = true
		}
		return m
	}
	do, parse := holds("(*net/http.Client).Do"), holds("golang.org/x/crypto/ocsp.ParseResponseForCert")
	has := func(tree []*FuncSrc) bool {
		d, p := false, false
		for _, f := range tree {
			d = d || do[f]
			p = p || parse[f]
		}
		return d && p
	}
	var best *FuncSrc
	for _, fs := range c.P.productFuncs() {
		if !strings.HasSuffix(fs.Pkg.PkgPath, "/revocation/internal/ocsp") {
			continue
		}
		name := c.P.abbrev(fs.Obj.FullName())
		tree := c.callTree([]string{name})
		if !has(tree) {
			continue
		}
		lowest := true
		for _, f := range tree {
			if f != fs && has(c.callTree([]string{c.P.abbrev(f.Obj.FullName())})) {
				lowest = false
			}
		}
		if lowest {
			if best != nil {
				return nil // ambiguous
			}
			best = fs
		}
	}
	return best
}
