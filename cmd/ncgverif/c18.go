package main

// C18: the HTTP CRL fetcher (cache freshness, miss vs. error, write-back,
// delta presence) and the download helper (plain HTTP, capped).

import (
	"fmt"
	"go/ast"
	"go/token"
	"go/types"
	"regexp"
	"strings"

	"golang.org/x/tools/go/types/typeutil"
)

const fetchFn = "(*ncg/revocation/crl.HTTPFetcher).Fetch"

// downloadRules: O-C06.3 / O-C18.5 on the CRL download helper.
func downloadRules(c *Check, rule string) (D string) {
	sites := c.P.callSites(func(n string) bool { return n == "crypto/x509.ParseRevocationList" })
	c.CallSites += len(sites)
	if len(sites) != 1 {
		c.undecided(rule, "CRL download helper", "expected exactly one call of x509.ParseRevocationList in product code", "")
		return ""
	}
	D = c.P.abbrev(sites[0].Fn.Obj.FullName())
	pg := c.pgOf(D)
	if pg == nil {
		return D
	}
	ok := returnsWhere(pg, func(s *PState) bool { return retNilErr(s, 1) })
	c.floor("CRL download success returns", 1, len(ok))
	do := "(*net/http.Client).Do(p2, net/http.NewRequestWithContext(p0, \"GET\", p1, nil)#0)"
	body := "io.ReadAll(io.LimitReader(" + do + "#0.Body, 33554432))"
	bodyData, bodyErr := body+"#0", body+"#1"
	// second form of the bounded read: a fresh bytes.Buffer filled by one ReadFrom over the same
	// LimitReader and by nothing else; the parsed bytes are its contents
	bufRead := "(*bytes.Buffer).ReadFrom(&$[bytes.Buffer], io.LimitReader(" + do + "#0.Body, 33554432))"
	if !c.Atoms["+IsNil("+bodyErr+")"] && pgHasAtom(pg, "+IsNil("+bufRead+"#1)") {
		bodyData, bodyErr = "(*bytes.Buffer).Bytes(&$[bytes.Buffer])", bufRead+"#1"
		var other []string
		nreadfrom := 0
		for _, st := range pg.States {
			for _, e := range st.Out {
				for _, l := range e.Labels {
					if l.Kind != "call" || l.T == nil || !strings.HasPrefix(l.T.Name, "(*bytes.Buffer).") {
						continue
					}
					switch strings.TrimPrefix(l.T.Name, "(*bytes.Buffer).") {
					case "Grow", "Bytes", "Len", "Cap":
					case "ReadFrom":
						if l.Key != bufRead {
							other = append(other, c.P.pos(l.Node.Pos)+": "+l.Key)
						} else {
							nreadfrom++
						}
					default:
						other = append(other, c.P.pos(l.Node.Pos)+": "+l.Key)
					}
				}
			}
		}
		c.add(rule, "download: the buffer holds the bounded read and nothing else", "the buffer whose contents are parsed is filled by one ReadFrom over io.LimitReader(response body, cap) and by no other call", len(other) == 0 && nreadfrom > 0, c.P.pos(pg.G.Root.Decl.Pos()), other...)
	}
	for _, g := range []req{
		{"URL parses", A("+IsNil(net/url.Parse(p1)#1)")},
		{"scheme is exactly http", A(`+Eq("http", net/url.Parse(p1)#0.Scheme)`)},
		{"request built with the caller's context", A(`+IsNil(net/http.NewRequestWithContext(p0, "GET", p1, nil)#1)`)},
		{"transport succeeded", A("+IsNil(" + do + "#1)")},
		{"HTTP status is 200", A("+Eq(" + do + "#0.StatusCode, 200)")},
		{"body read without error under the cap", A("+IsNil(" + bodyErr + ")")},
		{"body smaller than the cap", A("-Eq(33554432, len(" + bodyData + "))")},
		{"CRL parses", A("+IsNil(crypto/x509.ParseRevocationList(" + bodyData + ")#1)")},
	} {
		c.mustPass(pg, rule, "download: "+g.name, "the download helper returns a CRL", ok, g.lp)
	}
	good := len(ok) > 0
	var det []string
	for _, s := range ok {
		if retKey(s, 0) != "crypto/x509.ParseRevocationList("+bodyData+")#0" {
			good = false
			det = append(det, "returns "+retKey(s, 0))
		}
	}
	c.add(rule, "download returns the parsed body", "what is returned is x509.ParseRevocationList of exactly the bytes read from the response", good, posOf(pg, ok), det...)
	return D
}

// sentinelUses scans every reference to a package-level variable (by
// abbreviated name): allowed are return operands and the second argument of
// errors.Is. Returns the number of allowed uses and the others.
func sentinelUses(c *Check, name string) (int, []string) { return sentinelUsesP(c.P, name) }

func sentinelUsesP(P *Prog, name string) (int, []string) {
	i := strings.LastIndex(name, ".")
	pkgPath := strings.Replace(name[:i], "ncg", P.ModPath, 1)
	vname := name[i+1:]
	pk := P.All[pkgPath]
	if pk == nil {
		return 0, []string{"package not loaded: " + pkgPath}
	}
	obj := pk.Types.Scope().Lookup(vname)
	if obj == nil {
		return 0, []string{"variable not found: " + name}
	}
	var bad []string
	if obj.Exported() {
		bad = append(bad, "the sentinel is exported")
	}
	n := 0
	for _, mp := range P.Pkgs {
		for _, f := range mp.Syntax {
			if strings.HasSuffix(P.Fset.Position(f.Pos()).Filename, "_test.go") {
				continue
			}
			var stack []ast.Node
			ast.Inspect(f, func(nd ast.Node) bool {
				if nd == nil {
					stack = stack[:len(stack)-1]
					return true
				}
				stack = append(stack, nd)
				id, ok := nd.(*ast.Ident)
				if !ok || mp.TypesInfo.Uses[id] != obj {
					return true
				}
				parent := stack[len(stack)-2]
				switch p := parent.(type) {
				case *ast.ReturnStmt:
					n++
				case *ast.CallExpr:
					if fn, ok := typeutil.Callee(mp.TypesInfo, p).(*types.Func); ok && fn.FullName() == "errors.Is" && len(p.Args) == 2 && p.Args[1] == ast.Expr(id) {
						n++
					} else {
						bad = append(bad, P.pos(id.Pos())+": passed to a call")
					}
				case *ast.AssignStmt:
					// held in a local error variable that is only returned, re-assigned or tested
					okLocal := false
					for i, r := range p.Rhs {
						if ast.Expr(id) != r || i >= len(p.Lhs) || len(p.Lhs) != len(p.Rhs) {
							continue
						}
						lid, isId := p.Lhs[i].(*ast.Ident)
						if !isId {
							continue
						}
						lobj := mp.TypesInfo.Defs[lid]
						if lobj == nil {
							lobj = mp.TypesInfo.Uses[lid]
						}
						if v, isVar := lobj.(*types.Var); isVar && !isPkgLevel(v) && localOnlyReturnedOrTested(mp.TypesInfo, f, v) {
							okLocal = true
						}
					}
					if okLocal {
						n++
					} else {
						bad = append(bad, P.pos(id.Pos())+": assigned to something other than a local that is only returned or tested")
					}
				default:
					bad = append(bad, P.pos(id.Pos())+": used in "+strings.TrimPrefix(fmt.Sprintf("%T", parent), "*ast."))
				}
				return true
			})
		}
	}
	return n, bad
}

func checkC18(c *Check) {
	c.Explain = "C18: (*crl.HTTPFetcher).Fetch with the download helper and the distribution-point parser left opaque, decided on every path: (1) the cached bundle is returned only if Cache != nil, Get returned no error, the base's next-update is not passed and the delta is absent or its next-update not passed; (2) a cache read error is returned only if it is not ErrCacheMiss and errors are not discarded; after no-cache/miss/stale the cached bundle is unreachable; (3) a fresh bundle is returned only after the base download succeeded and, with a cache, after Set(ctx, same URL, same bundle); a Set error is returned unless discarded; (4) the bundle's DeltaCRL is nil only if the base has no freshest-CRL extension or it lists no URL; otherwise it is the result of a successful download from one of the parsed URLs tried in order, and exhausting them returns the last (non-nil) error — never a base-only bundle; the not-found sentinel is produced only in those two cases; (5) the download helper succeeds only for an http URL, request with the caller's context, status 200, body read under the 32 MiB cap and smaller than it, and returns ParseRevocationList of those bytes; (6) Fetch and its callees write no receiver field and no package-level variable, so a Fetch is determined by the cache content and the server answers during the call: histories reduce to the single-step rules. The Cache implementation and clocks are the caller's."
	c.Assume = append(c.Assume, "the caller's crl.Cache honours its interface", "net/http honours the request context and client timeout")
	D := downloadRules(c, "O-C18.5")
	psites := c.P.callSites(func(n string) bool { return n == "(*golang.org/x/crypto/cryptobyte.String).ReadOptionalASN1" })
	P := ""
	for _, s := range psites {
		if strings.HasSuffix(s.Fn.Pkg.PkgPath, "/revocation/crl") {
			P = c.P.abbrev(s.Fn.Obj.FullName())
		}
	}
	// the parser proper is the function from the extension value to the list of locations, however
	// its body is split into helpers
	for _, fs := range c.P.productFuncs() {
		if !strings.HasSuffix(fs.Pkg.PkgPath, "/revocation/crl") {
			continue
		}
		sig := fs.Obj.Type().(*types.Signature)
		if sig.Params().Len() == 1 && sig.Results().Len() == 2 && c.P.typeStr(sig.Params().At(0).Type()) == "[]byte" && c.P.typeStr(sig.Results().At(0).Type()) == "[]string" {
			P = c.P.abbrev(fs.Obj.FullName())
		}
	}
	if D == "" || P == "" {
		c.undecided("O-C18", "helpers", "download helper or distribution-point parser not found", "")
		return
	}
	pg := c.pgOfNI(fetchFn, D, P)
	if pg == nil {
		return
	}
	G := "(ncg/revocation/crl.Cache).Get(recv.Cache, p0, p1)"
	cached, gerr := G+"#0", G+"#1"
	base := D + "(p0, p1, recv.httpClient)"
	b0, berr := base+"#0", base+"#1"
	noFreshest := extAbsent(b0+".Extensions", oidFreshest)
	urls := P + "(" + extValue(b0+".Extensions") + ")#0"
	perr := P + "(" + extValue(b0+".Extensions") + ")#1"
	delta := D + "(p0, re(" + urls + "), recv.httpClient)"
	// the not-found sentinel: an unexported package-level error referenced only where it is
	// produced (return operands) and where it is compared (errors.Is). Hence no other
	// error value can satisfy errors.Is(_, sentinel): those edges are infeasible.
	sentinel := ""
	for _, a := range pg.AtomSet() {
		if strings.HasPrefix(a, "+ErrIs(") && !strings.Contains(a, "ErrCacheMiss") {
			i := strings.LastIndex(a, ", ")
			sentinel = strings.TrimSuffix(a[i+2:], ")")
		}
	}
	if sentinel == "" {
		// every test against it was decided by the loader's sentinel oracle: find it in the source
		for _, cs := range c.P.callSites(func(n string) bool { return n == "errors.Is" }) {
			if !strings.HasSuffix(cs.Fn.Pkg.PkgPath, "/revocation/crl") || len(cs.Call.Args) != 2 {
				continue
			}
			if id := rootIdent(cs.Call.Args[1]); id != nil {
				if v, ok := cs.Fn.Pkg.TypesInfo.Uses[id].(*types.Var); ok && isPkgLevel(v) && !v.Exported() {
					sentinel = c.P.abbrev(v.Pkg().Path()) + "." + v.Name()
				}
			}
		}
	}
	c.add("O-C18.4", "not-found sentinel identified", "the delta-not-found sentinel is a package-level error value", strings.HasPrefix(sentinel, "ncg/revocation/crl."), "", "sentinel: "+sentinel)
	if sentinel != "" {
		okUses, badUses := sentinelUses(c, sentinel)
		c.add("O-C18.4", "sentinel is private to its producers and its test", "the not-found sentinel is unexported and referenced only as a returned value and as the target of errors.Is", len(badUses) == 0 && okUses >= 3, "", badUses...)
		if len(badUses) == 0 && okUses >= 3 {
			inf := AG("+ErrIs(*, " + sentinel + ")")
			pg.Infeasible = &inf
		}
	}
	cachedRets := returnsWhere(pg, func(s *PState) bool { return retNilErr(s, 1) && retKey(s, 0) == cached })
	freshRets := returnsWhere(pg, func(s *PState) bool {
		return retNilErr(s, 1) && (strings.HasPrefix(retKey(s, 0), "&{ncg/revocation/crl.Bundle ") || strings.HasPrefix(retKey(s, 0), "(ncg/revocation/crl.Cache).Set(recv.Cache, p0, p1, &{ncg/revocation/crl.Bundle "))
	})
	var otherOK []*PState
	for _, s := range pg.Returns() {
		if retNilErr(s, 1) {
			in := false
			for _, x := range append(append([]*PState{}, cachedRets...), freshRets...) {
				if x == s {
					in = true
				}
			}
			if !in {
				otherOK = append(otherOK, s)
			}
		}
	}
	var odet []string
	for _, s := range otherOK {
		odet = append(odet, c.P.pos(s.Node.Pos)+": "+retKey(s, 0))
	}
	c.add("O-C18.1", "only two kinds of success", "a successful Fetch returns either the cached bundle or a freshly built bundle", len(otherOK) == 0, "", odet...)
	c.floor("cached-bundle returns", 1, len(cachedRets))
	c.floor("fresh-bundle returns", 2, len(freshRets))
	// (1)
	for _, g := range []req{
		{"a cache is configured", A("-IsNil(recv.Cache)")},
		{"cache read succeeded", A("+IsNil(" + gerr + ")")},
		{"cached base CRL not past next-update", A("-TLt(" + cached + ".BaseCRL.NextUpdate, time.Now())")},
		{"cached delta CRL absent or not past next-update", AnyOf(A("+IsNil("+cached+".DeltaCRL)"), A("-TLt("+cached+".DeltaCRL.NextUpdate, time.Now())"))},
	} {
		c.mustPass(pg, "O-C18.1", "cached: "+g.name, "returning the cached bundle", cachedRets, g.lp)
	}
	// (2)
	for _, x := range []string{"+IsNil(recv.Cache)", "-IsNil(" + gerr + ")", "+TLt(" + cached + ".BaseCRL.NextUpdate, time.Now())", "+TZero(" + cached + ".BaseCRL.NextUpdate)", "+TLt(" + cached + ".DeltaCRL.NextUpdate, time.Now())", "+TZero(" + cached + ".DeltaCRL.NextUpdate)"} {
		if len(edgeTargets(pg, A(x))) == 0 {
			c.add("O-C18.2", "staleness test present "+x, "the fetcher tests "+x[1:], false, "")
			continue
		}
		c.noPathFrom(pg, "O-C18.2", "no cached bundle after "+x, "after "+x+" the cached bundle is not returned", A(x), cachedRets, nil)
	}
	origins := errorOrigins(pg, 1)
	getErr := filterOrigins(origins, func(o *origin) bool { return strings.Contains(o.Key, gerr) })
	c.floor("cache-read error origins", 1, len(getErr))
	c.justify(pg, "O-C18.2B", getErr, []Viol{{Name: "cache read failed with something else than a miss and errors are not discarded", All: []LP{A("-IsNil(recv.Cache)"), A("-IsNil(" + gerr + ")"), A("-ErrIs(" + gerr + ", ncg/revocation/crl.ErrCacheMiss)"), A("-Truth(recv.DiscardCacheError)")}}}, originName)
	var getErrStates []*PState
	for _, o := range getErr {
		getErrStates = append(getErrStates, o.States...)
	}
	c.noPathFrom(pg, "O-C18.2", "a miss is never an error", "after ErrCacheMiss no cache-read error is returned", A("+ErrIs("+gerr+", ncg/revocation/crl.ErrCacheMiss)"), getErrStates, nil)
	c.noPathFrom(pg, "O-C18.2", "a discarded cache error is never returned", "with DiscardCacheError no cache-read error is returned", A("+Truth(recv.DiscardCacheError)"), getErrStates, nil)
	// (3)
	c.mustPass(pg, "O-C18.3", "fresh: base download succeeded", "returning a fresh bundle", freshRets, A("+IsNil("+berr+")"))
	setG := "(ncg/revocation/crl.Cache).Set(recv.Cache, p0, p1, &{ncg/revocation/crl.Bundle BaseCRL:" + b0 + " DeltaCRL:*})"
	// (a bundle literal that leaves the delta out is a bundle whose delta is nil)
	setG0 := "(ncg/revocation/crl.Cache).Set(recv.Cache, p0, p1, &{ncg/revocation/crl.Bundle BaseCRL:" + b0 + "})"
	c.mustPass(pg, "O-C18.3", "fresh: written to the cache under the same URL", "returning a fresh bundle", freshRets, AnyOf(A("+IsNil(recv.Cache)"), CallG(setG), CallG(setG0)))
	c.mustPass(pg, "O-C18.3", "fresh: cache write succeeded or errors discarded", "returning a fresh bundle", freshRets, AnyOf(A("+IsNil(recv.Cache)"), AG("+IsNil("+setG+")"), AG("+IsNil("+setG0+")"), A("+Truth(recv.DiscardCacheError)")))
	setErr := filterOrigins(origins, func(o *origin) bool { return strings.Contains(o.Key, ".Set(recv.Cache") })
	c.floor("cache-write error origins", 1, len(setErr))
	c.justify(pg, "O-C18.3B", setErr, []Viol{{Name: "cache write failed and errors are not discarded", All: []LP{A("-IsNil(recv.Cache)"), AnyOf(AG("-IsNil("+setG+")"), AG("-IsNil("+setG0+")")), A("-Truth(recv.DiscardCacheError)")}}}, originName)
	// what is written is what is returned; base is the download of the asked URL
	good := len(freshRets) > 0
	var fdet []string
	for _, s := range freshRets {
		k := retKey(s, 0)
		lit := k
		if strings.HasPrefix(k, "(ncg/revocation/crl.Cache).Set(") {
			lit = strings.TrimSuffix(strings.TrimPrefix(k, "(ncg/revocation/crl.Cache).Set(recv.Cache, p0, p1, "), ")!3")
		}
		if !globMatch("&{ncg/revocation/crl.Bundle BaseCRL:"+b0+" DeltaCRL:*}", lit) && lit != "&{ncg/revocation/crl.Bundle BaseCRL:"+b0+"}" {
			good = false
			fdet = append(fdet, c.P.pos(s.Node.Pos)+": "+k)
		}
	}
	c.add("O-C18.3", "fresh bundle holds the downloaded base", "the bundle returned (and cached) has BaseCRL = the download of the requested URL", good, posOf(pg, freshRets), fdet...)
	// (4) delta
	var nilDelta, withDelta []*PState
	for _, s := range freshRets {
		k := retKey(s, 0)
		switch {
		case strings.Contains(k, " DeltaCRL:nil}"), strings.Contains(k, "&{ncg/revocation/crl.Bundle BaseCRL:"+b0+"}"):
			nilDelta = append(nilDelta, s)
		case strings.Contains(k, " DeltaCRL:"+delta+"#0}"):
			withDelta = append(withDelta, s)
		default:
			c.add("O-C18.4", "delta is the download of an advertised URL", "the bundle's delta is nil or the CRL downloaded from one of the base's freshest-CRL URLs", false, c.P.pos(s.Node.Pos), k)
		}
	}
	c.floor("base-only bundles", 1, len(nilDelta))
	c.floor("bundles with delta", 1, len(withDelta))
	c.mustPass(pg, "O-C18.4", "base-only bundle only when no delta is advertised", "returning a bundle without delta", nilDelta, AnyOf(noFreshest, A("+Empty("+urls+")")))
	c.noPathFrom(pg, "O-C18.4", "no base-only bundle after trying the advertised URLs", "after the advertised delta URLs were tried a bundle without delta is not returned", RangeNext(urls), nilDelta, nil)
	c.noPathFrom(pg, "O-C18.4", "no base-only bundle after a parse failure", "after the freshest-CRL extension failed to parse no bundle is returned", A("-IsNil("+perr+")"), freshRets, nil)
	c.mustPass(pg, "O-C18.4", "delta bundle needs a successful delta download", "returning a bundle with delta", withDelta, A("+IsNil("+delta+"#1)"))
	c.mustPass(pg, "O-C18.4", "delta URLs come from the base's freshest-CRL extension", "returning a bundle with delta", withDelta, A("+IsNil("+perr+")"))
	// first advertised location that answers: immediate return on success, plain ascending range
	c.noPathFrom(pg, "O-C18.4", "first answering location wins", "after a delta download succeeded no further location is tried", A("+IsNil("+delta+"#1)"), edgeSources(pg, RangeNext(urls)), nil)
	// ... and its answer is what Fetch goes on with: no failure between the successful download
	// and the cache write (an earlier location's error must not outlive a later success)
	afterSet := AnyOf(CallG(setG), CallG(setG0))
	c.noPathFrom(pg, "O-C18.4", "an answering location is not discarded", "after a delta download succeeded Fetch does not fail before the bundle is written to the cache", A("+IsNil("+delta+"#1)"), returnsWhere(pg, func(s *PState) bool { return !retNilErr(s, 1) }), &afterSet)
	// every failed location leads to the next one or to an error (never silently dropped)
	c.perIteration(pg, "O-C18.4", "a location is skipped only after its download failed", "the loop moves to the next location only after the download from this one failed", urls, A("-IsNil("+delta+"#1)"))
	// sentinel origins
	if sentinel != "" {
		isSent := LP{Desc: "produce the not-found sentinel", F: func(l Label) bool {
			return l.Kind == "assign" && l.Node != nil && l.Node.Note == "ret" && l.T2 != nil && l.T2.Key() == sentinel
		}}
		tg := edgeTargets(pg, isSent)
		c.floor("sentinel origins", 2, len(distinctEdgeNodes(pg, isSent)))
		c.mustPass(pg, "O-C18.4", "sentinel only when no delta is advertised", "producing the not-found sentinel", tg, AnyOf(noFreshest, A("+Empty("+urls+")")))
	}
	// (6)
	checkNoSharedState(c, "O-C18.6")
	parserExhaustsInput(c)
	parserFailsOnBadRead(c)
	cachedBundleNotWritten(c, "O-C18.6")
}

// cachedBundleNotWritten: the fetcher (helpers inlined) stores nothing into the
// object it got from Cache.Get: that object is shared with every other check
// that reads the same cache entry, possibly at this very moment.
func cachedBundleNotWritten(c *Check, rule string) {
	pg := c.pgOf(fetchFn)
	if pg == nil {
		return
	}
	var bad []string
	nget := 0
	for _, s := range pg.States {
		for _, e := range s.Out {
			for _, l := range e.Labels {
				if l.Kind == "call" && strings.HasPrefix(l.Key, "(ncg/revocation/crl.Cache).Get(") {
					nget++
				}
				if (l.Kind == "store" || l.Kind == "lstore") && strings.HasPrefix(l.Key, "(ncg/revocation/crl.Cache).Get(") {
					bad = append(bad, c.P.pos(l.Node.Pos)+": "+l.String())
				}
			}
		}
	}
	c.floor("Cache.Get call edges in Fetch", 1, nget)
	c.add(rule, "the cached bundle is never modified", "Fetch and its helpers store nothing into the bundle returned by Cache.Get (it is shared with concurrent checks; a refreshed delta must go into a new bundle)", len(bad) == 0, "", dedupe(sortedCopy(bad))...)
}

// parserExhaustsInput: O-C18.4. The parser of the freshest-CRL extension returns
// its list only after the whole extension was read: its outer loop is left only
// by its own condition or by an error return - a break would silently drop the
// locations that follow (and with them the delta CRL).
func parserExhaustsInput(c *Check) {
	n := 0
	for _, fs := range c.P.productFuncs() {
		if !strings.HasSuffix(fs.Pkg.PkgPath, "/revocation/crl") {
			continue
		}
		sig := fs.Obj.Type().(*types.Signature)
		if sig.Params().Len() != 1 || sig.Results().Len() != 2 || c.P.typeStr(sig.Params().At(0).Type()) != "[]byte" || c.P.typeStr(sig.Results().At(0).Type()) != "[]string" {
			continue
		}
		n++
		var bad []string
		var walk func(nd ast.Node, outer ast.Stmt, inner ast.Stmt, outerLabel string)
		walk = func(nd ast.Node, outer ast.Stmt, inner ast.Stmt, outerLabel string) {
			ast.Inspect(nd, func(m ast.Node) bool {
				if m == nil || m == nd {
					return true
				}
				switch x := m.(type) {
				case *ast.FuncLit:
					return false
				case *ast.LabeledStmt:
					if _, isLoop := x.Stmt.(*ast.ForStmt); isLoop && outer == nil {
						walk(x.Stmt.(*ast.ForStmt).Body, x.Stmt, x.Stmt, x.Label.Name)
						return false
					}
				case *ast.ForStmt:
					if outer == nil {
						walk(x.Body, x, x, "")
					} else {
						walk(x.Body, outer, x, outerLabel)
					}
					return false
				case *ast.RangeStmt:
					if outer == nil {
						walk(x.Body, x, x, "")
					} else {
						walk(x.Body, outer, x, outerLabel)
					}
					return false
				case *ast.SwitchStmt, *ast.TypeSwitchStmt, *ast.SelectStmt:
					if outer != nil {
						walk(x, outer, x.(ast.Stmt), outerLabel)
						return false
					}
				case *ast.BranchStmt:
					if x.Tok == token.BREAK && outer != nil {
						if (x.Label == nil && inner == outer) || (x.Label != nil && x.Label.Name == outerLabel && outerLabel != "") {
							bad = append(bad, c.P.pos(x.Pos())+": break leaves the outer parsing loop")
						}
					}
				}
				return true
			})
		}
		walk(fs.Decl.Body, nil, nil, "")
		c.add("O-C18.4", "distribution-point parser reads the whole extension", "the outer loop of "+fs.Obj.Name()+" is left only by its own condition or by an error return (a break would drop the locations that follow)", len(bad) == 0, c.P.pos(fs.Decl.Pos()), bad...)
	}
	c.floor("distribution-point parsers", 1, n)
}

var outArgSuffix = regexp.MustCompile(`![0-9]+\)$`)

// parserFailsOnBadRead (O-C18.4): in the distribution-point parser a DER read
// that failed (ReadASN1*/ReadOptionalASN1* returned false) is never followed
// by a successful return: malformed bytes are an error, not the end of the list.
func parserFailsOnBadRead(c *Check) {
	n := 0
	for _, fs := range c.P.productFuncs() {
		if !strings.HasSuffix(fs.Pkg.PkgPath, "/revocation/crl") {
			continue
		}
		sig := fs.Obj.Type().(*types.Signature)
		if sig.Params().Len() != 1 || sig.Results().Len() != 2 || c.P.typeStr(sig.Params().At(0).Type()) != "[]byte" || c.P.typeStr(sig.Results().At(0).Type()) != "[]string" {
			continue
		}
		pg := c.pgOf(c.P.abbrev(fs.Obj.FullName()))
		if pg == nil {
			continue
		}
		n++
		failed := LP{Desc: "a DER read failed", F: func(l Label) bool {
			// the result of the read itself, not one of its out-parameters (…!2)
			return l.Kind == "atom" && !l.Pol && !l.Implied && strings.HasPrefix(l.Key, "Truth((*golang.org/x/crypto/cryptobyte.String).Read") && !outArgSuffix.MatchString(l.Key)
		}}
		c.floor(fs.Obj.Name()+" failed-read edges", 3, len(edgeSources(pg, failed)))
		okRets := returnsWhere(pg, func(s *PState) bool { return retNilErr(s, 1) })
		c.floor(fs.Obj.Name()+" successful returns", 1, len(okRets))
		// every name of a distribution point is looked at: the statement that collects a location sits
		// under two loops (distribution points, names of one point), counted through helper calls - an
		// `if` in place of the inner loop keeps only the first location of each point, and the others
		// are never tried when it fails
		depths := collectDepths(c, fs)
		okDepth := len(depths) > 0
		var dd []string
		for where, d := range depths {
			if d < 2 {
				okDepth = false
				dd = append(dd, fmt.Sprintf("%s: under %d loop(s)", where, d))
			}
		}
		c.add("O-C18.4", fs.Obj.Name()+": every name of a distribution point is examined", "each location is collected inside a loop over the names of a distribution point inside a loop over the distribution points", okDepth, c.P.pos(fs.Decl.Pos()), sortedCopy(dd)...)
		c.noPathFrom(pg, "O-C18.4", fs.Obj.Name()+": a failed DER read is an error", "after a DER read failed the parser does not return successfully (with the locations read so far, or none)", failed, okRets, nil)
	}
	c.floor("distribution-point parsers (read discipline)", 1, n)
}

// localOnlyReturnedOrTested: every use of the local error variable v is an
// operand of return, the first argument of errors.Is, a comparison with nil, or
// an assignment to v itself.
func localOnlyReturnedOrTested(info *types.Info, file *ast.File, v *types.Var) bool {
	ok := true
	var stack []ast.Node
	ast.Inspect(file, func(nd ast.Node) bool {
		if nd == nil {
			stack = stack[:len(stack)-1]
			return true
		}
		stack = append(stack, nd)
		id, isId := nd.(*ast.Ident)
		if !isId || (info.Uses[id] != v && info.Defs[id] != v) || len(stack) < 2 {
			return true
		}
		switch p := stack[len(stack)-2].(type) {
		case *ast.ReturnStmt:
		case *ast.AssignStmt:
			isLHS := false
			for _, l := range p.Lhs {
				if l == ast.Expr(id) {
					isLHS = true
				}
			}
			if !isLHS {
				ok = false
			}
		case *ast.ValueSpec:
		case *ast.BinaryExpr:
			other := p.X
			if other == ast.Expr(id) {
				other = p.Y
			}
			if tv, has := info.Types[other]; !has || !tv.IsNil() {
				ok = false
			}
		case *ast.CallExpr:
			fn, isFn := typeutil.Callee(info, p).(*types.Func)
			if !isFn || fn.FullName() != "errors.Is" || len(p.Args) != 2 || p.Args[0] != ast.Expr(id) {
				ok = false
			}
		default:
			ok = false
		}
		return true
	})
	return ok
}

// collectDepths: for every statement `x = append(x, string(<cryptobyte.String>))` in the call tree of
// the parser fs, the number of loops it is under - in its own function plus, through the (single)
// chain of calls up to fs, the loops around each call.
func collectDepths(c *Check, fs *FuncSrc) map[string]int {
	out := map[string]int{}
	loopsAround := func(body *ast.BlockStmt, pos token.Pos) int {
		n := 0
		ast.Inspect(body, func(m ast.Node) bool {
			switch x := m.(type) {
			case *ast.ForStmt:
				if x.Body.Pos() <= pos && pos <= x.Body.End() {
					n++
				}
			case *ast.RangeStmt:
				if x.Body.Pos() <= pos && pos <= x.Body.End() {
					n++
				}
			}
			return true
		})
		return n
	}
	var visit func(f *FuncSrc, above int, depth int)
	visit = func(f *FuncSrc, above int, depth int) {
		if depth > 6 {
			return
		}
		info := f.Pkg.TypesInfo
		ast.Inspect(f.Decl.Body, func(m ast.Node) bool {
			switch x := m.(type) {
			case *ast.AssignStmt:
				if len(x.Rhs) != 1 {
					return true
				}
				call, ok := ast.Unparen(x.Rhs[0]).(*ast.CallExpr)
				if !ok || len(call.Args) != 2 || call.Ellipsis.IsValid() {
					return true
				}
				if id, ok := call.Fun.(*ast.Ident); !ok || id.Name != "append" {
					return true
				}
				conv, ok := ast.Unparen(call.Args[1]).(*ast.CallExpr)
				if !ok || len(conv.Args) != 1 {
					return true
				}
				if tv, ok := info.Types[conv.Fun]; !ok || !tv.IsType() {
					return true
				}
				if at := info.TypeOf(conv.Args[0]); at == nil || !strings.HasSuffix(at.String(), "cryptobyte.String") {
					return true
				}
				out[c.P.pos(x.Pos())] = above + loopsAround(f.Decl.Body, x.Pos())
			case *ast.CallExpr:
				if fn, ok := typeutil.Callee(info, x).(*types.Func); ok {
					if cf := c.P.Funcs[fn.Origin()]; cf != nil && cf != f && isProductPkg(cf.Pkg.PkgPath, c.P.ModPath) {
						visit(cf, above+loopsAround(f.Decl.Body, x.Pos()), depth+1)
					}
				}
			}
			return true
		})
	}
	visit(fs, 0, 0)
	return out
}

func pgHasAtom(pg *PG, a string) bool {
	for _, x := range pg.AtomSet() {
		if x == a {
			return true
		}
	}
	return false
}
