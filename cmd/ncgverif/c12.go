package main

import (
	"strings"
)

// slotRules: O-C12.1/.2/.3 on one fan-out entry point.
func slotRules(c *Check, v *valTerms, name string) {
	pg := v.pg
	rule := "O-C12"
	okRets := returnsWhere(pg, func(s *PState) bool { return retNilErr(s, 1) })
	c.floor(name+" success returns", 1, len(okRets))
	// .1 chain first
	empty := A("+Empty(" + v.chain + ")")
	vc := chainValFn + "(" + v.chain + ", " + v.purpose + ")"
	emptyRets := returnsWhere(pg, func(s *PState) bool {
		return retKey(s, 0) == "nil" && retHasType(s, 1, "ncg/revocation/result.InvalidChainError")
	})
	if len(edgeTargets(pg, empty)) > 0 {
		c.floor(name+" empty-chain returns", 1, len(emptyRets))
		c.mustPass(pg, rule+".1", name+": empty chain is an invalid-chain error", "the InvalidChainError literal", emptyRets, empty)
		nonInv := returnsWhere(pg, func(s *PState) bool {
			return !(retKey(s, 0) == "nil" && retHasType(s, 1, "ncg/revocation/result.InvalidChainError"))
		})
		c.noPathFrom(pg, rule+".1", name+": empty chain yields nothing else", "after the chain was found empty only (nil, InvalidChainError) is returned", empty, nonInv, nil)
	} else if full := c.pgOfNI(v.fn, ocspCheckFn, crlCheckFn); full != nil {
		// no test of its own: the chain validator (inlined here) must refuse the empty chain,
		// and its failures are returned as (nil, error) below
		ok2 := returnsWhere(full, func(s *PState) bool { return retNilErr(s, 1) })
		c.mustPass(full, rule+".1", name+": empty chain is refused by the chain validator", "returning results", ok2, A("-Empty("+v.chain+")"))
	}
	vcFail := A("-IsNil(" + vc + ")")
	failRets := returnsWhere(pg, func(s *PState) bool { return retKey(s, 0) == "nil" && retKey(s, 1) == vc })
	c.floor(name+" chain-validation failure returns", 1, len(failRets))
	others := returnsWhere(pg, func(s *PState) bool { return !(retKey(s, 0) == "nil" && retKey(s, 1) == vc) })
	c.noPathFrom(pg, rule+".1", name+": chain validation failure returns that error and no results", "after chain validation failed only (nil, that error) is returned", vcFail, others, nil)
	work := AnyOf(LP{Desc: "go", F: func(l Label) bool { return l.Kind == "go" }}, CallTo(ocspCheckFn), CallTo(crlCheckFn),
		LP{Desc: "slot store", F: func(l Label) bool {
			return (l.Kind == "store" || l.Kind == "lstore") && strings.HasPrefix(l.Key, v.R+"[")
		}})
	workSrc := edgeSources(pg, work)
	c.floor(name+" work edges", 3, len(workSrc))
	if len(edgeTargets(pg, empty)) > 0 {
		c.mustPass(pg, rule+".1", name+": nothing before the chain is non-empty", "spawning, checking or storing a result", workSrc, A("-Empty("+v.chain+")"))
	} // otherwise non-emptiness follows from the validated chain (next rule and the rule above)
	c.mustPass(pg, rule+".1", name+": nothing before the chain validated for the purpose", "spawning, checking or storing a result", workSrc, A("+IsNil("+vc+")"))
	c.mustPass(pg, rule+".1", name+": success only for a validated chain", "returning results", okRets, A("+IsNil("+vc+")"))
	// .2 one slot per certificate
	good := len(okRets) > 0
	var det []string
	for _, s := range okRets {
		if retKey(s, 0) != v.R {
			good = false
			det = append(det, "returns "+retKey(s, 0))
		}
	}
	c.add(rule+".2", name+": result slice sized to the chain", "the slice returned is make([]*CertRevocationResult, len(chain)) of the validated chain, returned as it is", good, posOf(pg, okRets), det...)
	slot := v.R + "[" + v.i + "]"
	rootSlot := v.R + "[(len(" + v.chain + ") - 1)]"
	var badIdx []string
	nstores := 0
	for _, s := range pg.States {
		for _, e := range s.Out {
			for _, l := range e.Labels {
				if (l.Kind == "store" || l.Kind == "lstore") && strings.HasPrefix(l.Key, v.R+"[") {
					nstores++
					if l.Key != slot && l.Key != rootSlot {
						badIdx = append(badIdx, c.P.pos(l.Node.Pos)+": "+l.Key)
					}
				}
				if l.Kind == "assign" && l.T2 != nil && strings.HasPrefix(l.T2.Key(), "append("+v.R) {
					badIdx = append(badIdx, c.P.pos(l.Node.Pos)+": result slice appended to")
				}
			}
		}
	}
	c.add(rule+".2", name+": stores hit the certificate's own slot", "every store into the result slice is at the loop's own index or at the root index len(chain)-1", len(badIdx) == 0 && nstores >= 2, "", badIdx...)
	c.perIteration(pg, rule+".2", name+": every non-root certificate gets its slot", "each iteration over chain[:len-1] stores a result at its own index", v.L, StoreTo(slot))
	c.mustPass(pg, rule+".2", name+": all non-root certificates visited", "returning results", okRets, RangeDone(v.L))
	c.onlyAfterExhaustion(pg, rule+".2", name+": no return from inside the loop", "returning results", v.L, okRets)
	isNonRev := func(k string) bool {
		return strings.HasPrefix(k, "&{ncg/revocation/result.CertRevocationResult Result:2 ") && strings.Contains(k, "&{ncg/revocation/result.ServerResult") && strings.Contains(k, "Result:2")
	}
	c.mustPass(pg, rule+".2", name+": root slot is NonRevokable", "returning results", okRets, isStoreOf(rootSlot, isNonRev))
	// no other value is ever stored in the root slot
	var badRoot []string
	for _, s := range pg.States {
		for _, e := range s.Out {
			for _, l := range e.Labels {
				if (l.Kind == "store" || l.Kind == "lstore") && l.Key == rootSlot && !isNonRev(l.T2.Key()) {
					badRoot = append(badRoot, c.P.pos(l.Node.Pos)+": "+l.T2.Key())
				}
			}
		}
	}
	c.add(rule+".2", name+": root slot only ever NonRevokable", "the last slot receives nothing but the NonRevokable literal", len(badRoot) == 0, "", badRoot...)
	// .3 the checkers are called for (cert_i, chain[i+1])
	ncalls := 0
	var badCalls []string
	for _, s := range pg.States {
		for _, e := range s.Out {
			for _, l := range e.Labels {
				if l.Kind == "call" && l.T != nil && (l.T.Name == ocspCheckFn || l.T.Name == crlCheckFn) {
					ncalls++
					if len(l.T.Args) < 3 || l.T.Args[1].Key() != v.cert || l.T.Args[2].Key() != v.issuer {
						badCalls = append(badCalls, c.P.pos(l.Node.Pos)+": "+l.Key)
					}
				}
			}
		}
	}
	c.add(rule+".3", name+": checkers get (certificate i, certificate i+1)", "each per-certificate checker is called with the loop's certificate and chain[i+1] as issuer", len(badCalls) == 0 && ncalls > 0, "", badCalls...)
	// each value stored at slot i is a checker result for this iteration or a literal
	var badVal []string
	for _, s := range pg.States {
		for _, e := range s.Out {
			for _, l := range e.Labels {
				if (l.Kind == "store" || l.Kind == "lstore") && l.Key == slot {
					k := l.T2.Key()
					if !(k == v.OC || k == v.CC || k == "nil" || isNonRev(k)) {
						badVal = append(badVal, c.P.pos(l.Node.Pos)+": "+k)
					}
				}
			}
		}
	}
	c.add(rule+".3", name+": slot i holds the result computed for certificate i", "what is stored at index i is the result of a checker called for certificate i in this iteration (or the NonRevokable literal)", len(badVal) == 0, "", badVal...)
}

func checkC12(c *Check) {
	c.Explain = "C12: both fan-out entry points (validator ValidateContext and ocsp.CheckStatus), per-method checkers opaque: (1) an empty chain returns (nil, InvalidChainError); a chain failing x509util.ValidateChain(chain, configured purpose) returns (nil, that error); nothing is spawned, checked or stored before both tests passed; ValidateChain wraps every failure in InvalidChainError and maps CodeSigning/Timestamping to the two validators (nil signing time), anything else to an error; (2) the slice returned is make(len(chain)), never appended to or re-sliced; every iteration over chain[:len-1] stores at its own index, the root index gets the NonRevokable literal, no other index is written; (3) the checker for index i receives (chain[i], chain[i+1]) and only its result (or a literal) is stored at i; inside the internal packages every Server field is an element of that certificate's own URL list or empty; (4) every verdict literal agrees with its nested server result; the CRL OK list holds only OK entries; the OCSP aggregate keeps only Unknown entries and its verdict is the last entry's. Not decided: aliasing by callers."
	fn := validatorMethod(c)
	if fn == "" {
		return
	}
	v := fanoutGraph(c, fn, "p1.CertChain", "p0", "recv.certChainPurpose")
	if v != nil {
		slotRules(c, v, "validator")
	}
	o := fanoutGraph(c, standalone, "p0.CertChain", "", "p0.CertChainPurpose")
	if o != nil {
		slotRules(c, o, "standalone OCSP")
	}
	// Validate forwards its arguments
	vfn := strings.Replace(fn, ".ValidateContext", ".Validate", 1)
	if vpg := c.pgOfNI(vfn, fn); vpg != nil {
		good := false
		for _, s := range vpg.Returns() {
			k := retKey(s, 0)
			if strings.HasPrefix(k, fn+"(recv, context.Background(), {ncg/revocation.ValidateContextOptions AuthenticSigningTime:p1 CertChain:p0})") {
				good = true
			} else {
				good = false
				break
			}
		}
		c.add("O-C12.1", "Validate forwards to ValidateContext", "Validate returns ValidateContext(background, {CertChain: chain, AuthenticSigningTime: time}) unchanged", good, c.P.pos(vpg.G.Root.Decl.Pos()))
	}
	// the configured purpose: constructors
	if npg := c.pgOf(newWithOpts); npg != nil {
		ok := returnsWhere(npg, func(s *PState) bool { return retNilErr(s, 1) })
		c.mustPass(npg, "O-C12.1", "validator purpose is one of the two", "constructing a validator", ok, AnyOf(A("+Eq(0, p0.CertChainPurpose)"), A("+Eq(1, p0.CertChainPurpose)")))
		good := len(ok) > 0
		for _, s := range ok {
			t := s.Ret[0].T
			if t.Op == "addr" {
				t = t.Args[0]
			}
			if f := structGet(t, "certChainPurpose"); f == nil || f.Key() != "p0.CertChainPurpose" {
				good = false
			}
		}
		c.add("O-C12.1", "validator keeps the configured purpose", "the validator's purpose field is the option's CertChainPurpose", good, posOf(npg, ok))
	}
	// ValidateChain: routing table and error type
	if vpg := c.pgOfNI(chainValFn, "ncg/x509.ValidateCodeSigningCertChain", "ncg/x509.ValidateTimestampingCertChain"); vpg != nil {
		ok := returnsWhere(vpg, func(s *PState) bool { return retNilErr(s, 0) })
		c.floor("ValidateChain success returns", 1, len(ok))
		c.mustPass(vpg, "O-C12.1", "ValidateChain: purpose is CodeSigning or Timestamping", "accepting a chain", ok, AnyOf(A("+Eq(0, p1)"), A("+Eq(1, p1)")))
		c.mustPass(vpg, "O-C12.1", "ValidateChain: CodeSigning uses the code-signing validator", "accepting a chain", ok, AnyOf(A("-Eq(0, p1)"), A("+IsNil(ncg/x509.ValidateCodeSigningCertChain(p0, nil))")))
		c.mustPass(vpg, "O-C12.1", "ValidateChain: Timestamping uses the timestamping validator", "accepting a chain", ok, AnyOf(A("+Eq(0, p1)"), A("-Eq(1, p1)"), A("+IsNil(ncg/x509.ValidateTimestampingCertChain(p0))")))
		allInv := true
		var det []string
		for _, o := range errorOrigins(vpg, 0) {
			if dt, k := dynType(o.Term); !k || dt != "ncg/revocation/result.InvalidChainError" {
				allInv = false
				det = append(det, o.Term.Key())
			}
		}
		c.add("O-C12.1", "ValidateChain errors are InvalidChainError", "every error of ValidateChain is an InvalidChainError literal", allInv, c.P.pos(vpg.G.Root.Decl.Pos()), det...)
	}
	// the fallback merges only an Unknown OCSP result into the CRL result
	if v != nil && v.OC != "" && v.CC != "" {
		merge := LP{Desc: "merge OCSP server results", F: func(l Label) bool {
			return (l.Kind == "store" || l.Kind == "lstore") && l.T2 != nil && strings.Contains(l.T2.Key(), v.OC+".ServerResults") && l.Key != v.R+"["+v.i+"]"
		}}
		c.floor("fallback merge stores", 1, len(edgeSources(v.pg, merge)))
		c.noPathFrom(v.pg, "O-C12.4", "only Unknown OCSP entries are merged into a CRL verdict", "OCSP server results are merged into another result only when the OCSP verdict is Unknown (so OK never coexists with a Revoked entry)", CallKey(v.OC), edgeSources(v.pg, merge), ptr(AnyOf(A("+Eq(0, "+v.OC+".Result)"), RangeNext(v.L))))
	}
	// "exactly one result per certificate": the results are returned only after every started check
	// has stored its slot - the join rules of O-C17.1
	c.floor("join rules (shared with C17)", 4, shareRules(c, checkC17, []string{"O-C17.1"}, "O-C12.2", "join: "))
	// (3) Server fields inside the internal packages
	checkServerFields(c)
	// (4) verdict literals
	if cpg := c.pgOf(crlRoot); cpg != nil {
		checkCRLLiterals(c, cpg, "O-C12.4")
		// one entry per distribution point: an iteration that goes on appended its entry,
		// and the OK verdict is only returned after the last point
		X := "p1.CRLDistributionPoints"
		isAppend := LP{Desc: "append the point's entry to the accumulated server results", F: func(l Label) bool {
			return l.Kind == "assign" && l.T2 != nil && l.T2.Op == "call" && l.T2.Name == "append" && len(l.T2.Args) == 2 && l.T != nil && l.T.V != nil && l.T2.Args[0].Op == "self"
		}}
		c.floor("CRL entry append sites", 1, len(distinctEdgeNodes(cpg, isAppend)))
		c.perIteration(cpg, "O-C12.4", "CRL: every distribution point that lets the check go on contributes one entry", "an iteration over the distribution points that continues with the next point has appended exactly this point's entry", X, isAppend)
		var okRets []*PState
		for _, s := range cpg.Returns() {
			if cl, ok := resultClass(s.Ret[0].T); ok && cl == resOK {
				okRets = append(okRets, s)
			}
		}
		c.onlyAfterExhaustion(cpg, "O-C12.4", "CRL: OK verdict only after the last distribution point", "the OK verdict", X, okRets)
	}
	checkOCSPAggregate(c)
	// OCSP: one decisive entry or one entry per responder (the responder-loop rules of O-C04.4)
	{
		sub := newCheck(c.Prop, c.P, c.Tier)
		sub.depth = c.depth
		checkC04(sub)
		n := 0
		for _, o := range sub.Obls {
			if o.Rule == "O-C04.4" || (!o.OK && (o.Rule == "anchor" || o.Rule == "engine")) {
				n++
				ob := c.add("O-C12.4", "OCSP: "+strings.TrimPrefix(o.Key, o.Rule+"|"), o.Desc, o.OK, o.Where, o.Detail...)
				ob.Undecided = o.Undecided
			}
		}
		c.Searches += sub.Searches
		c.floor("OCSP responder-loop rules (shared with C04)", 4, n)
	}
	for _, vv := range []*valTerms{v, o} {
		if vv == nil {
			continue
		}
		n := 0
		for _, s := range vv.pg.States {
			for _, e := range s.Out {
				for _, l := range e.Labels {
					if (l.Kind == "store" || l.Kind == "lstore") && strings.HasPrefix(l.Key, vv.R+"[") {
						if cl, ok := resultClass(l.T2); ok {
							n++
							el, single := nestedSingle(l.T2)
							ecl, eok := resultClass(el)
							c.add("O-C12.4", "fan-out literal agrees with its server result", "a verdict literal stored by the entry point carries exactly one server result of the same verdict", single && eok && ecl == cl, c.P.pos(l.Node.Pos))
						}
					}
				}
			}
		}
		c.floor(vv.fn+" literal stores", 1, n)
	}
}

// checkServerFields: every Server field of a server result built in the two
// internal packages is an element of the checked certificate's own URL list.
func checkServerFields(c *Check) {
	type spec struct {
		root string
		ok   map[string]bool
	}
	for _, sp := range []spec{
		{crlRoot, map[string]bool{"re(p1.CRLDistributionPoints)": true, "old(re(p1.CRLDistributionPoints))": true, `""`: true, "zero": true}},
		{ocspRoot, map[string]bool{"re(p1.OCSPServer)": true, "old(re(p1.OCSPServer))": true, `""`: true, "zero": true}},
	} {
		pg := c.pgOf(sp.root)
		if sp.root == ocspRoot {
			// modular graph (short terms)
			sites := c.P.callSites(func(n string) bool { return n == "golang.org/x/crypto/ocsp.ParseResponseForCert" })
			if len(sites) == 1 {
				h := sites[0].Fn
				if h2 := ocspExchangeHelper(c); h2 != nil {
					h = h2
				}
				pg = c.pgOfNI(ocspRoot, c.P.abbrev(h.Obj.FullName()))
			}
		}
		if pg == nil {
			continue
		}
		n := 0
		var bad []string
		visit := func(t *Term, where string) {
			t.walk(func(x *Term) {
				if x.Op == "struct" && strings.HasSuffix(x.Name, "result.ServerResult") {
					n++
					sv := structGet(x, "Server")
					if sv == nil || !sp.ok[sv.Key()] {
						k := "?"
						if sv != nil {
							k = sv.Key()
						}
						bad = append(bad, where+": Server="+k)
					}
				}
			})
		}
		for _, s := range pg.Returns() {
			visit(s.Ret[0].T, c.P.pos(s.Node.Pos))
		}
		for _, s := range pg.States {
			for _, e := range s.Out {
				for _, l := range e.Labels {
					if (l.Kind == "store" || l.Kind == "lstore") && l.T2 != nil {
						visit(l.T2, c.P.pos(l.Node.Pos))
					}
				}
			}
		}
		c.add("O-C12.3", sp.root+": server results name the certificate's own URLs", "every Server field is an element of the checked certificate's URL list (or empty)", len(bad) == 0 && n > 0, "", bad...)
		c.floor(sp.root+" server result terms", 3, n)
	}
}

// checkOCSPAggregate: the OCSP aggregate's verdict is its last element's and
// the decisive early return carries one element of the same verdict.
func checkOCSPAggregate(c *Check) {
	sites := c.P.callSites(func(n string) bool { return n == "golang.org/x/crypto/ocsp.ParseResponseForCert" })
	if len(sites) != 1 {
		c.undecided("O-C12.4", "OCSP aggregate", "request helper not found", "")
		return
	}
	h := sites[0].Fn
	if h2 := ocspExchangeHelper(c); h2 != nil {
		h = h2
	}
	pg := c.pgOfNI(ocspRoot, c.P.abbrev(h.Obj.FullName()))
	if pg == nil {
		return
	}
	slice := "make([]*ncg/revocation/result.ServerResult, len(p1.OCSPServer))"
	nag, nearly := 0, 0
	for _, s := range pg.Returns() {
		t := s.Ret[0].T
		if t.Op == "addr" {
			t = t.Args[0]
		}
		sr := structGet(t, "ServerResults")
		res := structGet(t, "Result")
		where := c.P.pos(s.Node.Pos)
		// the accumulated list: the pre-sized slice filled by index, or a list grown by append
		if sr != nil && (sr.Key() == slice || (sr.Op == "call" && sr.Name == "append" && len(sr.Args) == 2 && sr.Args[0].Op == "self")) {
			nag++
			want := sr.Key() + "[(len(" + sr.Key() + ") - 1)].Result"
			c.add("O-C12.4", "OCSP aggregate verdict is the last server's", "the aggregated OCSP result's verdict is the verdict of the last server result of the same list", res != nil && res.Key() == want, where, "Result: "+res.Key())
			continue
		}
		if el, ok := nestedSingle(s.Ret[0].T); ok {
			nearly++
			cl, ok1 := resultClass(s.Ret[0].T)
			ecl, ok2 := resultClass(el)
			c.add("O-C12.4", "OCSP single-entry result agrees with its entry", "an OCSP result with one server result has that entry's verdict", ok1 && ok2 && (cl == ecl || (cl == resNonRevokable && ecl == resNonRevokable)), where)
		}
	}
	c.floor("OCSP aggregate returns", 1, nag)
	c.floor("OCSP single-entry returns", 3, nearly)
}
