package main

// C01: verified content was signed by the leaf key (structure of the
// verification path of both formats).

import (
	"sort"
	"strings"
)

// baseRoots: the set of "recv.base.<access path prefix>" roots a term reads.
func baseRoots(t *Term, depth int) []string {
	m := map[string]bool{}
	var visit func(x *Term) bool
	visit = func(x *Term) bool {
		if x == nil {
			return false
		}
		// maximal access path starting at recv.base
		k := x.Key()
		if strings.HasPrefix(k, "recv.base") && (x.Op == "field" || x.Op == "index" || x.Op == "assert") {
			// cut to depth components after recv.base
			m[cutPath(x, depth)] = true
			return true
		}
		for _, a := range x.Args {
			visit(a)
		}
		return false
	}
	visit(t)
	var out []string
	for k := range m {
		out = append(out, k)
	}
	sort.Strings(out)
	return out
}

// cutPath: the key of the access path x truncated after depth steps below recv.base.
func cutPath(x *Term, depth int) string {
	var chain []*Term
	for t := x; t != nil; {
		chain = append([]*Term{t}, chain...)
		if t.Op == "field" || t.Op == "index" || t.Op == "assert" || t.Op == "deref" {
			t = t.Args[0]
			continue
		}
		break
	}
	// chain[0] is recv (param), chain[1] recv.base, ...
	idx := 1 + depth
	if idx >= len(chain) {
		idx = len(chain) - 1
	}
	return chain[idx].Key()
}

func subset(a []string, allowed map[string]bool) (bool, []string) {
	var bad []string
	for _, x := range a {
		if !allowed[x] {
			bad = append(bad, x)
		}
	}
	return len(bad) == 0, bad
}

func checkC01(c *Check) {
	c.Explain = "C01: structure of the verification path of both formats, decided on every path. (1) The inner Verify returns without error only after the cryptographic check succeeded (JWS: (*jwt.Parser).Parse err == nil; COSE: (*cose.Sign1Message).Verify == nil) and then returns its own Content(). (2) The key handed to the verifier is x509.ParseCertificate(<chain field>[0]).PublicKey with the constant index 0, where <chain field> is the very field from which Content builds SignerInfo.CertificateChain by a plain ascending range. (3) JWS: the token verified is strings.Join([Protected, Payload, Signature], \".\") of the stored envelope; COSE: Verify is called on the stored message with nil external data. (4) What Content returns derives from the same fields: payload only from the payload field, content type / algorithm / signed attributes only from the protected header, signature from the signature field, unsigned attributes only from the unprotected header. (5) The wrapper's Verify requires non-empty Raw, the inner Verify and the post-validation (C07). Signature mathematics and decoder laxity are not decided."
	c.Assume = append(c.Assume, "golang-jwt Parser.Parse verifies parts[0]+'.'+parts[1] against parts[2] with the key the key function returns (v4.5.2)", "go-cose Sign1Message.Verify rebuilds Sig_structure from RawProtected and Payload when external is nil (v1.3.0)")
	fmts := discoverFormats(c)
	c.floor("envelope formats", 2, len(fmts))
	for _, f := range fmts {
		content := f.method("Content")
		// Content may be a presence guard in front of an unguarded helper that does the work; Verify,
		// having made the same test, may call that helper directly: it is "Content" all the same
		core := ""
		if cpg := c.skeleton(content); cpg != nil {
			names := map[string]bool{}
			for _, s := range returnsWhere(cpg, func(s *PState) bool { return retNilErr(s, 1) }) {
				k := retKey(s, 0)
				if strings.HasSuffix(k, "(recv)#0") {
					names[strings.TrimSuffix(k, "(recv)#0")] = true
				} else {
					names["?"] = true
				}
			}
			if len(names) == 1 {
				for n := range names {
					if n != "?" && c.P.fn(n) != nil {
						core = n
					}
				}
			}
		}
		pg := c.pgOfNI(f.method("Verify"), content)
		if core != "" {
			pg = c.pgOfNI(f.method("Verify"), content, core)
		}
		if pg == nil {
			continue
		}
		ok := returnsWhere(pg, func(s *PState) bool { return retNilErr(s, 1) })
		c.floor(f.name+" Verify success returns", 1, len(ok))
		inner := content + "(recv)"
		if core != "" {
			for _, s := range ok {
				if retKey(s, 0) == core+"(recv)#0" {
					inner = core + "(recv)"
				}
			}
		}
		// (1)
		good := len(ok) > 0
		for _, s := range ok {
			if retKey(s, 0) != inner+"#0" {
				good = false
			}
		}
		c.add("O-C01.1", f.name+": Verify returns its own Content()", "on success the inner Verify returns the result of Content() of the same object", good, posOf(pg, ok))
		c.mustPass(pg, "O-C01.1", f.name+": Content succeeded", "Verify returns content", ok, A("+IsNil("+inner+"#1)"))
		var chainField, leafCert string
		switch f.name {
		case "JWS":
			chainField = "recv.base.Header.CertChain"
			leafCert = "crypto/x509.ParseCertificate(" + chainField + "[0])"
			compact := `strings.Join([[]string: recv.base.Protected, recv.base.Payload, recv.base.Signature], ".")`
			parse := "(*github.com/golang-jwt/jwt/v4.Parser).Parse(*, " + compact + ", closure{ret " + leafCert + "#0.PublicKey nil})"
			// the package-level jwt.Parse(token, keyFunc, options...) is the same call without a parser value
			parsePkg := "github.com/golang-jwt/jwt/v4.Parse(" + compact + ", closure{ret " + leafCert + "#0.PublicKey nil}**)"
			c.mustPass(pg, "O-C01.1", "JWS: signature check succeeded", "Verify returns content", ok, AnyOf(AG("+IsNil("+parse+"#1)"), AG("+IsNil("+parsePkg+"#1)")))
			// exactly one Parse call site, with exactly these operands
			n := 0
			var bad []string
			for _, s := range pg.States {
				for _, e := range s.Out {
					for _, l := range e.Labels {
						if l.Kind == "call" && l.T != nil && (strings.HasSuffix(l.T.Name, "jwt/v4.Parser).Parse") || strings.HasSuffix(l.T.Name, "jwt/v4.Parse")) {
							n++
							if !globMatch(parse, l.Key) && !globMatch(parsePkg, l.Key) {
								bad = append(bad, c.P.pos(l.Node.Pos)+": "+l.Key)
							}
						}
					}
				}
			}
			c.add("O-C01.3", "JWS: the token verified is Protected.Payload.Signature of the stored envelope, under the leaf key", "Parse is called with strings.Join([Protected, Payload, Signature], \".\") and a key function returning ParseCertificate(CertChain[0]).PublicKey", n >= 1 && len(bad) == 0, "", bad...)
		case "COSE":
			chainField = "recv.base.Headers.Unprotected[33].([]any)"
			leafCert = "crypto/x509.ParseCertificate(" + chainField + "[0].([]byte))"
			ver := "(*github.com/veraison/go-cose.Sign1Message).Verify(recv.base, nil, github.com/veraison/go-cose.NewVerifier(*, " + leafCert + "#0.PublicKey)#0)"
			c.mustPass(pg, "O-C01.1", "COSE: signature check succeeded", "Verify returns content", ok, AG("+IsNil("+ver+")"))
			n := 0
			var bad []string
			for _, s := range pg.States {
				for _, e := range s.Out {
					for _, l := range e.Labels {
						if l.Kind == "call" && l.T != nil && l.T.Name == "(*github.com/veraison/go-cose.Sign1Message).Verify" {
							n++
							if !globMatch(ver, l.Key) {
								bad = append(bad, c.P.pos(l.Node.Pos)+": "+l.Key)
							}
						}
					}
				}
			}
			c.add("O-C01.3", "COSE: the stored message is verified with nil external data under the leaf key", "Verify is called on the stored Sign1Message with external == nil and a verifier built from ParseCertificate(x5chain[0]).PublicKey", n >= 1 && len(bad) == 0, "", bad...)
			c.mustPass(pg, "O-C01.2", "COSE: verifier constructed", "Verify returns content", ok, AG("+IsNil(github.com/veraison/go-cose.NewVerifier(*, "+leafCert+"#0.PublicKey)#1)"))
		}
		c.mustPass(pg, "O-C01.2", f.name+": leaf certificate parses", "Verify returns content", ok, A("+IsNil("+leafCert+"#1)"))
		c.mustPass(pg, "O-C01.2", f.name+": chain not empty before index 0 is used", "Verify returns content", ok, A("-Empty("+chainField+")"))
		// (2)+(4) the Content side
		cpg := c.pgOf(content)
		if cpg == nil {
			continue
		}
		cok := returnsWhere(cpg, func(s *PState) bool { return retNilErr(s, 1) })
		elemParse := "crypto/x509.ParseCertificate(old(re(" + chainField + ")))#0"
		if f.name == "COSE" {
			elemParse = "crypto/x509.ParseCertificate(old(re(" + chainField + ")).([]byte))#0"
		}
		goodChain := len(cok) > 0
		var cdet []string
		for _, s := range cok {
			ch := fieldPath(s.Ret[0].T, "SignerInfo", "CertificateChain")
			if ch == nil || !(ch.Key() == "append(self, "+elemParse+")" || ch.Key() == "nil") {
				goodChain = false
				if ch != nil {
					cdet = append(cdet, ch.Key())
				}
			}
		}
		c.add("O-C01.2", f.name+": returned chain is built from the verifier's chain field in order", "SignerInfo.CertificateChain is the list of ParseCertificate(element) over a plain ascending range of the same field whose element 0 provides the verification key", goodChain, posOf(cpg, cok), cdet...)
		// one append per element, plain range
		app := LP{Desc: "append parsed certificate", F: func(l Label) bool {
			return l.Kind == "assign" && l.Node != nil && l.Node.Note == "" && l.T2 != nil && strings.HasPrefix(l.T2.Key(), "append(self, crypto/x509.ParseCertificate(re("+chainField+")")
		}}
		c.perIteration(cpg, "O-C01.2", f.name+": every chain element is appended once", "each element of the chain field contributes one certificate, in order", chainField, app)
		c.noPathFrom(cpg, "O-C01.2", f.name+": at most one certificate per element", "no second certificate is appended in the same iteration", app, edgeSources(cpg, app), ptr(RangeNext(chainField)))
		// (4) field provenance
		type fieldRule struct {
			path    []string
			allowed []string
			what    string
		}
		var rules []fieldRule
		if f.name == "JWS" {
			P, Pl, Sg, H := "recv.base.Protected", "recv.base.Payload", "recv.base.Signature", "recv.base.Header"
			rules = []fieldRule{
				{[]string{"Payload", "Content"}, []string{Pl}, "payload"},
				{[]string{"Payload", "ContentType"}, []string{P}, "content type"},
				{[]string{"SignerInfo", "SignatureAlgorithm"}, []string{P}, "signature algorithm"},
				{[]string{"SignerInfo", "SignedAttributes"}, []string{P}, "signed attributes"},
				{[]string{"SignerInfo", "Signature"}, []string{Sg}, "signature"},
				{[]string{"SignerInfo", "UnsignedAttributes"}, []string{H}, "unsigned attributes"},
				{[]string{"SignerInfo", "CertificateChain"}, []string{H}, "certificate chain"},
			}
		} else {
			P, Pl, Sg, U := "recv.base.Headers.Protected", "recv.base.Payload", "recv.base.Signature", "recv.base.Headers.Unprotected"
			R := "recv.base.Headers.RawProtected"
			rules = []fieldRule{
				{[]string{"Payload", "Content"}, []string{Pl}, "payload"},
				{[]string{"Payload", "ContentType"}, []string{P}, "content type"},
				{[]string{"SignerInfo", "SignatureAlgorithm"}, []string{P}, "signature algorithm"},
				{[]string{"SignerInfo", "SignedAttributes"}, []string{P, R}, "signed attributes"},
				{[]string{"SignerInfo", "Signature"}, []string{Sg}, "signature"},
				{[]string{"SignerInfo", "UnsignedAttributes"}, []string{U}, "unsigned attributes"},
				{[]string{"SignerInfo", "CertificateChain"}, []string{U}, "certificate chain"},
			}
		}
		depth := 1
		if f.name == "COSE" {
			depth = 2
		}
		for _, r := range rules {
			allowed := map[string]bool{}
			for _, a := range r.allowed {
				allowed[a] = true
			}
			good := len(cok) > 0
			var det []string
			for _, s := range cok {
				ft := fieldPath(s.Ret[0].T, r.path...)
				if ft == nil {
					good = false
					det = append(det, "field missing in the returned literal")
					continue
				}
				roots := baseRoots(ft, depth)
				if f.name == "COSE" {
					// Payload/Signature are direct fields (depth 1)
					for i, x := range roots {
						if x == "recv.base.Payload" || x == "recv.base.Signature" || strings.HasPrefix(x, "recv.base.Payload") || strings.HasPrefix(x, "recv.base.Signature") {
							roots[i] = strings.SplitN(x, "[", 2)[0]
						}
					}
				}
				if ok, bad := subset(roots, allowed); !ok {
					good = false
					det = append(det, "reads "+strings.Join(bad, ", "))
				}
			}
			if r.what == "payload" {
				// ... and is exactly its decoding: nothing added, dropped or padded
				want := "recv.base.Payload"
				if f.name == "JWS" {
					want = "(*encoding/base64.Encoding).DecodeString(encoding/base64.RawURLEncoding, recv.base.Payload)#0"
				}
				exact := len(cok) > 0
				var d2 []string
				for _, s := range cok {
					if ft := fieldPath(s.Ret[0].T, r.path...); ft == nil || ft.Key() != want {
						exact = false
						if ft != nil {
							d2 = append(d2, "payload is "+ft.Key())
						}
					}
				}
				c.add("O-C01.4", f.name+": the returned payload is exactly the verified payload", "the returned payload is "+want+" and nothing else (a buffer of the decoded size filled by Decode keeps padding bytes the key never signed)", exact, posOf(cpg, cok), dedupe(sortedCopy(d2))...)
			}
			c.add("O-C01.4", f.name+": "+r.what+" derives only from the verified field", "the returned "+r.what+" reads the envelope only through "+strings.Join(r.allowed, " / "), good, posOf(cpg, cok), dedupe(sortedCopy(det))...)
		}
		// no condition of Content reads an unsigned part to decide a signed output
	}
	// (5) wrapper
	wpg := c.pgOfNI(baseVerify, csValidator)
	if wpg != nil {
		ok := returnsWhere(wpg, func(s *PState) bool { return retNilErr(s, 1) })
		c.mustPass(wpg, "O-C01.5", "wrapper: raw signature present", "the wrapper's Verify returns content", ok, A("-Empty(recv.Raw)"))
		c.mustPass(wpg, "O-C01.5", "wrapper: inner Verify succeeded", "the wrapper's Verify returns content", ok, A("+IsNil((ncg/signature.Envelope).Verify(recv.Envelope)#1)"))
		contentNotModified(c, "O-C01.5", wpg, "(ncg/signature.Envelope).Verify(recv.Envelope)#0", "Verify")
	}
	// faithful decoding of the protected header: exactly the specification
	// headers are consumed as such, every other signed header surfaces as an
	// extended attribute with its own value (O-C13.1-3)
	c.floor("protected-header decoding rules (shared with C13)", 6, shareRules(c, checkC13, []string{"O-C13.1", "O-C13.2", "O-C13.3"}, "O-C01.6", "decoding: "))
	// the protected header is decoded once by name-exact rules: a member that differs from a
	// specification name only by case must not override the reported attribute (O-C02.5)
	c.floor("header-name rules (shared with C02)", 3, shareRules(c, checkC02, []string{"O-C02.5"}, "O-C01.6", "header names: "))
	// the reported signing time and expiry are the decoded header values, unchanged (O-C07.5)
	c.floor("time attribute rules (shared with C07)", 4, shareRules(c, checkC07, []string{"O-C07.5"}, "O-C01.6", "times: "))
}
