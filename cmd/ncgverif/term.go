package main

// Terms: canonical symbolic expressions over the entry point's vocabulary
// (parameters, receiver, fields, calls by resolved callee, constants, range
// keys/elements). Two terms are equal iff their keys are equal.

import (
	"go/token"
	"go/types"
	"sort"
	"strconv"
	"strings"
)

// Var is a local variable slot of one inline instance (or a synthetic temp).
type Var struct {
	ID     int
	Name   string
	Obj    types.Object
	Typ    types.Type
	Pinned bool // address taken or captured: never pruned by liveness
	// Captured: referenced from a function literal (which may run later); an
	// address-taken variable that is not captured may be pruned once it is
	// dead and no live value holds its address
	Captured bool
}

type Term struct {
	Op     string // see key()
	Name   string
	Args   []*Term
	V      *Var     // Op == "var" / "addrvar"
	Fields []string // Op == "struct": names parallel to Args (Args[0] is base or nil-const "zero")
	Pos    token.Pos
	Owner  string // Op == "field": the struct type that declares the field
	k      string
	av     []int // ids of the variables whose address the term holds (lazily computed)
	avDone bool
}

func mk(op, name string, args ...*Term) *Term { return &Term{Op: op, Name: name, Args: args} }

func konst(s string) *Term { return &Term{Op: "const", Name: s} }

var (
	tNil   = konst("nil")
	tTrue  = konst("true")
	tFalse = konst("false")
	tZero  = konst("zero") // zero value of an unspecified struct field
	tSelf  = &Term{Op: "self"}
)

func (t *Term) isConst() bool { return t != nil && t.Op == "const" }

func (t *Term) Key() string {
	if t == nil {
		return "_"
	}
	if t.k != "" {
		return t.k
	}
	var b strings.Builder
	switch t.Op {
	case "const", "global", "param", "opaque", "fn":
		b.WriteString(t.Name)
	case "self":
		b.WriteString("self")
	case "var":
		b.WriteString("$" + t.V.Name + "." + strconv.Itoa(t.V.ID))
	case "addrvar":
		b.WriteString("&$[" + t.Name + "]")
	case "field":
		b.WriteString(t.Args[0].Key() + "." + t.Name)
	case "index":
		b.WriteString(t.Args[0].Key() + "[" + t.Args[1].Key() + "]")
	case "slice":
		b.WriteString(t.Args[0].Key() + "[" + t.Args[1].Key() + ":" + t.Args[2].Key() + "]")
	case "call":
		b.WriteString(t.Name + "(")
		for i, a := range t.Args {
			if i > 0 {
				b.WriteString(", ")
			}
			b.WriteString(a.Key())
		}
		b.WriteString(")")
	case "res":
		b.WriteString(t.Args[0].Key() + "#" + t.Name)
	case "outarg":
		b.WriteString(t.Args[0].Key() + "!" + t.Name)
	case "bin":
		b.WriteString("(" + t.Args[0].Key() + " " + t.Name + " " + t.Args[1].Key() + ")")
	case "un":
		b.WriteString(t.Name + t.Args[0].Key())
	case "addr":
		b.WriteString("&" + t.Args[0].Key())
	case "deref":
		b.WriteString("*" + t.Args[0].Key())
	case "rk", "re", "ok":
		b.WriteString(t.Op + "(" + t.Args[0].Key() + ")")
	case "assert":
		b.WriteString(t.Args[0].Key() + ".(" + t.Name + ")")
	case "struct":
		b.WriteString("{" + t.Name)
		if t.Args[0] != nil && t.Args[0] != tZero {
			b.WriteString(" base=" + t.Args[0].Key())
		}
		for i, f := range t.Fields {
			b.WriteString(" " + f + ":" + t.Args[i+1].Key())
		}
		b.WriteString("}")
	case "list": // slice / array literal
		b.WriteString("[" + t.Name + ":")
		for i, a := range t.Args {
			if i > 0 {
				b.WriteString(",")
			}
			b.WriteString(" " + a.Key())
		}
		b.WriteString("]")
	case "maplit":
		b.WriteString("map[" + t.Name + ":")
		for i := 0; i+1 < len(t.Args); i += 2 {
			b.WriteString(" " + t.Args[i].Key() + "=>" + t.Args[i+1].Key())
		}
		b.WriteString("]")
	case "closure":
		if len(t.Args) > 0 {
			b.WriteString("closure{ret")
			for _, a := range t.Args {
				b.WriteString(" " + a.Key())
			}
			b.WriteString("}")
		} else {
			b.WriteString("closure" + t.Name)
		}
	case "old":
		b.WriteString("old(" + t.Args[0].Key() + ")")
	case "mapset":
		b.WriteString("mapset(" + t.Args[0].Key() + ", " + t.Args[1].Key() + "=>" + t.Args[2].Key() + ")")
	case "mapdel":
		b.WriteString("mapdel(" + t.Args[0].Key() + ", " + t.Args[1].Key() + ")")
	default:
		b.WriteString(t.Op + ":" + t.Name + "(")
		for i, a := range t.Args {
			if i > 0 {
				b.WriteString(", ")
			}
			b.WriteString(a.Key())
		}
		b.WriteString(")")
	}
	t.k = b.String()
	return t.k
}

func (t *Term) String() string { return t.Key() }

// depth of a term (for the growth cap)
func (t *Term) depth() int {
	if t == nil {
		return 0
	}
	d := 0
	for _, a := range t.Args {
		if x := a.depth(); x > d {
			d = x
		}
	}
	return d + 1
}

// walk visits every sub-term.
func (t *Term) walk(f func(*Term)) {
	if t == nil {
		return
	}
	f(t)
	for _, a := range t.Args {
		a.walk(f)
	}
}

func (t *Term) mentionsVar(v *Var) bool {
	found := false
	t.walk(func(x *Term) {
		if (x.Op == "var" || x.Op == "addrvar") && x.V == v {
			found = true
		}
	})
	return found
}

// structGet projects a field from a struct term (nil if not a struct term).
func structGet(s *Term, f string) *Term {
	if s == nil || s.Op != "struct" {
		return nil
	}
	for i, n := range s.Fields {
		if n == f {
			return s.Args[i+1]
		}
	}
	if s.Args[0] == nil || s.Args[0] == tZero {
		return tZero
	}
	return mk("field", f, s.Args[0])
}

// structSet returns a copy of struct term s with field f set to v. If s is not
// a struct term it becomes the base of a new one.
func structSet(s *Term, typ, f string, v *Term) *Term {
	var n *Term
	if s != nil && s.Op == "struct" {
		n = &Term{Op: "struct", Name: s.Name, Args: append([]*Term{}, s.Args...), Fields: append([]string{}, s.Fields...)}
	} else {
		base := s
		if base == nil {
			base = tZero
		}
		n = &Term{Op: "struct", Name: typ, Args: []*Term{base}}
	}
	for i, fn := range n.Fields {
		if fn == f {
			n.Args[i+1] = v
			return n
		}
	}
	// keep fields sorted for a canonical key
	idx := sort.SearchStrings(n.Fields, f)
	n.Fields = append(n.Fields, "")
	copy(n.Fields[idx+1:], n.Fields[idx:])
	n.Fields[idx] = f
	n.Args = append(n.Args, nil)
	copy(n.Args[idx+2:], n.Args[idx+1:])
	n.Args[idx+1] = v
	return n
}

// ---------------------------------------------------------------------------
// Atoms: normalised branch conditions.

type Atom struct {
	Key   string // canonical predicate(args)
	Pol   bool   // polarity established
	Const int    // 0 = not constant; 1 = always true; -1 = always false (after polarity)
	// for Eq(term, constant): the two sides (used for equality facts)
	EqTerm, EqConst string
}

func sorted2(a, b string) (string, string) {
	if b < a {
		return b, a
	}
	return a, b
}

func intConst(t *Term) (int64, bool) {
	if t == nil || t.Op != "const" {
		return 0, false
	}
	v, err := strconv.ParseInt(t.Name, 10, 64)
	if err != nil {
		return 0, false
	}
	return v, true
}

func isLen(t *Term) bool { return t != nil && t.Op == "call" && t.Name == "len" }

// emptiness of a slice/map/string valued term: 1 empty, -1 non-empty, 0 unknown.
func emptiness(t *Term) int {
	if t == nil {
		return 0
	}
	switch t.Op {
	case "const":
		if t.Name == "nil" || t.Name == `""` {
			return 1
		}
		if len(t.Name) > 2 && t.Name[0] == '"' {
			return -1
		}
	case "list":
		if len(t.Args) == 0 {
			return 1
		}
		return -1
	case "maplit":
		if len(t.Args) == 0 {
			return 1
		}
		return -1
	case "mapset":
		return -1
	case "call":
		if t.Name == "append" && len(t.Args) >= 2 {
			for _, a := range t.Args[1:] {
				if a.Op != "spread" {
					return -1
				}
			}
		}
	}
	return 0
}

func emptyAtom(x *Term, pol bool) Atom {
	switch emptiness(x) {
	case 1:
		if pol {
			return Atom{Key: "true", Pol: true, Const: 1}
		}
		return Atom{Key: "true", Pol: true, Const: -1}
	case -1:
		if pol {
			return Atom{Key: "true", Pol: true, Const: -1}
		}
		return Atom{Key: "true", Pol: true, Const: 1}
	}
	return Atom{Key: "Empty(" + x.Key() + ")", Pol: pol}
}

// symmetric boolean callees -> predicate name
var symCallPreds = map[string]string{
	"bytes.Equal":                            "BytesEq",
	"(*crypto/x509.Certificate).Equal":       "CertEq",
	"(encoding/asn1.ObjectIdentifier).Equal": "OidEq",
	"strings.EqualFold":                      "EqFold",
	"(time.Time).Equal":                      "TEq",
	"(*crypto/rsa.PublicKey).Equal":          "KeyEq",
	"(*crypto/ecdsa.PublicKey).Equal":        "KeyEq",
	"(crypto/ed25519.PublicKey).Equal":       "KeyEq",
	"reflect.DeepEqual":                      "DeepEq",
	"slices.Equal":                           "SliceEq",
}

// normAtom turns a resolved boolean term into an atom. The nilness oracle
// reports 1 (nil), -1 (non-nil) or 0 (unknown) for a term.
func normAtom(t *Term, nilness func(*Term) int) Atom {
	pol := true
	for t.Op == "un" && t.Name == "!" {
		pol = !pol
		t = t.Args[0]
	}
	mkc := func(v bool) Atom {
		if v == pol {
			return Atom{Key: "true", Pol: true, Const: 1}
		}
		return Atom{Key: "true", Pol: true, Const: -1}
	}
	if t.Op == "const" {
		switch t.Name {
		case "true":
			return mkc(true)
		case "false":
			return mkc(false)
		}
	}
	if t.Op == "bin" {
		a, b, op := t.Args[0], t.Args[1], t.Name
		switch op {
		case "==", "!=":
			eq := op == "=="
			// nil comparisons
			if a.isConst() && a.Name == "nil" {
				a, b = b, a
			}
			if b.isConst() && b.Name == "nil" {
				at := Atom{Key: "IsNil(" + a.Key() + ")", Pol: pol == eq}
				if a.isConst() || termNilness(a) != 0 {
					// structurally decided: no informative atom
					switch nilness(a) {
					case 1:
						return mkc(eq)
					case -1:
						return mkc(!eq)
					}
				}
				switch nilness(a) {
				case 1: // known nil: the atom IsNil holds
					if at.Pol {
						at.Const = 1
					} else {
						at.Const = -1
					}
				case -1:
					if at.Pol {
						at.Const = -1
					} else {
						at.Const = 1
					}
				}
				return at
			}
			// boolean constants
			if a.isConst() && (a.Name == "true" || a.Name == "false") {
				a, b = b, a
			}
			if b.isConst() && (b.Name == "true" || b.Name == "false") {
				at := normAtom(a, nilness)
				want := (b.Name == "true") == eq
				if !want {
					at.Pol = !at.Pol
					at.Const = -at.Const
				}
				if !pol {
					at.Pol = !at.Pol
					at.Const = -at.Const
				}
				return at
			}
			if a.isConst() && b.isConst() {
				return mkc((a.Name == b.Name) == eq)
			}
			// x.Cmp(y) == 0
			if c, ok := intConst(b); ok && c == 0 && a.Op == "call" && a.Name == "(*math/big.Int).Cmp" {
				x, y := sorted2(a.Args[0].Key(), a.Args[1].Key())
				return Atom{Key: "BEq(" + x + ", " + y + ")", Pol: pol == eq}
			}
			if c, ok := intConst(a); ok && c == 0 && b.Op == "call" && b.Name == "(*math/big.Int).Cmp" {
				x, y := sorted2(b.Args[0].Key(), b.Args[1].Key())
				return Atom{Key: "BEq(" + x + ", " + y + ")", Pol: pol == eq}
			}
			// x & K == 0
			if c, ok := intConst(b); ok && c == 0 && a.Op == "bin" && a.Name == "&" {
				x, y := a.Args[0], a.Args[1]
				if x.isConst() {
					x, y = y, x
				}
				return Atom{Key: "Bit(" + x.Key() + ", " + y.Key() + ")", Pol: pol != eq}
			}
			// len(x) == 0
			if isLen(b) {
				a, b = b, a
			}
			if isLen(a) {
				if c, ok := intConst(b); ok && c == 0 {
					return emptyAtom(a.Args[0], pol == eq)
				}
			}
			x, y := sorted2(a.Key(), b.Key())
			at := Atom{Key: "Eq(" + x + ", " + y + ")", Pol: pol == eq}
			if a.isConst() && !b.isConst() {
				at.EqTerm, at.EqConst = b.Key(), a.Key()
			} else if b.isConst() && !a.isConst() {
				at.EqTerm, at.EqConst = a.Key(), b.Key()
			}
			return at
		case "<", "<=", ">", ">=":
			// reduce to Lt(x,y) with polarity
			x, y, p := a, b, pol
			switch op {
			case ">":
				x, y = b, a
			case "<=": // a<=b == !(b<a)
				x, y, p = b, a, !pol
			case ">=": // a>=b == !(a<b)
				p = !pol
			}
			if cx, ok := intConst(x); ok {
				if cy, ok2 := intConst(y); ok2 {
					if (cx < cy) == p {
						return Atom{Key: "true", Pol: true, Const: 1}
					}
					return Atom{Key: "true", Pol: true, Const: -1}
				}
			}
			// big.Int Cmp forms: Cmp(u,v) < 0  => BLt(u,v); 0 < Cmp(u,v) => BLt(v,u)
			if cy, ok := intConst(y); ok && cy == 0 && x.Op == "call" && x.Name == "(*math/big.Int).Cmp" {
				return Atom{Key: "BLt(" + x.Args[0].Key() + ", " + x.Args[1].Key() + ")", Pol: p}
			}
			if cx, ok := intConst(x); ok && cx == 0 && y.Op == "call" && y.Name == "(*math/big.Int).Cmp" {
				return Atom{Key: "BLt(" + y.Args[1].Key() + ", " + y.Args[0].Key() + ")", Pol: p}
			}
			// the key of a range over a slice is never negative: rk(s) < c (c <= 0) never holds
			if (x.Op == "rk" || (x.Op == "old" && len(x.Args) == 1 && x.Args[0].Op == "rk")) && !rangeKeyMayBeNegative(x) {
				if cy, ok := intConst(y); ok && cy <= 0 {
					if p {
						return Atom{Key: "true", Pol: true, Const: -1}
					}
					return Atom{Key: "true", Pol: true, Const: 1}
				}
			}
			// len(x) < 1  == Empty ; 0 < len(x) == !Empty
			if isLen(x) {
				if cy, ok := intConst(y); ok && cy == 1 {
					return emptyAtom(x.Args[0], p)
				}
				if cy, ok := intConst(y); ok && cy <= 0 {
					// len < 0 or len < c<=0 : never
					if p {
						return Atom{Key: "true", Pol: true, Const: -1}
					}
					return Atom{Key: "true", Pol: true, Const: 1}
				}
			}
			if isLen(y) {
				if cx, ok := intConst(x); ok && cx == 0 {
					return emptyAtom(y.Args[0], !p)
				}
			}
			return Atom{Key: "Lt(" + x.Key() + ", " + y.Key() + ")", Pol: p}
		}
	}
	if t.Op == "call" {
		switch t.Name {
		case "(time.Time).Before":
			return Atom{Key: "TLt(" + t.Args[0].Key() + ", " + t.Args[1].Key() + ")", Pol: pol}
		case "(time.Time).After":
			return Atom{Key: "TLt(" + t.Args[1].Key() + ", " + t.Args[0].Key() + ")", Pol: pol}
		case "(time.Time).IsZero":
			if t.Args[0] == tZero || (t.Args[0].Op == "struct" && len(t.Args[0].Fields) == 0 && t.Args[0].Name == "time.Time") {
				// structurally the zero time: decided, but keep an informative label
				at := Atom{Key: "TZero(zero)", Pol: pol, Const: 1}
				if !pol {
					at.Const = -1
				}
				return at
			}
			return Atom{Key: "TZero(" + t.Args[0].Key() + ")", Pol: pol}
		case "errors.Is":
			x, y := t.Args[0], t.Args[1]
			if x.isConst() && x.Name == "nil" {
				return mkc(y.isConst() && y.Name == "nil")
			}
			if x.Op == "global" && x.Key() == y.Key() {
				return mkc(true) // the sentinel itself
			}
			if dx, ok := dynType(x); ok {
				if dy, ok2 := dynType(y); ok2 && typeHasNoUnwrapIs != nil && typeHasNoUnwrapIs(dx) {
					if dx != dy {
						return mkc(false)
					}
					if x.Key() == y.Key() {
						return mkc(true)
					}
				}
			}
			if y.Op == "global" && cannotBeSentinel != nil && cannotBeSentinel(x, y.Name) {
				// an unexported sentinel cannot come out of code that never mentions it
				return mkc(false)
			}
			return Atom{Key: "ErrIs(" + x.Key() + ", " + y.Key() + ")", Pol: pol}
		}
		if p, ok := symCallPreds[t.Name]; ok && p != "" && len(t.Args) == 2 {
			x, y := sorted2(t.Args[0].Key(), t.Args[1].Key())
			return Atom{Key: p + "(" + x + ", " + y + ")", Pol: pol}
		}
	}
	if t.Op == "ok" {
		in := t.Args[0]
		switch in.Op {
		case "index":
			if m := in.Args[0]; m.Op == "call" && m.Name == "make" && len(m.Args) > 0 && strings.HasPrefix(m.Args[0].Name, "map[") {
				// lookup in a freshly made, never written map: decided, with an informative label
				at := Atom{Key: "Has(" + m.Key() + ", " + in.Args[1].Key() + ")", Pol: pol, Const: -1}
				if !pol {
					at.Const = 1
				}
				return at
			}
			if m := in.Args[0]; m.isConst() && m.Name == "nil" {
				return mkc(false) // lookup in a nil map
			}
			if m := in.Args[0]; m.Op == "maplit" && in.Args[1].isConst() {
				all := true
				found := false
				for i := 0; i+1 < len(m.Args); i += 2 {
					if !m.Args[i].isConst() {
						all = false
					} else if m.Args[i].Name == in.Args[1].Name {
						found = true
					}
				}
				if found {
					return mkc(true)
				}
				if all {
					return mkc(false)
				}
			}
			return Atom{Key: "Has(" + in.Args[0].Key() + ", " + in.Args[1].Key() + ")", Pol: pol}
		case "assert":
			if dt, ok := dynType(in.Args[0]); ok && len(in.Fields) == 0 {
				return mkc(dt == in.Name)
			}
			return Atom{Key: "TypeIs(" + in.Args[0].Key() + ", " + in.Name + ")", Pol: pol}
		}
	}
	if t.Op == "isclosure" {
		// which literal a function variable holds: decided when the store knows
		if v := t.Args[0]; v.Op == "closure" {
			return mkc(v.Name == t.Name)
		} else if v.Op == "fn" || (v.isConst() && v.Name == "nil") {
			return mkc(false)
		}
		return Atom{Key: "Truth(isclosure:" + t.Name + "(" + t.Args[0].Key() + "))", Pol: pol}
	}
	if t.Op == "isfn" {
		// which named function a function variable holds
		if v := t.Args[0]; v.Op == "fn" {
			return mkc(v.Name == t.Name)
		} else if v.Op == "closure" || (v.isConst() && v.Name == "nil") {
			return mkc(false)
		}
		return Atom{Key: "Truth(isfn:" + t.Name + "(" + t.Args[0].Key() + "))", Pol: pol}
	}
	if t.Op == "typeis" {
		if dt, ok := dynType(t.Args[0]); ok && len(t.Fields) == 0 {
			return mkc(dt == t.Name)
		}
		return Atom{Key: "TypeIs(" + t.Args[0].Key() + ", " + t.Name + ")", Pol: pol}
	}
	if t.Op == "index" && len(t.Args) == 2 && allTrueBoolMap(t.Args[0]) {
		// m[k] on a local map[K]bool that only ever stores true is the presence test
		a := normAtom(mk("ok", "", t), nilness)
		if !pol {
			a.Pol = !a.Pol
			a.Const = -a.Const
		}
		return a
	}
	return Atom{Key: "Truth(" + t.Key() + ")", Pol: pol}
}

// allTrueBoolMap: a tracked local map of type map[K]bool every stored value of
// which is the constant true.
func allTrueBoolMap(m *Term) bool {
	for depth := 0; m != nil && depth < 64; depth++ {
		switch m.Op {
		case "maplit":
			if !strings.HasSuffix(m.Name, "]bool") {
				return false
			}
			for i := 1; i < len(m.Args); i += 2 {
				if m.Args[i] != tTrue && !(m.Args[i].isConst() && m.Args[i].Name == "true") {
					return false
				}
			}
			return true
		case "mapset":
			if v := m.Args[2]; !(v.isConst() && v.Name == "true") {
				return false
			}
			m = m.Args[0]
		case "mapdel":
			m = m.Args[0]
		case "call":
			return m.Name == "make" && len(m.Args) > 0 && strings.HasSuffix(m.Args[0].Name, "]bool")
		default:
			return false
		}
	}
	return false
}

// cannotBeSentinel reports that the error term x cannot be (or wrap) the
// package-level sentinel named global: set by the loader (load.go).
var cannotBeSentinel func(x *Term, global string) bool

// typeHasNoUnwrapIs reports (for a type string as printed in terms) that the
// type is known and has neither an Unwrap nor an Is method. Set by the loader.
var typeHasNoUnwrapIs func(string) bool

// dynType returns the dynamic type of a value term when it is evident from the
// term (composite literals, pointers to them).
func dynType(t *Term) (string, bool) {
	if t == nil {
		return "", false
	}
	switch t.Op {
	case "struct":
		return t.Name, true
	case "addr":
		if t.Args[0].Op == "struct" {
			return "*" + t.Args[0].Name, true
		}
	case "const":
		if t.Name == "nil" {
			return "nil", true
		}
	case "call", "res":
		c := t
		if t.Op == "res" {
			c = t.Args[0]
		}
		if c.Op == "call" {
			switch c.Name {
			case "fmt.Errorf":
				return "*fmt.wrapError|*fmt.fmtError", true
			case "errors.New":
				return "*errors.errorString", true
			}
			if extOwnErrors(c.Name) {
				// an error made by a dependency: never a type declared in this module
				return "ext:" + c.Name, true
			}
		}
	}
	return "", false
}

// extOwnErrors lists external callees whose results are values of their own
// packages' types (they do not pass through errors of caller-supplied
// components). A type declared in this module can only be constructed by code
// that imports it, which these packages do not.
func extOwnErrors(name string) bool {
	for _, p := range []string{"net/http.NewRequest", "net/url.Parse", "net/url.JoinPath", "golang.org/x/crypto/ocsp.", "crypto/x509.Parse", "encoding/asn1.", "encoding/base64.", "(*encoding/base64.Encoding).", "encoding/json.Unmarshal", "encoding/json.Marshal"} {
		if strings.HasPrefix(name, p) {
			return true
		}
	}
	return false
}

func (a Atom) String() string {
	if a.Pol {
		return "+" + a.Key
	}
	return "-" + a.Key
}

// addrVars: ids of the variables whose address occurs in the term.
func (t *Term) addrVars() []int {
	if t == nil {
		return nil
	}
	if t.avDone {
		return t.av
	}
	var out []int
	if (t.Op == "addrvar" || t.Op == "var") && t.V != nil {
		out = append(out, t.V.ID)
	}
	for _, a := range t.Args {
		out = append(out, a.addrVars()...)
	}
	t.av, t.avDone = out, true
	return out
}

// rangeKeyMayBeNegative: the range key term belongs to a map with signed keys
// (the keys of slices, arrays and strings are indices). Without type
// information in the term, everything whose operand is rendered as a map is
// excluded.
func rangeKeyMayBeNegative(rk *Term) bool {
	for rk.Op == "old" {
		rk = rk.Args[0]
	}
	if len(rk.Args) == 0 {
		return true
	}
	x := rk.Args[0]
	switch x.Op {
	case "maplit", "mapset", "mapdel":
		return true
	case "call":
		return x.Name == "make" && len(x.Args) > 0 && strings.HasPrefix(x.Args[0].Name, "map[")
	}
	return false
}
