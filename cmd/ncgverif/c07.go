package main

// C07: content obeys the signed-attribute rules (wrapper, JWS, COSE, siblings).

import (
	"go/types"
	"sort"
	"strings"
)

const (
	b64dec    = "(*encoding/base64.Encoding).DecodeString(encoding/base64.RawURLEncoding, "
	schemeX   = `"notary.x509"`
	schemeSA  = `"notary.x509.signingAuthority"`
	hScheme   = `"io.cncf.notary.signingScheme"`
	hExpiry   = `"io.cncf.notary.expiry"`
	hSigTime  = `"io.cncf.notary.signingTime"`
	hAuthTime = `"io.cncf.notary.authenticSigningTime"`
)

// tagged requirement: R is the abstract rule of the sibling set (or "").
type treq struct {
	R    string
	name string
	lp   LP
}

type jwsTerms struct {
	B, PH, dec, decX, algMap string
	algNames                 []string // when there is no name->algorithm map: the six names
}

func jwsNames(c *Check) jwsTerms {
	t := jwsTerms{}
	t.B = b64dec + "recv.base.Protected)#0"
	t.dec = "encoding/json.Unmarshal(" + t.B + ", &$[struct])"
	t.PH = t.dec + "!1"
	t.decX = "encoding/json.Unmarshal(" + t.B + ", &" + t.PH + ".ExtendedAttributes)"
	for _, g := range c.globalsOfType("ncg/signature/jws", "map[string]ncg/internal/algorithm.Algorithm") {
		t.algMap = g
	}
	if t.algMap == "" {
		// no name -> algorithm map: the reading direction is a switch over the names; the names are
		// the values of the algorithm -> name map
		for _, g := range c.globalsOfType("ncg/signature/jws", "map[ncg/internal/algorithm.Algorithm]string") {
			for _, r := range mapRowTerms(c.P, g) {
				t.algNames = append(t.algNames, r[1])
			}
		}
		sort.Strings(t.algNames)
	}
	return t
}

func jwsContentReqs(t jwsTerms) []treq {
	PH := t.PH
	isX := A("+Eq(" + schemeX + ", " + PH + ".SigningScheme)")
	notX := A("-Eq(" + schemeX + ", " + PH + ".SigningScheme)")
	isSA := A("+Eq(" + schemeSA + ", " + PH + ".SigningScheme)")
	pending := func(h string) LP {
		return AG("+Empty(mapdel(map[*" + h + "=>true*], old(re(" + PH + ".Critical))))")
	}
	return []treq{
		{"", "protected header is valid base64url", A("+IsNil(" + b64dec + "recv.base.Protected)#1)")},
		{"", "protected header decodes into the header struct", A("+IsNil(" + t.dec + ")")},
		{"", "protected header decodes into the attribute map", A("+IsNil(" + t.decX + ")")},
		{"", "payload is valid base64url", A("+IsNil(" + b64dec + "recv.base.Payload)#1)")},
		{"", "signature is valid base64url", A("+IsNil(" + b64dec + "recv.base.Signature)#1)")},
		{"", "signature not empty", A("-Empty(" + b64dec + "recv.base.Signature)#0)")},
		{"scheme-in-2", "scheme is one of the two Notary schemes", AnyOf(isX, isSA)},
		{"time-by-scheme", "x509: no authentic signing time header", AnyOf(notX, A("+IsNil("+PH+".AuthenticSigningTime)"))},
		{"time-by-scheme", "signingAuthority: no signing time header", AnyOf(isX, A("+IsNil("+PH+".SigningTime)"))},
		{"time-by-scheme", "signingAuthority: authentic signing time header present", AnyOf(isX, A("-IsNil("+PH+".AuthenticSigningTime)"))},
		{"", "crit header not empty", A("-Empty(" + PH + ".Critical)")},
		{"crit-has-scheme", "signing scheme marked critical", pending(hScheme)},
		{"crit-has-authtime", "signingAuthority: authentic signing time marked critical", AnyOf(isX, pending(hAuthTime))},
		{"crit-has-expiry", "expiry, when present, marked critical", AnyOf(A("+IsNil("+PH+".Expiry)"), A("+TZero(*"+PH+".Expiry)"), pending(hExpiry))},
		{"alg-in-table", "declared algorithm is in the name table", func() LP {
			if t.algMap != "" {
				return A("+Has(" + t.algMap + ", " + PH + ".Algorithm)")
			}
			var alts []LP
			for _, n := range t.algNames {
				a, b := sorted2(n, PH+".Algorithm")
				alts = append(alts, A("+Eq("+a+", "+b+")"))
			}
			return AnyOf(alts...)
		}()},
	}
}

type coseTerms struct {
	P, crit, scheme, label, hmap, algMap, labelMap string
	enc, dec                                       string // the package's CBOR encoder / decoder mode objects
}

func coseNames(c *Check) coseTerms {
	t := coseTerms{}
	t.P = "recv.base.Headers.Protected"
	t.crit = "(github.com/veraison/go-cose.ProtectedHeader).Critical(" + t.P + ")"
	t.scheme = t.P + "[" + hScheme + "].(string)"
	for _, g := range c.globalsOfType("ncg/signature/cose", "map[github.com/veraison/go-cose.Algorithm]ncg/internal/algorithm.Algorithm") {
		t.algMap = g
	}
	for _, g := range c.globalsOfType("ncg/signature/cose", "map[ncg/signature.SigningScheme]string") {
		t.labelMap = g
	}
	if t.labelMap == "" {
		// the scheme->label table kept as a function (switch) instead of a map
		for _, fs := range c.P.productFuncs() {
			if !strings.HasSuffix(fs.Pkg.PkgPath, "/signature/cose") {
				continue
			}
			sig := fs.Obj.Type().(*types.Signature)
			if sig.Params().Len() == 1 && c.P.typeStr(sig.Params().At(0).Type()) == "ncg/signature.SigningScheme" {
				if _, ok := c.P.pureTable(fs.Obj); ok {
					t.labelMap = c.P.abbrev(fs.Obj.FullName())
				}
			}
		}
	}
	t.enc, t.dec = "ncg/signature/cose.encMode", "ncg/signature/cose.decMode"
	for _, g := range c.globalsOfType("ncg/signature/cose", "github.com/fxamacker/cbor/v2.EncMode") {
		t.enc = g
	}
	for _, g := range c.globalsOfType("ncg/signature/cose", "github.com/fxamacker/cbor/v2.DecMode") {
		t.dec = g
	}
	t.label = t.labelMap + "[" + t.scheme + "]"
	t.hmap = "github.com/fxamacker/cbor/v2.Unmarshal((github.com/fxamacker/cbor/v2.DecMode).Unmarshal(" + t.dec + ", recv.base.Headers.RawProtected, &$[[]byte])!2, &$[map[any]github.com/fxamacker/cbor/v2.RawMessage])!1"
	return t
}

func coseContentReqs(t coseTerms) []treq {
	P := t.P
	isSA := A("+Eq(" + schemeSA + ", " + t.scheme + ")")
	notSA := A("-Eq(" + schemeSA + ", " + t.scheme + ")")
	pending := func(h string) LP {
		// the must-contain-all fold (the pending set emptied by deleting the elements of crit), or a
		// membership scan of crit for the required label itself
		a, b := sorted2(h, "re("+t.crit+"#0)")
		return AnyOf(AG("+Empty(mapdel(map[*"+h+"=>{struct{}}*], old(re("+t.crit+"#0))))"), A("+Eq("+a+", "+b+")"))
	}
	tagOK := func(l string) []LP {
		// the tag object may be a literal (&cbor.RawTag{}) or a local (var t cbor.RawTag): any receiver
		raw := "(*github.com/fxamacker/cbor/v2.RawTag).UnmarshalCBOR(*, " + t.hmap + "[" + l + "])"
		return []LP{A("+Has(" + t.hmap + ", " + l + ")"), AG("+IsNil(" + raw + ")"), AnyOf(AG("+Eq("+raw+"!0.Number, 1)"), AG("+Eq(1, "+raw+"!0.Number)"))}
	}
	notTime := func(l string) LP {
		return AnyOf(A("-TypeIs("+P+"["+l+"], time.Time)"), A("+TypeIs("+P+"["+l+"], github.com/fxamacker/cbor/v2.RawMessage)"))
	}
	rs := []treq{
		{"crit-present", "every critical label is present (go-cose Critical())", A("+IsNil(" + t.crit + "#1)")},
		{"", "signing scheme is a text string", A("+TypeIs(" + P + "[" + hScheme + "], string)")},
		{"scheme-in-2", "scheme is one of the two Notary schemes", A("+Has(" + t.labelMap + ", " + t.scheme + ")")},
		{"crit-has-scheme", "signing scheme marked critical", pending(hScheme)},
		{"crit-has-authtime", "signingAuthority: authentic signing time marked critical", AnyOf(notSA, pending(hAuthTime))},
		{"crit-has-expiry", "expiry, when present, marked critical", AnyOf(A("-Has("+P+", "+hExpiry+")"), pending(hExpiry))},
		{"alg-in-table", "algorithm header readable", A("+IsNil((github.com/veraison/go-cose.ProtectedHeader).Algorithm(" + P + ")#1)")},
		{"alg-in-table", "declared algorithm is in the table", A("+Has(" + t.algMap + ", (github.com/veraison/go-cose.ProtectedHeader).Algorithm(" + P + ")#0)")},
		{"time-by-scheme", "signing time header of the scheme is a time", AnyOf(A("+TypeIs("+P+"["+t.label+"], time.Time)"), A("+TypeIs("+P+"["+t.label+"], github.com/fxamacker/cbor/v2.RawMessage)"))},
		{"", "content type present", A("+Has(" + P + ", 3)")},
		{"", "content type is a text string", A("+TypeIs(" + P + "[3], string)")},
		{"", "signature not empty", A("-Empty(recv.base.Signature)")},
		{"", "certificate chain header is an array", A("+TypeIs(recv.base.Headers.Unprotected[33], []any)")},
		{"", "certificate chain not empty", A("-Empty(recv.base.Headers.Unprotected[33].([]any))")},
	}
	for i, lp := range tagOK(t.label) {
		rs = append(rs, treq{"", "signing time decoded as time is a tag-1 value (" + []string{"raw entry exists", "raw entry is a tag", "tag number is 1"}[i] + ")", AnyOf(notTime(t.label), lp)})
	}
	for i, lp := range tagOK(hExpiry) {
		rs = append(rs, treq{"", "expiry decoded as time is a tag-1 value (" + []string{"raw entry exists", "raw entry is a tag", "tag number is 1"}[i] + ")", AnyOf(A("-Has("+P+", "+hExpiry+")"), notTime(hExpiry), lp)})
	}
	_ = isSA
	return rs
}

func checkC07(c *Check) {
	c.Explain = "C07: three layers, each a conjunction checked on every success path. (1) Wrapper: Verify and Content succeed only with non-empty Raw, inner call ok, non-empty payload and signature, algorithm present, signing time present, expiry absent or strictly later, scheme present, chain non-empty and valid for code signing, leaf key spec supported and declared algorithm == the one dictated by the leaf key (all six table rows); both return the inner content unchanged; every rejection of the wrapper is justified by the negation of one of these (so no conforming envelope is refused by the wrapper); Verify and Content are siblings with identical requirement sets. (2) JWS content path: decodes ok, scheme in {x509, signingAuthority} with the time header that belongs to it, crit non-empty, scheme / authentic-signing-time (signingAuthority) / expiry (when present) marked critical via the must-contain-all fold (pending-set map emptied only by deleting elements of crit), every other crit element is a present extended attribute, alg in the name table, signing time copied from the scheme's own field. (3) COSE content path: Critical() ok, scheme a string and in the scheme->label table, same fold, alg in table, times decoded as time.Time are tag-1 values of the raw header, content type present and a string, signature non-empty, chain an array of byte strings that parse. (4) Sibling agreement: both formats enforce every rule of the abstract set. Decoder acceptance is not decided."
	c.Assume = append(c.Assume, "go-cose ProtectedHeader.Critical() fails unless every critical label is present (pinned v1.3.0, read)", "fxamacker/cbor DecTagRequired rejects untagged times")
	// (1) wrapper
	rv := wrapperReadRules(c, "O-C07.1", baseVerify, "Verify")
	rc := wrapperReadRules(c, "O-C07.1", baseContent, "Content")
	var diff []string
	for k := range rv {
		if !rc[k] {
			diff = append(diff, "only Verify requires "+k)
		}
	}
	for k := range rc {
		if !rv[k] {
			diff = append(diff, "only Content requires "+k)
		}
	}
	c.add("O-C07.1", "Verify and Content siblings agree", "the wrapper's Verify and Content impose the same requirements on the inner content", len(diff) == 0 && len(rv) > 10, "", diff...)
	fmts := discoverFormats(c)
	enforced := map[string]map[string]bool{}
	for _, f := range fmts {
		enforced[f.name] = map[string]bool{}
		pg := c.pgOf(f.method("Content"))
		if pg == nil {
			continue
		}
		ok := returnsWhere(pg, func(s *PState) bool { return retNilErr(s, 1) })
		c.floor(f.name+" Content success returns", 1, len(ok))
		var reqs []treq
		rule := "O-C07.2"
		switch f.name {
		case "JWS":
			t := jwsNames(c)
			if t.algMap == "" && len(t.algNames) != 6 {
				c.undecided(rule, "JWS algorithm name table", "no package-level map[string]signature.Algorithm in the jws package (and no algorithm -> name map of six rows to read the names from)", "")
				continue
			}
			reqs = jwsContentReqs(t)
			// phantom critical labels
			if c.perIteration(pg, rule, "JWS: every critical label is required or a present attribute", "each element of crit is a must-be-critical header or a key of the extended attribute map", t.PH+".Critical", AnyOf(AG("+Has(map*, re("+t.PH+".Critical))"), AG("+Has(mapdel(*), re("+t.PH+".Critical))"), A("+Has("+t.PH+".ExtendedAttributes, re("+t.PH+".Critical))"))) {
				enforced[f.name]["crit-present"] = true
			}
			c.loopFilter = c.lastLoops
			c.onlyAfterExhaustion(pg, rule, "JWS: all critical labels examined", "returning content", t.PH+".Critical", ok)
			c.loopFilter = nil
			// the pending set is only ever reduced by elements of crit
			var badDel []string
			for _, s := range pg.States {
				for _, e := range s.Out {
					for _, l := range e.Labels {
						if l.Kind == "call" && l.T != nil && l.T.Name == "delete" && strings.HasPrefix(l.T.Args[0].Key(), "map") {
							if l.T.Args[1].Key() != "re("+t.PH+".Critical)" {
								badDel = append(badDel, c.P.pos(l.Node.Pos)+": "+l.Key)
							}
						}
					}
				}
			}
			c.add(rule, "JWS: pending set reduced only by crit elements", "entries leave the must-be-critical set only through delete(set, element of crit)", len(badDel) == 0, "", badDel...)
			// signing time taken from the scheme's own field
			good := len(ok) > 0
			var det []string
			for _, s := range ok {
				st := fieldPath(s.Ret[0].T, "SignerInfo", "SignedAttributes", "SigningTime")
				if st == nil || st == tZero {
					continue
				}
				_, viaSA := c.search(pg, []*PState{pg.Entry}, inSet([]*PState{s}), blockedBy(A("+Eq("+schemeX+", "+t.PH+".SigningScheme)")))
				want := "*" + t.PH + ".SigningTime"
				if viaSA {
					want = "*" + t.PH + ".AuthenticSigningTime"
				}
				if st.Key() != want {
					good = false
					det = append(det, "signing time is "+st.Key()+", expected "+want)
				}
			}
			c.add(rule, "JWS: signing time comes from the scheme's own header", "x509 copies io.cncf.notary.signingTime, signingAuthority copies io.cncf.notary.authenticSigningTime", good, posOf(pg, ok), det...)
			if good {
				enforced[f.name]["time-by-scheme-copy"] = true
			}
			returnedTimeIsHeader(c, pg, ok, "JWS", "SigningTime", []string{"*" + t.PH + ".SigningTime", "*" + t.PH + ".AuthenticSigningTime"}, AnyOf(A("+IsNil("+t.PH+".SigningTime)"), A("+IsNil("+t.PH+".AuthenticSigningTime)")), "the scheme's time header is absent")
			returnedTimeIsHeader(c, pg, ok, "JWS", "Expiry", []string{"*" + t.PH + ".Expiry"}, A("+IsNil("+t.PH+".Expiry)"), "the expiry header is absent")
			c.perIteration(pg, rule, "JWS: every chain element parses", "each certificate of the x5c header parses", "recv.base.Header.CertChain", A("+IsNil(crypto/x509.ParseCertificate(re(recv.base.Header.CertChain))#1)"))
		case "COSE":
			rule = "O-C07.3"
			t := coseNames(c)
			if t.algMap == "" || t.labelMap == "" {
				c.undecided(rule, "COSE tables", "algorithm map or scheme->label map not found in the cose package", "")
				continue
			}
			reqs = coseContentReqs(t)
			chain := "recv.base.Headers.Unprotected[33].([]any)"
			c.perIteration(pg, rule, "COSE: every chain element is a byte string", "each element of x5chain is a bstr", chain, A("+TypeIs(re("+chain+"), []byte)"))
			c.perIteration(pg, rule, "COSE: every chain element parses", "each certificate of x5chain parses", chain, A("+IsNil(crypto/x509.ParseCertificate(re("+chain+").([]byte))#1)"))
			// signing time read under the label of the scheme (same map object as the writer uses)
			good := len(ok) > 0
			for _, s := range ok {
				st := fieldPath(s.Ret[0].T, "SignerInfo", "SignedAttributes", "SigningTime")
				if st == nil {
					good = false
					continue
				}
				k := st.Key()
				if !(strings.Contains(k, t.P+"["+t.label+"]")) {
					good = false
				}
			}
			cborTime := func(x string) []string {
				return []string{x, "(github.com/fxamacker/cbor/v2.DecMode).Unmarshal(*, " + x + ", &$[time.Time])!2"}
			}
			returnedTimeIsHeader(c, pg, ok, "COSE", "SigningTime", cborTime(t.P+"["+t.label+"]"), LP{Desc: "never", F: func(Label) bool { return false }}, "never")
			returnedTimeIsHeader(c, pg, ok, "COSE", "Expiry", cborTime(t.P+"["+hExpiry+"]"), A("-Has("+t.P+", "+hExpiry+")"), "the expiry header is absent")
			c.add(rule, "COSE: signing time read under the scheme's label", "the signing time is the protected header entry whose label is scheme->label table[scheme]", good, posOf(pg, ok))
			if good {
				enforced[f.name]["time-by-scheme-copy"] = true
			}
		}
		for _, r := range reqs {
			passed := c.mustPass(pg, rule, f.name+": "+r.name, "the "+f.name+" content path succeeds", ok, r.lp)
			if r.R != "" {
				if prev, was := enforced[f.name][r.R]; was {
					enforced[f.name][r.R] = prev && passed
				} else {
					enforced[f.name][r.R] = passed
				}
			}
		}
	}
	// the header each attribute is taken from is found by its exact name: a member that
	// differs from a specification name only by case must not stand in for it (O-C02.5)
	c.floor("header-name rules (shared with C02)", 3, shareRules(c, checkC02, []string{"O-C02.5"}, "O-C07.2", "header names: "))
	// (4) sibling agreement on the abstract rule set
	R := []string{"scheme-in-2", "time-by-scheme", "time-by-scheme-copy", "crit-has-scheme", "crit-has-authtime", "crit-has-expiry", "crit-present", "alg-in-table"}
	if len(fmts) == 2 {
		for _, r := range R {
			a, b := enforced[fmts[0].name][r], enforced[fmts[1].name][r]
			det := []string{}
			if a != b {
				det = append(det, fmts[0].name+" enforces it: "+boolStr(a), fmts[1].name+" enforces it: "+boolStr(b))
			}
			c.add("O-C07.4", "both formats enforce "+r, "rule "+r+" of the abstract envelope rule set is enforced by both the JWS and the COSE content path", a && b, "", det...)
		}
	}
}

// returnedTimeIsHeader (O-C07.5): on every successful return of the content path
// the time attribute field is exactly one of the decoded header values (want;
// "*" inside a pattern matches one argument), or the zero time - and the zero
// time only on paths that established the header's absence.
func returnedTimeIsHeader(c *Check, pg *PG, ok []*PState, format, field string, want []string, absent LP, absentDesc string) {
	var zero []*PState
	var det []string
	for _, s := range ok {
		t := fieldPath(s.Ret[0].T, "SignerInfo", "SignedAttributes", field)
		if t == nil || t == tZero {
			zero = append(zero, s)
			continue
		}
		// the value bound by a type switch, by a comma-ok assertion and by a plain assertion of the
		// header value is the header value
		k := stripAsserts(t).Key()
		match := false
		for _, w := range want {
			if k == w {
				match = true
			} else if i := strings.Index(w, "(*, "); i >= 0 {
				pre, post := w[:i+1], w[i+2:]
				if strings.HasPrefix(k, pre) && strings.HasSuffix(k, post) && !strings.Contains(k[len(pre):len(k)-len(post)], ",") {
					match = true
				}
			}
		}
		if !match {
			det = append(det, c.P.pos(s.Node.Pos)+": "+field+" is "+k)
		}
	}
	c.add("O-C07.5", format+": returned "+field+" is the decoded header value", "the "+field+" of the returned signed attributes is the value decoded from the header, unchanged (or the zero time)", len(det) == 0 && len(ok) > 0, posOf(pg, ok), dedupe(det)...)
	if absentDesc != "never" {
		c.mustPass(pg, "O-C07.5", format+": "+field+" left zero only when "+absentDesc, "returning content with a zero "+field, zero, absent)
	} else {
		c.add("O-C07.5", format+": "+field+" never left zero", "no successful return leaves "+field+" unset", len(zero) == 0, posOf(pg, zero))
	}
}

func boolStr(b bool) string {
	if b {
		return "yes"
	}
	return "NO"
}

// fieldPath projects nested struct fields out of a (pointer to) struct term.
func fieldPath(t *Term, path ...string) *Term {
	for _, f := range path {
		if t == nil {
			return nil
		}
		if t.Op == "addr" {
			t = t.Args[0]
		}
		if t.Op != "struct" {
			return nil
		}
		t = structGet(t, f)
	}
	return t
}

// stripAsserts: t with every assertion to the two types a COSE time header value can have
// (time.Time after parsing, cbor.RawMessage while signing) replaced by its operand.
func stripAsserts(t *Term) *Term {
	if t == nil {
		return nil
	}
	if t.Op == "assert" && len(t.Args) == 1 && len(t.Fields) == 0 && (t.Name == "time.Time" || strings.HasSuffix(t.Name, "cbor/v2.RawMessage")) {
		return stripAsserts(t.Args[0])
	}
	if len(t.Args) == 0 {
		return t
	}
	changed := false
	args := make([]*Term, len(t.Args))
	for i, a := range t.Args {
		args[i] = stripAsserts(a)
		if args[i] != a {
			changed = true
		}
	}
	if !changed {
		return t
	}
	c := *t
	c.Args = args
	c.k = ""
	c.av, c.avDone = nil, false
	return &c
}
