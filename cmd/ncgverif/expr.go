package main

import (
	"fmt"
	"go/ast"
	"go/constant"
	"go/token"
	"go/types"
	"golang.org/x/tools/go/packages"
	"sort"
	"strconv"
	"strings"

	"golang.org/x/tools/go/types/typeutil"
)

func constTerm(v constant.Value) *Term {
	switch v.Kind() {
	case constant.String:
		return konst(strconv.Quote(constant.StringVal(v)))
	case constant.Bool:
		if constant.BoolVal(v) {
			return tTrue
		}
		return tFalse
	case constant.Int:
		return konst(v.ExactString())
	default:
		return konst(v.String())
	}
}

// expr evaluates an expression in value position and returns its term.
func (b *Builder) expr(e ast.Expr) *Term {
	t := b.expr1(e)
	if t != nil && t.Pos == token.NoPos && t.Op != "const" && t.Op != "var" && t != tSelf {
		t.Pos = e.Pos()
	}
	return t
}

func (b *Builder) expr1(e ast.Expr) *Term {
	e = ast.Unparen(e)
	if tv, ok := b.info.Types[e]; ok {
		if tv.Value != nil {
			return constTerm(tv.Value)
		}
		if tv.IsNil() {
			return tNil
		}
	}
	switch x := e.(type) {
	case *ast.Ident:
		return b.ident(x)
	case *ast.BasicLit:
		return konst(x.Value)
	case *ast.SelectorExpr:
		return b.selector(x)
	case *ast.CallExpr:
		ts := b.callMulti(x, 1)
		if len(ts) == 0 {
			return mk("call", "?void")
		}
		return ts[0]
	case *ast.IndexExpr:
		if tv, ok := b.info.Types[x.X]; ok {
			if _, isSig := tv.Type.Underlying().(*types.Signature); isSig {
				return b.expr(x.X) // generic instantiation
			}
		}
		if ts := b.constScalarMapLookup(x, false); ts != nil {
			return ts[0]
		}
		if ts := b.constStructMapLookup(x, false); ts != nil {
			return ts[0]
		}
		it := mk("index", "", b.expr(x.X), b.expr(x.Index))
		if _, isMap := b.info.TypeOf(x.X).Underlying().(*types.Map); !isMap {
			ist := &Site{Kind: "index", Pos: x.Lbrack, T: it, Base: it.Args[0], Idx: it.Args[1], Why: b.P.typeStr(b.info.TypeOf(x.X))}
			if id, ok := ast.Unparen(x.Index).(*ast.Ident); ok {
				if y := b.P.counterLoopBound(b.info.Uses[id]); y != nil {
					ist.LoopBound = b.expr(y)
				} else if y := b.P.counterLoopButLast(b.info.Uses[id]); y != nil {
					ist.LoopBound = b.expr(y)
				}
			}
			b.site(ist)
		}
		return it
	case *ast.IndexListExpr:
		return b.expr(x.X)
	case *ast.SliceExpr:
		lo, hi := (*Term)(nil), (*Term)(nil)
		if x.Low != nil {
			lo = b.expr(x.Low)
		}
		if x.High != nil {
			hi = b.expr(x.High)
		}
		slt := mk("slice", "", b.expr(x.X), lo, hi)
		b.site(&Site{Kind: "slice", Pos: x.Lbrack, T: slt, Base: slt.Args[0], Lo: lo, Hi: hi, Why: b.P.typeStr(b.info.TypeOf(x.X))})
		return slt
	case *ast.StarExpr:
		dt := mk("deref", "", b.expr(x.X))
		b.site(&Site{Kind: "deref", Pos: x.Star, T: dt, Base: dt.Args[0], Why: "explicit *"})
		return dt
	case *ast.UnaryExpr:
		switch x.Op {
		case token.AND:
			return b.addrOf(b.expr(x.X))
		case token.NOT:
			return b.lowerBool(e)
		case token.ARROW:
			t := mk("call", "chanrecv", b.expr(x.X))
			b.pending = append(b.pending, t)
			return t
		default:
			return mk("un", x.Op.String(), b.expr(x.X))
		}
	case *ast.BinaryExpr:
		switch x.Op {
		case token.LAND, token.LOR, token.EQL, token.NEQ, token.LSS, token.LEQ, token.GTR, token.GEQ:
			return b.lowerBool(e)
		}
		return mk("bin", x.Op.String(), b.expr(x.X), b.expr(x.Y))
	case *ast.CompositeLit:
		return b.compositeLit(x)
	case *ast.FuncLit:
		return b.funcLit(x)
	case *ast.TypeAssertExpr:
		at := b.assertTerm(x)
		if x.Type != nil {
			b.site(&Site{Kind: "assert1", Pos: x.Lparen, T: at, Base: at.Args[0], Why: at.Name})
		}
		return at
	case *ast.KeyValueExpr:
		return b.expr(x.Value)
	}
	b.unsupported(e.Pos(), fmt.Sprintf("expression %T", e))
	return &Term{Op: "opaque", Name: "?expr"}
}

// lowerBool evaluates a boolean operator expression in value position by
// branching and materialising a constant.
func (b *Builder) lowerBool(e ast.Expr) *Term {
	tmp := b.tempVar("b", types.Typ[types.Bool])
	t, f, done := b.label(), b.label(), b.label()
	b.cond(e, t, f)
	b.start(t)
	b.assignVar(tmp, tTrue, e.Pos())
	b.jump(done)
	b.start(f)
	b.assignVar(tmp, tFalse, e.Pos())
	b.jump(done)
	b.start(done)
	return varTerm(tmp)
}

func (b *Builder) addrOf(t *Term) *Term {
	if t.Op == "var" {
		t.V.Pinned = true
		name := "?"
		if t.V.Typ != nil {
			name = b.stableTypeName(t.V.Typ)
		}
		return &Term{Op: "addrvar", Name: name, V: t.V}
	}
	if t.Op == "deref" {
		return t.Args[0]
	}
	return mk("addr", "", t)
}

// stableTypeName: exported names as they are; unexported module types by the
// kind of their underlying type (so renaming them does not change term keys).
func (b *Builder) stableTypeName(t types.Type) string {
	if n, ok := t.(*types.Named); ok {
		if n.Obj().Exported() || n.Obj().Pkg() == nil {
			return b.P.typeStr(t)
		}
		switch u := n.Underlying().(type) {
		case *types.Struct:
			return "struct"
		default:
			return b.P.typeStr(u)
		}
	}
	if a, ok := t.(*types.Alias); ok {
		return b.stableTypeName(types.Unalias(a))
	}
	return b.P.typeStr(t)
}

func isPkgLevel(v *types.Var) bool {
	return v.Pkg() != nil && v.Parent() == v.Pkg().Scope()
}

func (b *Builder) ident(id *ast.Ident) *Term {
	obj := b.info.Uses[id]
	if obj == nil {
		obj = b.info.Defs[id]
	}
	switch o := obj.(type) {
	case *types.Var:
		if isPkgLevel(o) {
			return b.global(o)
		}
		return varTerm(b.useVar(o))
	case *types.Func:
		return &Term{Op: "fn", Name: b.P.abbrev(o.FullName())}
	case *types.Nil:
		return tNil
	case *types.Const:
		return constTerm(o.Val())
	}
	return &Term{Op: "opaque", Name: "?" + id.Name}
}

// global returns the term of a package-level variable. Variables initialised
// with a composite literal of constants (object identifiers) are rendered by
// value, so that their names do not matter.
func (b *Builder) global(v *types.Var) *Term {
	name := b.P.abbrev(v.Pkg().Path()) + "." + v.Name()
	if pk := b.P.All[v.Pkg().Path()]; pk != nil && (isProductPkg(pk.PkgPath, b.P.ModPath)) {
		if init := findInit(pk.Syntax, pk.TypesInfo, v); init != nil {
			if cl, ok := ast.Unparen(init).(*ast.CompositeLit); ok {
				allConst := len(cl.Elts) > 0
				var elts []*Term
				for _, e := range cl.Elts {
					tv, ok := pk.TypesInfo.Types[e]
					if !ok || tv.Value == nil {
						allConst = false
						break
					}
					elts = append(elts, constTerm(tv.Value))
				}
				if allConst {
					return &Term{Op: "list", Name: b.P.typeStr(v.Type()), Args: elts}
				}
				// a never-written list of other package-level values that are themselves rendered by
				// value (a table of object identifiers given by name)
				if len(cl.Elts) > 0 && len(cl.Elts) <= 32 && b.P.neverWritten(v) {
					var byVal []*Term
					for _, e := range cl.Elts {
						id, isId := ast.Unparen(e).(*ast.Ident)
						if !isId {
							byVal = nil
							break
						}
						ev, isVar := pk.TypesInfo.Uses[id].(*types.Var)
						if !isVar || !isPkgLevel(ev) || ev == v {
							byVal = nil
							break
						}
						et := b.global(ev)
						if et.Op != "list" {
							byVal = nil
							break
						}
						byVal = append(byVal, et)
					}
					if byVal != nil {
						return &Term{Op: "list", Name: b.P.typeStr(v.Type()), Args: byVal}
					}
				}
				nonNilGlobals[name] = true
				// a never-written table of rows with constant fields is rendered by value
				// (a loop over it unrolls like the sequence of checks it replaces)
				if t := b.constRowTable(pk, v, cl); t != nil {
					return t
				}
			}
			if call, ok := ast.Unparen(init).(*ast.CallExpr); ok {
				if fn, ok := typeutil.Callee(pk.TypesInfo, call).(*types.Func); ok {
					switch fn.FullName() {
					case "errors.New", "fmt.Errorf":
						nonNilGlobals[name] = true
					default:
						// an object built once by an external constructor and never written again
						// (neither the variable nor anything through it) is its constructor call
						if fn.Pkg() != nil && !strings.HasPrefix(fn.Pkg().Path(), b.P.ModPath) && b.P.neverWritten(v) {
							if t := b.closedInitTerm(pk, call); t != nil {
								nonNilGlobals[name] = true
								return t
							}
						}
					}
				}
			}
		}
	}
	return &Term{Op: "global", Name: name}
}

// constRowTable: the value of a never-written package-level slice/array of
// structs every field of which is a constant (at most 32 rows).
func (b *Builder) constRowTable(pk *packages.Package, v *types.Var, cl *ast.CompositeLit) *Term {
	var et types.Type
	switch u := v.Type().Underlying().(type) {
	case *types.Slice:
		et = u.Elem()
	case *types.Array:
		et = u.Elem()
	default:
		return nil
	}
	st, ok := et.Underlying().(*types.Struct)
	if !ok || len(cl.Elts) == 0 || len(cl.Elts) > 32 || !b.P.neverWritten(v) {
		return nil
	}
	var rows []*Term
	for _, e := range cl.Elts {
		if kv, isKV := e.(*ast.KeyValueExpr); isKV {
			_ = kv
			return nil // indexed rows: not a plain table
		}
		rl, ok := ast.Unparen(e).(*ast.CompositeLit)
		if !ok {
			return nil
		}
		row := &Term{Op: "struct", Name: b.P.typeStr(et), Args: []*Term{tZero}}
		for i, fe := range rl.Elts {
			fname := ""
			ve := fe
			if fkv, isKV := fe.(*ast.KeyValueExpr); isKV {
				id, ok := fkv.Key.(*ast.Ident)
				if !ok {
					return nil
				}
				fname, ve = id.Name, fkv.Value
			} else if i < st.NumFields() {
				fname = st.Field(i).Name()
			}
			tv, has := pk.TypesInfo.Types[ve]
			if fname == "" || !has || tv.Value == nil {
				return nil
			}
			row = structSet(row, row.Name, fname, constTerm(tv.Value))
		}
		rows = append(rows, row)
	}
	return &Term{Op: "list", Name: b.P.typeStr(v.Type()), Args: rows}
}

func findInit(files []*ast.File, info *types.Info, v *types.Var) ast.Expr {
	for _, f := range files {
		for _, d := range f.Decls {
			gd, ok := d.(*ast.GenDecl)
			if !ok || gd.Tok != token.VAR {
				continue
			}
			for _, sp := range gd.Specs {
				vs := sp.(*ast.ValueSpec)
				for i, nm := range vs.Names {
					if info.Defs[nm] == v && i < len(vs.Values) && len(vs.Values) == len(vs.Names) {
						return vs.Values[i]
					}
				}
			}
		}
	}
	return nil
}

func (b *Builder) selector(x *ast.SelectorExpr) *Term {
	if sel, ok := b.info.Selections[x]; ok {
		base := b.expr(x.X)
		switch sel.Kind() {
		case types.FieldVal:
			t, _ := b.walkFields(base, sel.Recv(), sel.Index())
			return t
		case types.MethodVal:
			return mk("mval", b.P.abbrev(sel.Obj().(*types.Func).FullName()), base)
		case types.MethodExpr:
			return &Term{Op: "fn", Name: b.P.abbrev(sel.Obj().(*types.Func).FullName())}
		}
	}
	// qualified identifier
	return b.ident(x.Sel)
}

// site records a panic-capable construct of the instance being built.
func (b *Builder) site(s *Site) {
	s.Inst = b.inst
	if s.Pos == token.NoPos && s.T != nil {
		s.Pos = s.T.Pos
	}
	b.G.Sites = append(b.G.Sites, s)
}

// callErrIdx: for every non-inlined callee seen, the index of its error
// result (-1: none) and the number of results.
var callErrIdx = map[string][2]int{}

func registerCallSig(name string, sig *types.Signature) {
	n := sig.Results().Len()
	k := -1
	if n > 0 {
		if nt, ok := sig.Results().At(n - 1).Type().(*types.Named); ok && nt.Obj().Pkg() == nil && nt.Obj().Name() == "error" {
			k = n - 1
		}
	}
	callErrIdx[name] = [2]int{k, n}
}

// derefArgs: external callees that dereference a pointer argument (index into
// receiver-first argument list).
var derefArgs = map[string][]int{
	"(*math/big.Int).Cmp":    {1},
	"(*math/big.Int).CmpAbs": {1},
	"(*math/big.Int).Set":    {1},
	"(*math/big.Int).Add":    {1, 2},
	"(*math/big.Int).Sub":    {1, 2},
}

// walkFields follows a selection index path through (possibly embedded) fields.
func (b *Builder) walkFields(base *Term, t types.Type, idx []int) (*Term, types.Type) {
	for _, i := range idx {
		viaPtr := false
		if p, ok := t.Underlying().(*types.Pointer); ok {
			t = p.Elem()
			viaPtr = true
		}
		st, ok := t.Underlying().(*types.Struct)
		if !ok {
			return mk("field", "?", base), t
		}
		f := st.Field(i)
		ft := mk("field", f.Name(), base)
		ft.Owner = b.P.typeStr(t)
		if viaPtr {
			b.site(&Site{Kind: "deref", T: ft, Base: base, Why: "field " + f.Name()})
		}
		base = ft
		t = f.Type()
	}
	return base, t
}

func (b *Builder) compositeLit(x *ast.CompositeLit) *Term {
	t := b.info.TypeOf(x)
	if t == nil {
		return &Term{Op: "opaque", Name: "?lit"}
	}
	if pt, ok := t.Underlying().(*types.Pointer); ok && x.Type == nil {
		// elided &T{...} inside a composite literal
		return mk("addr", "", b.compositeLitOf(x, pt.Elem()))
	}
	return b.compositeLitOf(x, t)
}

func (b *Builder) compositeLitOf(x *ast.CompositeLit, t types.Type) *Term {
	elemPtrWrap := func(e ast.Expr, et types.Type) *Term {
		return b.expr(e)
	}
	switch u := t.Underlying().(type) {
	case *types.Struct:
		out := &Term{Op: "struct", Name: b.P.typeStr(t), Args: []*Term{tZero}}
		defer func() { out.Pos = x.Pos() }()
		for i, e := range x.Elts {
			if kv, ok := e.(*ast.KeyValueExpr); ok {
				name := kv.Key.(*ast.Ident).Name
				var ft types.Type
				for j := 0; j < u.NumFields(); j++ {
					if u.Field(j).Name() == name {
						ft = u.Field(j).Type()
					}
				}
				out = structSet(out, out.Name, name, elemPtrWrap(kv.Value, ft))
			} else if i < u.NumFields() {
				out = structSet(out, out.Name, u.Field(i).Name(), elemPtrWrap(e, u.Field(i).Type()))
			}
		}
		return out
	case *types.Slice, *types.Array:
		var et types.Type
		if s, ok := u.(*types.Slice); ok {
			et = s.Elem()
		} else {
			et = u.(*types.Array).Elem()
		}
		out := &Term{Op: "list", Name: b.P.typeStr(t)}
		for _, e := range x.Elts {
			if kv, ok := e.(*ast.KeyValueExpr); ok {
				out.Args = append(out.Args, elemPtrWrap(kv.Value, et))
				continue
			}
			out.Args = append(out.Args, elemPtrWrap(e, et))
		}
		return out
	case *types.Map:
		out := &Term{Op: "maplit", Name: b.P.typeStr(t)}
		for _, e := range x.Elts {
			kv := e.(*ast.KeyValueExpr)
			out.Args = append(out.Args, b.expr(kv.Key), elemPtrWrap(kv.Value, u.Elem()))
		}
		return out
	}
	return &Term{Op: "opaque", Name: "?lit"}
}

func (b *Builder) funcLit(x *ast.FuncLit) *Term {
	b.inst.nlits++
	root := b.inst
	for root.Lexical != nil {
		root = root.Lexical
	}
	t := &Term{Op: "closure", Name: "#" + strconv.Itoa(len(b.G.Lits))}
	b.markCaptured(x)
	// summary: a literal whose body is a single return statement
	if len(x.Body.List) == 1 {
		if rs, ok := x.Body.List[0].(*ast.ReturnStmt); ok {
			simple := true
			for _, r := range rs.Results {
				ast.Inspect(r, func(n ast.Node) bool {
					switch n.(type) {
					case *ast.FuncLit:
						simple = false
					case *ast.BinaryExpr, *ast.UnaryExpr:
						// boolean operators would be lowered into branches
						simple = false
					}
					return simple
				})
			}
			if simple {
				// parameters of the literal are lambda-bound
				i := 0
				for _, f := range x.Type.Params.List {
					for _, nm := range f.Names {
						if obj := b.info.Defs[nm]; obj != nil {
							v := b.declVar(obj)
							v.Name = "λ" + strconv.Itoa(i)
						}
						i++
					}
				}
				save := b.pending
				b.pending = nil
				old := b.maxDepth
				b.maxDepth = -1
				for _, r := range rs.Results {
					t.Args = append(t.Args, b.expr(r))
				}
				b.maxDepth = old
				b.pending = save
			}
		}
	}
	b.G.Lits[t.Name] = &LitInfo{Lit: x, Info: b.info, Inst: b.inst}
	return t
}

func (b *Builder) assertTerm(x *ast.TypeAssertExpr) *Term {
	t := &Term{Op: "assert", Name: b.P.typeStr(b.info.TypeOf(x.Type)), Args: []*Term{b.expr(x.X)}}
	if types.IsInterface(b.info.TypeOf(x.Type)) {
		t.Fields = []string{"iface"}
	}
	return t
}

// multi evaluates an expression yielding n values.
func (b *Builder) multi(e ast.Expr, n int) []*Term {
	e = ast.Unparen(e)
	switch x := e.(type) {
	case *ast.CallExpr:
		ts := b.callMulti(x, n)
		for len(ts) < n {
			ts = append(ts, &Term{Op: "opaque", Name: "?missing"})
		}
		return ts
	case *ast.IndexExpr:
		if ts := b.constScalarMapLookup(x, true); ts != nil {
			return ts
		}
		if ts := b.constStructMapLookup(x, true); ts != nil {
			return ts
		}
		t := mk("index", "", b.expr(x.X), b.expr(x.Index))
		return []*Term{t, mk("ok", "", t)}
	case *ast.TypeAssertExpr:
		t := b.assertTerm(x)
		return []*Term{t, mk("ok", "", t)}
	case *ast.UnaryExpr:
		if x.Op == token.ARROW {
			t := mk("call", "chanrecv", b.expr(x.X))
			b.pending = append(b.pending, t)
			return []*Term{t, mk("ok", "", t)}
		}
	}
	b.unsupported(e.Pos(), fmt.Sprintf("multi-value expression %T", e))
	out := make([]*Term, n)
	for i := range out {
		out[i] = &Term{Op: "opaque", Name: "?multi"}
	}
	return out
}

// callMulti evaluates a call; nres is the number of results wanted (-1: any).
func (b *Builder) callMulti(call *ast.CallExpr, nres int) []*Term {
	fun := ast.Unparen(call.Fun)
	// conversion
	if tv, ok := b.info.Types[fun]; ok && tv.IsType() {
		if len(call.Args) == 1 {
			return []*Term{b.expr(call.Args[0])}
		}
		return []*Term{{Op: "opaque", Name: "?conv"}}
	}
	// builtins
	if id, ok := fun.(*ast.Ident); ok {
		if bi, ok := b.info.Uses[id].(*types.Builtin); ok {
			return b.builtin(bi.Name(), call)
		}
	}
	if lit, ok := fun.(*ast.FuncLit); ok {
		var args []*Term
		for _, a := range call.Args {
			args = append(args, b.expr(a))
		}
		return b.inlineLit(lit, args, call.Pos(), nres)
	}
	callee := b.staticCallee(call)
	if fn, ok := callee.(*types.Func); ok {
		sig := fn.Type().(*types.Signature)
		var recv *Term
		if sig.Recv() != nil {
			if sel, ok := fun.(*ast.SelectorExpr); ok {
				recv = b.recvTerm(sel, sig)
			}
		}
		args := b.args(call, sig)
		isIface := sig.Recv() != nil && types.IsInterface(sig.Recv().Type())
		name := b.P.abbrev(fn.FullName())
		if _, isTable := b.P.pureTable(fn); isTable && len(args) == 1 {
			// a finite table written as a function: the same terms as a lookup in the map form
			it := mk("index", "", &Term{Op: "global", Name: name}, args[0])
			return []*Term{it, mk("ok", "", it)}
		}
		if !isIface {
			if fs := b.P.Funcs[fn.Origin()]; fs != nil && b.inst.Depth < b.maxDepth && !b.onStack(fs.Obj) && !b.noInline[name] {
				if sig.Variadic() && !call.Ellipsis.IsValid() {
					np := sig.Params().Len()
					fixed := args
					var rest []*Term
					if len(args) >= np-1 {
						fixed, rest = args[:np-1], args[np-1:]
					}
					pack := &Term{Op: "list", Name: b.P.typeStr(sig.Params().At(np - 1).Type()), Args: rest}
					args = append(append([]*Term{}, fixed...), pack)
				}
				// function literals handed to function-typed parameters are called through them
				var bound []types.Object
				k := 0
				for _, f := range fs.Decl.Type.Params.List {
					for _, nm := range f.Names {
						if k < len(call.Args) && !(sig.Variadic() && k >= sig.Params().Len()-1) {
							if id, isId := ast.Unparen(call.Args[k]).(*ast.Ident); isId {
								// a local variable that only ever holds function literals
								if v, isVar := b.info.Uses[id].(*types.Var); isVar && !isPkgLevel(v) {
									if _, isFn := v.Type().Underlying().(*types.Signature); isFn {
										if lits := b.funcVarLits(v); len(lits) > 0 {
											if o := fs.Pkg.TypesInfo.Defs[nm]; o != nil {
												if b.litBind == nil {
													b.litBind = map[types.Object][]*ast.FuncLit{}
												}
												b.litBind[o] = lits
												bound = append(bound, o)
											}
										}
									}
								}
							}
							if fl, isLit := ast.Unparen(call.Args[k]).(*ast.FuncLit); isLit {
								if o := fs.Pkg.TypesInfo.Defs[nm]; o != nil {
									if b.litBind == nil {
										b.litBind = map[types.Object][]*ast.FuncLit{}
									}
									b.litBind[o] = []*ast.FuncLit{fl}
									if k < len(args) && args[k] != nil && args[k].Op == "closure" {
										if b.litBindName == nil {
											b.litBindName = map[*ast.FuncLit]string{}
										}
										b.litBindName[fl] = args[k].Name
									}
									bound = append(bound, o)
								}
							}
						}
						k++
					}
					if len(f.Names) == 0 {
						k++
					}
				}
				out := b.inlineFunc(fs, recv, args, call.Pos())
				for _, o := range bound {
					for _, fl := range b.litBind[o] {
						delete(b.litBindName, fl)
					}
					delete(b.litBind, o)
				}
				return out
			}
		}
		all := args
		if recv != nil {
			all = append([]*Term{recv}, args...)
		}
		t := &Term{Op: "call", Name: name, Args: all, Pos: call.Pos()}
		b.pending = append(b.pending, t)
		n := sig.Results().Len()
		registerCallSig(name, sig)
		if recv != nil {
			_, rp := sig.Recv().Type().Underlying().(*types.Pointer)
			if rp || isIface {
				b.site(&Site{Kind: "deref", Pos: call.Pos(), T: t, Base: recv, Why: "method " + fn.Name()})
			}
		}
		for _, ai := range derefArgs[name] {
			if ai < len(all) {
				b.site(&Site{Kind: "deref", Pos: call.Pos(), T: t, Base: all[ai], Why: "argument of " + fn.Name()})
			}
		}
		if n <= 1 {
			return []*Term{t}
		}
		out := make([]*Term, n)
		for i := range out {
			out[i] = &Term{Op: "res", Name: strconv.Itoa(i), Args: []*Term{t}, Pos: call.Pos()}
		}
		return out
	}
	// a local function variable that only ever holds literals of this function: dispatch on
	// which literal it holds (decided by the store at exploration) and inline that body
	if id, ok := fun.(*ast.Ident); ok {
		if v, ok := b.info.Uses[id].(*types.Var); ok && !isPkgLevel(v) && b.inst.Depth < b.maxDepth {
			if lits := b.funcVarLits(v); len(lits) > 0 {
				return b.dispatchLits(call, id, lits)
			}
			if root := b.rootFuncSrc(); root != nil && root.Pkg.TypesInfo == b.info {
				if lits, named := rangeOverFuncs(root.Decl.Body, b.info, v); len(named) > 0 {
					b.dispatchFns = named
					out := b.dispatchLits(call, id, lits)
					b.dispatchFns = nil
					return out
				}
			}
			if out, ok := b.handlerMapCall(call, id, v); ok {
				return out
			}
		}
	}
	// dynamic call through a function value
	ft := b.expr(fun)
	var args []*Term
	for _, a := range call.Args {
		args = append(args, b.expr(a))
	}
	t := &Term{Op: "call", Name: "dyn", Args: append([]*Term{ft}, args...), Pos: call.Pos()}
	b.pending = append(b.pending, t)
	n := 1
	if tv, ok := b.info.Types[fun]; ok {
		if sig, ok := tv.Type.Underlying().(*types.Signature); ok {
			n = sig.Results().Len()
		}
	}
	if n <= 1 {
		return []*Term{t}
	}
	out := make([]*Term, n)
	for i := range out {
		out[i] = &Term{Op: "res", Name: strconv.Itoa(i), Args: []*Term{t}, Pos: call.Pos()}
	}
	return out
}

func (b *Builder) recvTerm(sel *ast.SelectorExpr, sig *types.Signature) *Term {
	base := b.expr(sel.X)
	xt := b.info.TypeOf(sel.X)
	if s, ok := b.info.Selections[sel]; ok {
		idx := s.Index()
		if len(idx) > 1 {
			base, xt = b.walkFields(base, s.Recv(), idx[:len(idx)-1])
		}
	}
	if xt == nil {
		return base
	}
	_, recvPtr := sig.Recv().Type().Underlying().(*types.Pointer)
	_, xPtr := xt.Underlying().(*types.Pointer)
	if types.IsInterface(sig.Recv().Type()) {
		return base
	}
	if recvPtr && !xPtr {
		return b.addrOf(base)
	}
	if !recvPtr && xPtr {
		// value method called through a pointer: implicit dereference
		dt := mk("deref", "", base)
		b.site(&Site{Kind: "deref", Pos: sel.Sel.Pos(), T: dt, Base: base, Why: "value method " + sel.Sel.Name})
		return dt
	}
	return base
}

func (b *Builder) args(call *ast.CallExpr, sig *types.Signature) []*Term {
	var out []*Term
	if len(call.Args) == 1 && sig.Params().Len() > 1 {
		if tup, ok := b.info.TypeOf(call.Args[0]).(*types.Tuple); ok && tup.Len() > 1 {
			// f(g()) with g returning a tuple
			return b.multi(call.Args[0], tup.Len())
		}
	}
	for i, a := range call.Args {
		t := b.expr(a)
		if call.Ellipsis.IsValid() && i == len(call.Args)-1 {
			t = mk("spread", "", t)
		}
		out = append(out, t)
	}
	return out
}

func (b *Builder) builtin(name string, call *ast.CallExpr) []*Term {
	var args []*Term
	for i, a := range call.Args {
		if (name == "make" || name == "new") && i == 0 {
			args = append(args, konst(b.P.typeStr(b.info.TypeOf(a))))
			continue
		}
		t := b.expr(a)
		if call.Ellipsis.IsValid() && i == len(call.Args)-1 {
			t = mk("spread", "", t)
		}
		args = append(args, t)
	}
	t := &Term{Op: "call", Name: name, Args: args, Pos: call.Pos()}
	switch name {
	case "delete", "copy", "close", "print", "println", "clear":
		b.pending = append(b.pending, t)
	case "panic":
		// panic in value position (should not happen); record as event
		b.pending = append(b.pending, t)
	case "recover":
		b.pending = append(b.pending, t)
	}
	return []*Term{t}
}

// closedInitTerm evaluates a package-level initialiser call into a term that
// mentions no local state (constants, other globals, nested external calls).
func (b *Builder) closedInitTerm(pk *packages.Package, call *ast.CallExpr) *Term {
	sub := &Builder{P: b.P, G: &Graph{P: b.P, Lits: map[string]*LitInfo{}}, info: pk.TypesInfo, vars: map[varKey]*Var{}, maxDepth: -1, noInline: map[string]bool{}}
	sub.inst = &Instance{ID: 0, Name: "init"}
	sub.G.Insts = append(sub.G.Insts, sub.inst)
	sub.cur = sub.newNode(NNop, call.Pos())
	defer func() { _ = recover() }()
	t := sub.expr(call)
	closed := true
	var walk func(x *Term, d int)
	walk = func(x *Term, d int) {
		if x == nil || d > 12 {
			return
		}
		switch x.Op {
		case "var", "addrvar", "opaque", "closure", "param":
			closed = false
		}
		for _, a := range x.Args {
			walk(a, d+1)
		}
	}
	walk(t, 0)
	if !closed || t == nil || t.Op != "call" {
		return nil
	}
	return t
}

// litParamArgs: v is a function-typed parameter of a function literal that is
// bound once to a local variable f (f := func(.., v func(..), ..) {..}), f is
// only ever called directly, v is never assigned, and every call of f passes a
// function literal for v: returns those literals (the values v can hold).
func litParamArgs(body *ast.BlockStmt, info *types.Info, v *types.Var) []*ast.FuncLit {
	if _, isFunc := v.Type().Underlying().(*types.Signature); !isFunc {
		return nil
	}
	var host *ast.FuncLit
	idx := -1
	ast.Inspect(body, func(n ast.Node) bool {
		fl, ok := n.(*ast.FuncLit)
		if !ok || fl.Type.Params == nil {
			return true
		}
		k := 0
		for _, f := range fl.Type.Params.List {
			for _, nm := range f.Names {
				if info.Defs[nm] == v {
					host, idx = fl, k
				}
				k++
			}
		}
		return true
	})
	if host == nil {
		return nil
	}
	// the variable the host literal is bound to
	var fobj types.Object
	nbind := 0
	ast.Inspect(body, func(n ast.Node) bool {
		switch x := n.(type) {
		case *ast.AssignStmt:
			for i, r := range x.Rhs {
				if ast.Unparen(r) == ast.Expr(host) && len(x.Lhs) == len(x.Rhs) {
					if id, ok := x.Lhs[i].(*ast.Ident); ok {
						if o := info.Defs[id]; o != nil {
							fobj = o
						} else {
							fobj = info.Uses[id]
						}
						nbind++
					}
				}
			}
		case *ast.ValueSpec:
			for i, r := range x.Values {
				if ast.Unparen(r) == ast.Expr(host) && i < len(x.Names) {
					fobj = info.Defs[x.Names[i]]
					nbind++
				}
			}
		}
		return true
	})
	if fobj == nil || nbind != 1 {
		return nil
	}
	var lits []*ast.FuncLit
	ok := true
	calls := map[*ast.Ident]bool{}
	ast.Inspect(body, func(n ast.Node) bool {
		call, isCall := n.(*ast.CallExpr)
		if !isCall {
			return true
		}
		id, isId := ast.Unparen(call.Fun).(*ast.Ident)
		if !isId || info.Uses[id] != fobj {
			return true
		}
		calls[id] = true
		if idx >= len(call.Args) || call.Ellipsis.IsValid() {
			ok = false
			return true
		}
		if fl, isLit := ast.Unparen(call.Args[idx]).(*ast.FuncLit); isLit {
			lits = append(lits, fl)
		} else {
			ok = false
		}
		return true
	})
	// f is used only in call position (and at its single binding); v is never assigned or has its address taken
	ast.Inspect(body, func(n ast.Node) bool {
		switch x := n.(type) {
		case *ast.Ident:
			if info.Uses[x] == fobj && !calls[x] {
				ok = false
			}
		case *ast.AssignStmt:
			for _, l := range x.Lhs {
				if id, isId := l.(*ast.Ident); isId && info.Uses[id] == v {
					ok = false
				}
			}
		case *ast.UnaryExpr:
			if id, isId := ast.Unparen(x.X).(*ast.Ident); isId && x.Op == token.AND && info.Uses[id] == v {
				ok = false
			}
		}
		return true
	})
	if !ok || len(lits) == 0 {
		return nil
	}
	return lits
}

// rootFuncSrc: the source of the function whose body is being built (through literals).
func (b *Builder) rootFuncSrc() *FuncSrc {
	root := b.inst
	for root != nil && root.Fn == nil {
		if root.Lexical != nil {
			root = root.Lexical
		} else {
			root = root.Parent
		}
	}
	if root == nil || root.Fn == nil {
		return nil
	}
	return b.P.Funcs[root.Fn.Origin()]
}

// rangeOverLits: v is the value variable of a range over a list of function literals - the
// composite literal itself or a local variable bound once to it (a table of checks run in order).
func rangeOverLits(body *ast.BlockStmt, info *types.Info, v *types.Var) []*ast.FuncLit {
	lits, _ := rangeOverFuncs(body, info, v)
	return lits
}

// rangeOverFuncs: as rangeOverLits, for a list that mixes function literals and named functions;
// the second result lists the named ones (nil lits and nil fns: not such a loop).
func rangeOverFuncs(body *ast.BlockStmt, info *types.Info, v *types.Var) ([]*ast.FuncLit, []*types.Func) {
	var lits []*ast.FuncLit
	var named []*types.Func
	var curNamed []*types.Func
	litsOf := func(e ast.Expr) []*ast.FuncLit {
		curNamed = nil
		cl, ok := ast.Unparen(e).(*ast.CompositeLit)
		if !ok || len(cl.Elts) == 0 {
			return nil
		}
		out := []*ast.FuncLit{}
		for _, el := range cl.Elts {
			if kv, isKV := el.(*ast.KeyValueExpr); isKV {
				el = kv.Value
			}
			switch x := ast.Unparen(el).(type) {
			case *ast.FuncLit:
				out = append(out, x)
				continue
			case *ast.Ident:
				if fn, isFn := info.Uses[x].(*types.Func); isFn {
					curNamed = append(curNamed, fn)
					continue
				}
			case *ast.SelectorExpr:
				if fn, isFn := info.Uses[x.Sel].(*types.Func); isFn {
					if _, isSel := info.Selections[x]; !isSel {
						curNamed = append(curNamed, fn)
						continue
					}
				}
			}
			curNamed = nil
			return nil
		}
		return out
	}
	ast.Inspect(body, func(n ast.Node) bool {
		rs, ok := n.(*ast.RangeStmt)
		if !ok || rs.Value == nil {
			return true
		}
		id, ok := rs.Value.(*ast.Ident)
		if !ok || info.Defs[id] != v {
			return true
		}
		if l := litsOf(rs.X); l != nil {
			lits, named = l, curNamed
			return true
		}
		xid, ok := ast.Unparen(rs.X).(*ast.Ident)
		if !ok {
			return true
		}
		xo := info.Uses[xid]
		// the list variable: bound exactly once, to a literal of function literals, never indexed for writing
		nbind := 0
		var found []*ast.FuncLit
		var foundNamed []*types.Func
		okAll := true
		ast.Inspect(body, func(m ast.Node) bool {
			switch x := m.(type) {
			case *ast.AssignStmt:
				for i, l := range x.Lhs {
					if lid, isId := l.(*ast.Ident); isId && (info.Defs[lid] == xo || info.Uses[lid] == xo) {
						nbind++
						if len(x.Rhs) == len(x.Lhs) {
							found = litsOf(x.Rhs[i])
							foundNamed = curNamed
						}
					}
					if ix, isIx := l.(*ast.IndexExpr); isIx {
						if bid, isId := ast.Unparen(ix.X).(*ast.Ident); isId && info.Uses[bid] == xo {
							okAll = false
						}
					}
				}
			case *ast.ValueSpec:
				for i, nm := range x.Names {
					if info.Defs[nm] == xo {
						nbind++
						if i < len(x.Values) {
							found = litsOf(x.Values[i])
							foundNamed = curNamed
						}
					}
				}
			}
			return true
		})
		if nbind == 1 && okAll && found != nil {
			lits, named = found, foundNamed
		}
		return true
	})
	if len(lits) == 0 && len(named) == 0 {
		return nil, nil
	}
	return lits, named
}

// funcVarLits: every assignment to the local function variable v (in the
// function that declares it) is a function literal; returns them.
func (b *Builder) funcVarLits(v *types.Var) []*ast.FuncLit {
	if l, ok := b.litBind[v]; ok {
		return l
	}
	root := b.inst
	for root != nil && root.Fn == nil {
		if root.Lexical != nil {
			root = root.Lexical
		} else {
			root = root.Parent
		}
	}
	if root == nil || root.Fn == nil {
		return nil
	}
	fs := b.P.Funcs[root.Fn.Origin()]
	if fs == nil {
		return nil
	}
	info := fs.Pkg.TypesInfo
	if pl := litParamArgs(fs.Decl.Body, info, v); pl != nil {
		return pl
	}
	if rl, named := rangeOverFuncs(fs.Decl.Body, info, v); len(rl) > 0 && len(named) == 0 {
		return rl
	}
	var lits []*ast.FuncLit
	ok := true
	ast.Inspect(fs.Decl.Body, func(n ast.Node) bool {
		switch x := n.(type) {
		case *ast.AssignStmt:
			for i, l := range x.Lhs {
				id, isId := l.(*ast.Ident)
				if !isId || (info.Defs[id] != v && info.Uses[id] != v) {
					continue
				}
				if len(x.Rhs) != len(x.Lhs) {
					ok = false
					continue
				}
				if fl, isLit := ast.Unparen(x.Rhs[i]).(*ast.FuncLit); isLit {
					lits = append(lits, fl)
				} else if tv, has := info.Types[x.Rhs[i]]; !has || !tv.IsNil() {
					ok = false
				}
			}
		case *ast.ValueSpec:
			for i, nm := range x.Names {
				if info.Defs[nm] != v {
					continue
				}
				if i < len(x.Values) {
					if fl, isLit := ast.Unparen(x.Values[i]).(*ast.FuncLit); isLit {
						lits = append(lits, fl)
					} else {
						ok = false
					}
				}
			}
		case *ast.UnaryExpr:
			if id, isId := ast.Unparen(x.X).(*ast.Ident); isId && x.Op == token.AND && info.Uses[id] == v {
				ok = false
			}
		}
		return true
	})
	if !ok {
		return nil
	}
	return lits
}

// handlerMapCall builds `h(args)` where the local h was defined once as `h, ok := M[k]` (or
// `h := M[k]`) from a never-written package-level map M of the same package with constant scalar
// keys and function values (named functions or literals) and a pure key expression k: one branch
// per row, `k == key_i` followed by the call of that row's function - what a switch over k with one
// call per case is.
func (b *Builder) handlerMapCall(call *ast.CallExpr, id *ast.Ident, v *types.Var) ([]*Term, bool) {
	root := b.inst
	for root != nil && root.Fn == nil {
		if root.Lexical != nil {
			root = root.Lexical
		} else {
			root = root.Parent
		}
	}
	if root == nil || root.Fn == nil {
		return nil, false
	}
	fs := b.P.Funcs[root.Fn.Origin()]
	if fs == nil || fs.Pkg.TypesInfo != b.info {
		return nil, false
	}
	info := b.info
	var ix *ast.IndexExpr
	ndef := 0
	ast.Inspect(fs.Decl.Body, func(n ast.Node) bool {
		as, ok := n.(*ast.AssignStmt)
		if !ok {
			return true
		}
		for i, l := range as.Lhs {
			lid, isId := l.(*ast.Ident)
			if !isId || (info.Defs[lid] != v && info.Uses[lid] != v) {
				continue
			}
			ndef++
			if i == 0 && len(as.Rhs) == 1 {
				if x, isIx := ast.Unparen(as.Rhs[0]).(*ast.IndexExpr); isIx {
					ix = x
				}
			}
		}
		return true
	})
	if ndef != 1 || ix == nil {
		return nil, false
	}
	mid, ok := ast.Unparen(ix.X).(*ast.Ident)
	if !ok {
		return nil, false
	}
	mv, ok := info.Uses[mid].(*types.Var)
	if !ok || !isPkgLevel(mv) || !b.P.neverWritten(mv) {
		return nil, false
	}
	mt, ok := mv.Type().Underlying().(*types.Map)
	if !ok {
		return nil, false
	}
	if kb, ok := mt.Key().Underlying().(*types.Basic); !ok || kb.Info()&(types.IsString|types.IsInteger) == 0 {
		return nil, false
	}
	if _, isFn := mt.Elem().Underlying().(*types.Signature); !isFn {
		return nil, false
	}
	switch k := ast.Unparen(ix.Index).(type) {
	case *ast.Ident:
		if _, isVar := info.Uses[k].(*types.Var); !isVar {
			return nil, false
		}
	default:
		return nil, false // only a plain variable is re-read
	}
	pk := b.P.All[mv.Pkg().Path()]
	if pk == nil || pk.TypesInfo != info {
		return nil, false
	}
	cl, ok := ast.Unparen(findInit(pk.Syntax, pk.TypesInfo, mv)).(*ast.CompositeLit)
	if !ok || len(cl.Elts) == 0 || len(cl.Elts) > 16 {
		return nil, false
	}
	type row struct {
		k   *Term
		fn  *types.Func
		lit *ast.FuncLit
	}
	var rows []row
	for _, e := range cl.Elts {
		kv, ok := e.(*ast.KeyValueExpr)
		if !ok {
			return nil, false
		}
		ktv, kok := info.Types[kv.Key]
		if !kok || ktv.Value == nil {
			return nil, false
		}
		r := row{k: constTerm(ktv.Value)}
		switch x := ast.Unparen(kv.Value).(type) {
		case *ast.FuncLit:
			r.lit = x
		case *ast.Ident:
			r.fn, _ = info.Uses[x].(*types.Func)
		case *ast.SelectorExpr:
			r.fn, _ = info.Uses[x.Sel].(*types.Func)
		}
		if r.lit == nil && r.fn == nil {
			return nil, false
		}
		rows = append(rows, r)
	}
	var args []*Term
	for _, a := range call.Args {
		args = append(args, b.expr(a))
	}
	nres := 0
	if tv, ok := info.Types[call.Fun]; ok {
		if sig, ok := tv.Type.Underlying().(*types.Signature); ok {
			nres = sig.Results().Len()
		}
	}
	temps := make([]*Var, nres)
	for i := range temps {
		temps[i] = b.tempVar("hres", nil)
	}
	b.flush(call.Pos())
	kt := b.expr(ix.Index)
	done := b.label()
	vobj := info.Uses[id]
	for _, r := range rows {
		tN, fN := b.label(), b.label()
		br := b.newNode(NBranch, call.Pos())
		br.Cond = mk("bin", "==", kt, r.k)
		b.emit(br)
		br.Succ = []*Node{tN, fN}
		b.cur = nil
		b.start(tN)
		var outs []*Term
		if r.lit != nil {
			b.expr(r.lit) // registers the literal
			outs = b.inlineLit(r.lit, args, call.Pos(), nres)
		} else {
			if b.fnBind == nil {
				b.fnBind = map[types.Object]*types.Func{}
			}
			prev, had := b.fnBind[vobj]
			b.fnBind[vobj] = r.fn
			outs = b.callMulti(call, nres)
			if had {
				b.fnBind[vobj] = prev
			} else {
				delete(b.fnBind, vobj)
			}
		}
		for i, tv := range temps {
			if i < len(outs) {
				b.assignVar(tv, outs[i], call.Pos())
			}
		}
		b.jump(done)
		b.start(fN)
	}
	// no row: the zero (nil) function value - the call would panic; an opaque call keeps the graph total
	t := &Term{Op: "call", Name: "dyn", Args: append([]*Term{b.expr(id)}, args...), Pos: call.Pos()}
	b.pending = append(b.pending, t)
	b.flush(call.Pos())
	for i, tv := range temps {
		if nres <= 1 {
			b.assignVar(tv, t, call.Pos())
		} else {
			b.assignVar(tv, &Term{Op: "res", Name: strconv.Itoa(i), Args: []*Term{t}, Pos: call.Pos()}, call.Pos())
		}
	}
	b.jump(done)
	b.start(done)
	if nres == 0 {
		return nil, true
	}
	out := make([]*Term, nres)
	for i, tv := range temps {
		out[i] = varTerm(tv)
	}
	return out, true
}

// dispatchLits builds `f(args)` for a variable holding one of lits.
func (b *Builder) dispatchLits(call *ast.CallExpr, id *ast.Ident, lits []*ast.FuncLit) []*Term {
	var args []*Term
	for _, a := range call.Args {
		args = append(args, b.expr(a))
	}
	ft := b.expr(id)
	nres := 0
	if tv, ok := b.info.Types[call.Fun]; ok {
		if sig, ok := tv.Type.Underlying().(*types.Signature); ok {
			nres = sig.Results().Len()
		}
	}
	temps := make([]*Var, nres)
	for i := range temps {
		temps[i] = b.tempVar("dres", nil)
	}
	b.flush(call.Pos())
	done := b.label()
	for _, lit := range lits {
		// the same source literal is evaluated once per inline instance of its function: one branch
		// per evaluation (only the one whose closure the variable holds is feasible)
		var names []string
		if nm := b.litBindName[lit]; nm != "" {
			names = []string{nm}
		} else {
			for k, li := range b.G.Lits {
				if li.Lit == lit {
					names = append(names, k)
				}
			}
			sort.Strings(names)
			if len(names) > 8 {
				names = names[len(names)-8:]
			}
		}
		for _, name := range names {
			tN, fN := b.label(), b.label()
			br := b.newNode(NBranch, call.Pos())
			br.Cond = &Term{Op: "isclosure", Name: name, Args: []*Term{ft}}
			b.emit(br)
			br.Succ = []*Node{tN, fN}
			b.cur = nil
			b.start(tN)
			prev, had := b.litBindName[lit]
			if b.litBindName == nil {
				b.litBindName = map[*ast.FuncLit]string{}
			}
			b.litBindName[lit] = name
			outs := b.inlineLit(lit, args, call.Pos(), nres)
			if had {
				b.litBindName[lit] = prev
			} else {
				delete(b.litBindName, lit)
			}
			for i, tv := range temps {
				if i < len(outs) {
					b.assignVar(tv, outs[i], call.Pos())
				}
			}
			b.jump(done)
			b.start(fN)
		}
	}
	fns := b.dispatchFns
	b.dispatchFns = nil
	for _, fn := range fns {
		tN, fN := b.label(), b.label()
		br := b.newNode(NBranch, call.Pos())
		br.Cond = &Term{Op: "isfn", Name: b.P.abbrev(fn.FullName()), Args: []*Term{ft}}
		b.emit(br)
		br.Succ = []*Node{tN, fN}
		b.cur = nil
		b.start(tN)
		if b.fnBind == nil {
			b.fnBind = map[types.Object]*types.Func{}
		}
		vobj := b.info.Uses[id]
		prev, had := b.fnBind[vobj]
		b.fnBind[vobj] = fn
		outs := b.callMulti(call, nres)
		if had {
			b.fnBind[vobj] = prev
		} else {
			delete(b.fnBind, vobj)
		}
		for i, tv := range temps {
			if i < len(outs) {
				b.assignVar(tv, outs[i], call.Pos())
			}
		}
		b.jump(done)
		b.start(fN)
	}
	// none of the known literals (nil function value or a literal not yet evaluated): opaque call
	t := &Term{Op: "call", Name: "dyn", Args: append([]*Term{ft}, args...), Pos: call.Pos()}
	b.pending = append(b.pending, t)
	b.flush(call.Pos())
	for i, tv := range temps {
		if nres <= 1 {
			b.assignVar(tv, t, call.Pos())
		} else {
			b.assignVar(tv, &Term{Op: "res", Name: strconv.Itoa(i), Args: []*Term{t}, Pos: call.Pos()}, call.Pos())
		}
	}
	b.jump(done)
	b.start(done)
	out := make([]*Term, nres)
	for i, tv := range temps {
		out[i] = varTerm(tv)
	}
	if nres == 0 {
		return nil
	}
	return out
}

// constStructMapLookup: m[k] where m is a package-level map that is never
// written after its declaration, keyed by a struct type, with a literal of
// constant rows. Built as the chain of field-wise comparisons a switch over the
// rows would be (so a table kept as a map and a table kept as a switch yield
// the same conditions and constants). Returns (value) or (value, ok).
// ruleOwnedTables: the package-level tables the rules speak about in their map form (found by
// these types); every other never-written map of constants with scalar keys is a switch written
// as data and is built as the comparison chain the switch would be.
var ruleOwnedTables = map[string]bool{
	"map[string]ncg/signature.Algorithm":                                true,
	"map[ncg/signature.Algorithm]string":                                true,
	"map[github.com/veraison/go-cose.Algorithm]ncg/signature.Algorithm": true,
	"map[ncg/signature.Algorithm]github.com/veraison/go-cose.Algorithm": true,
	"map[ncg/signature.SigningScheme]string":                            true,
}

// constScalarMapLookup: m[k] where m is a never-written package-level map with a literal of at
// most 32 constant rows and a scalar key type: built as k == k1 ? v1 : k == k2 ? v2 : zero.
func (b *Builder) constScalarMapLookup(x *ast.IndexExpr, wantOK bool) []*Term {
	var v *types.Var
	switch y := ast.Unparen(x.X).(type) {
	case *ast.Ident:
		v, _ = b.info.Uses[y].(*types.Var)
	case *ast.SelectorExpr:
		if _, isSel := b.info.Selections[y]; !isSel {
			v, _ = b.info.Uses[y.Sel].(*types.Var)
		}
	}
	if v == nil || !isPkgLevel(v) {
		return nil
	}
	mt, ok := v.Type().Underlying().(*types.Map)
	if !ok || (ruleOwnedTables[b.P.typeStr(v.Type())] && !b.forceMapChain) {
		return nil
	}
	if kb, ok := mt.Key().Underlying().(*types.Basic); !ok || kb.Info()&(types.IsString|types.IsInteger) == 0 {
		return nil
	}
	pk := b.P.All[v.Pkg().Path()]
	if pk == nil || !isProductPkg(pk.PkgPath, b.P.ModPath) || !b.P.neverWritten(v) {
		return nil
	}
	cl, ok := ast.Unparen(findInit(pk.Syntax, pk.TypesInfo, v)).(*ast.CompositeLit)
	if !ok || len(cl.Elts) == 0 || len(cl.Elts) > 32 {
		return nil
	}
	var zero *Term
	switch u := mt.Elem().Underlying().(type) {
	case *types.Basic:
		switch {
		case u.Info()&types.IsString != 0:
			zero = konst(`""`)
		case u.Info()&types.IsBoolean != 0:
			zero = tFalse
		case u.Info()&types.IsNumeric != 0:
			zero = konst("0")
		}
	case *types.Struct:
		if u.NumFields() == 0 {
			zero = &Term{Op: "struct", Name: b.P.typeStr(mt.Elem()), Args: []*Term{tZero}}
		}
	}
	if _, isIface := mt.Elem().Underlying().(*types.Interface); isIface && zero == nil {
		zero = tNil
	}
	_, fnValued := mt.Elem().Underlying().(*types.Signature)
	if fnValued && zero == nil {
		zero = tNil
	}
	if zero == nil {
		return nil
	}
	type row struct{ k, v *Term }
	var rows []row
	for _, e := range cl.Elts {
		kv, ok := e.(*ast.KeyValueExpr)
		if !ok {
			return nil
		}
		ktv, kok := pk.TypesInfo.Types[kv.Key]
		if !kok || ktv.Value == nil {
			return nil
		}
		var val *Term
		if vtv, vok := pk.TypesInfo.Types[kv.Value]; vok && vtv.Value != nil {
			val = constTerm(vtv.Value)
		} else if vl, isLit := ast.Unparen(kv.Value).(*ast.CompositeLit); isLit && len(vl.Elts) == 0 && zero != tNil {
			val = zero // struct{}{}
		} else if fnValued && pk.TypesInfo == b.info {
			// a row of a table of handlers: a named function or a literal
			switch x := ast.Unparen(kv.Value).(type) {
			case *ast.FuncLit:
				val = b.expr(x)
			case *ast.Ident:
				if fn, isFn := pk.TypesInfo.Uses[x].(*types.Func); isFn {
					val = &Term{Op: "fn", Name: b.P.abbrev(fn.FullName())}
				}
			case *ast.SelectorExpr:
				if fn, isFn := pk.TypesInfo.Uses[x.Sel].(*types.Func); isFn {
					val = &Term{Op: "fn", Name: b.P.abbrev(fn.FullName())}
				}
			}
			if val == nil {
				return nil
			}
		} else if vtv, vok := pk.TypesInfo.Types[kv.Value]; vok && vtv.IsNil() {
			val = tNil
		} else if vl, isLit := ast.Unparen(kv.Value).(*ast.CompositeLit); isLit && len(vl.Elts) == 0 && pk.TypesInfo == b.info {
			// an empty literal of a module type (a sentinel error value such as RevokedError{})
			val = b.expr(vl)
		} else {
			return nil
		}
		rows = append(rows, row{constTerm(ktv.Value), val})
	}
	if b.forceMapChain {
		// m[k] == c: only the rows whose value is c are tested (each on its own key, so that every
		// path says which keys it excluded); every other key gives "some other value"
		if b.forceMapValue == nil || b.forceMapValue.Key() == zero.Key() {
			return nil
		}
		var keep []row
		for _, r := range rows {
			if r.v.Key() == b.forceMapValue.Key() {
				keep = append(keep, r)
			}
		}
		rows = keep
		zero = konst(`"\x00another value of ` + v.Name() + `"`)
	}
	kvv := b.tempVar("mkey", mt.Key())
	b.assignVar(kvv, b.expr(x.Index), x.Pos())
	val := b.tempVar("mval", mt.Elem())
	okv := b.tempVar("mok", types.Typ[types.Bool])
	done := b.label()
	for _, r := range rows {
		next, t := b.label(), b.label()
		n := b.newNode(NBranch, x.Pos())
		n.Cond = mk("bin", "==", varTerm(kvv), r.k)
		b.emit(n)
		n.Succ = []*Node{t, next}
		b.cur = nil
		b.start(t)
		b.assignVar(val, r.v, x.Pos())
		b.assignVar(okv, tTrue, x.Pos())
		b.jump(done)
		b.start(next)
	}
	b.assignVar(val, zero, x.Pos())
	b.assignVar(okv, tFalse, x.Pos())
	b.jump(done)
	b.start(done)
	if wantOK {
		return []*Term{varTerm(val), varTerm(okv)}
	}
	return []*Term{varTerm(val)}
}

func (b *Builder) constStructMapLookup(x *ast.IndexExpr, wantOK bool) []*Term {
	var v *types.Var
	switch y := ast.Unparen(x.X).(type) {
	case *ast.Ident:
		v, _ = b.info.Uses[y].(*types.Var)
	case *ast.SelectorExpr:
		if _, isSel := b.info.Selections[y]; !isSel {
			v, _ = b.info.Uses[y.Sel].(*types.Var)
		}
	}
	if v == nil || !isPkgLevel(v) {
		return nil
	}
	mt, ok := v.Type().Underlying().(*types.Map)
	if !ok {
		return nil
	}
	kst, ok := mt.Key().Underlying().(*types.Struct)
	if !ok || kst.NumFields() == 0 {
		return nil
	}
	pk := b.P.All[v.Pkg().Path()]
	if pk == nil || !isProductPkg(pk.PkgPath, b.P.ModPath) || !b.P.neverWritten(v) {
		return nil
	}
	init := findInit(pk.Syntax, pk.TypesInfo, v)
	cl, ok := ast.Unparen(init).(*ast.CompositeLit)
	if !ok || len(cl.Elts) == 0 || len(cl.Elts) > 32 {
		return nil
	}
	type row struct {
		fields []*Term
		val    *Term
	}
	var rows []row
	for _, e := range cl.Elts {
		kv, ok := e.(*ast.KeyValueExpr)
		if !ok {
			return nil
		}
		kl, ok := ast.Unparen(kv.Key).(*ast.CompositeLit)
		if !ok {
			return nil
		}
		vtv, has := pk.TypesInfo.Types[kv.Value]
		if !has || vtv.Value == nil {
			return nil
		}
		r := row{fields: make([]*Term, kst.NumFields()), val: constTerm(vtv.Value)}
		for i, fe := range kl.Elts {
			idx := i
			ve := fe
			if fkv, isKV := fe.(*ast.KeyValueExpr); isKV {
				idx = -1
				for j := 0; j < kst.NumFields(); j++ {
					if id, ok := fkv.Key.(*ast.Ident); ok && kst.Field(j).Name() == id.Name {
						idx = j
					}
				}
				ve = fkv.Value
			}
			tv, has := pk.TypesInfo.Types[ve]
			if idx < 0 || idx >= len(r.fields) || !has || tv.Value == nil {
				return nil
			}
			r.fields[idx] = constTerm(tv.Value)
		}
		for j := range r.fields {
			if r.fields[j] == nil {
				return nil // a zero field left out: keep it simple
			}
		}
		rows = append(rows, r)
	}
	var zero *Term
	switch u := mt.Elem().Underlying().(type) {
	case *types.Basic:
		switch {
		case u.Info()&types.IsString != 0:
			zero = konst(`""`)
		case u.Info()&types.IsBoolean != 0:
			zero = tFalse
		case u.Info()&types.IsNumeric != 0:
			zero = konst("0")
		}
	}
	if zero == nil {
		return nil
	}
	// evaluate the key once
	kvv := b.tempVar("mkey", mt.Key())
	b.assignVar(kvv, b.expr(x.Index), x.Pos())
	val := b.tempVar("mval", mt.Elem())
	okv := b.tempVar("mok", types.Typ[types.Bool])
	done := b.label()
	for _, r := range rows {
		next := b.label()
		for j, fc := range r.fields {
			ft := mk("field", kst.Field(j).Name(), varTerm(kvv))
			ft.Owner = b.P.typeStr(mt.Key())
			t := b.label()
			n := b.newNode(NBranch, x.Pos())
			n.Cond = mk("bin", "==", ft, fc)
			b.emit(n)
			n.Succ = []*Node{t, next}
			b.cur = nil
			b.start(t)
		}
		b.assignVar(val, r.val, x.Pos())
		b.assignVar(okv, tTrue, x.Pos())
		b.jump(done)
		b.start(next)
	}
	b.assignVar(val, zero, x.Pos())
	b.assignVar(okv, tFalse, x.Pos())
	b.jump(done)
	b.start(done)
	if wantOK {
		return []*Term{varTerm(val), varTerm(okv)}
	}
	return []*Term{varTerm(val)}
}
