package main

import "time"

func runProps(t0 time.Time) int { return 0 }
