package main

import (
	"fmt"
	"os"
	"sort"
	"strconv"
	"strings"
	"time"
)

type propFn func(*Check)

var propTable = map[string]propFn{
	"C01": checkC01,
	"C02": checkC02,
	"C03": checkC03,
	"C04": checkC04,
	"C05": checkC05,
	"C06": checkC06,
	"C07": checkC07,
	"C08": checkC08,
	"C09": checkC09,
	"C10": checkC10,
	"C11": checkC11,
	"C12": checkC12,
	"C13": checkC13,
	"C14": checkC14,
	"C15": checkC15,
	"C16": checkC16,
	"C17": checkC17,
	"C18": checkC18,
	"C19": checkC19,
	"C20": checkC20,
}

func runProps(t0 time.Time) int {
	if *flagReplay != "" {
		return replay(t0)
	}
	if *flagProp == "" {
		fmt.Fprintln(os.Stderr, "usage: ncgverif -prop Cxx [-tier quick|thorough]")
		return 2
	}
	seed, _ := strconv.Atoi(os.Getenv("VERIF_SEED"))
	if t := os.Getenv("VERIF_TIER"); t != "" && *flagTier == "" {
		*flagTier = t
	}
	var ids []string
	if *flagProp == "all" {
		for id := range propTable {
			ids = append(ids, id)
		}
		sort.Strings(ids)
	} else {
		ids = strings.Split(*flagProp, ",")
	}
	rc := 0
	for _, id := range ids {
		if r := runOne(id, seed, "", time.Now()); r > rc {
			rc = r
		}
	}
	return rc
}

// configs analysed: quick = the host configuration; thorough = four.
var thoroughConfigs = [][2]string{{"linux", "amd64"}, {"linux", "386"}, {"windows", "amd64"}, {"darwin", "arm64"}}

func runOne(id string, seed int, onlyKey string, t0 time.Time) int {
	fn := propTable[id]
	if fn == nil {
		fmt.Fprintf(os.Stderr, "property %s is not claimed by this checker\n", id)
		return 2
	}
	configs := [][2]string{{"", ""}}
	if *flagTier == "thorough" {
		configs = thoroughConfigs
	}
	var last *Check
	rc := 0
	var cfgNames []string
	for i, cfg := range configs {
		p, err := loadProg(*flagRepo, cfg[0], cfg[1])
		name := cfg[0] + "/" + cfg[1]
		if cfg[0] == "" {
			name = "host"
		}
		cfgNames = append(cfgNames, name)
		if err != nil {
			c := newCheck(id, &Prog{Dir: *flagRepo, DepVers: map[string]string{}}, *flagTier)
			c.undecided("load", name, "the repository does not load or type-check: "+err.Error(), "")
			c.Config = strings.Join(cfgNames, ",")
			return c.finish(*flagVerifD, t0, seed, onlyKey)
		}
		theProg = p
		c := newCheck(id, p, *flagTier)
		if *flagTier == "thorough" {
			c.depth = 12
		}
		func() {
			defer func() {
				if r := recover(); r != nil {
					c.undecided("engine", "panic", fmt.Sprintf("analysis panic: %v", r), "")
				}
			}()
			fn(c)
			runControls(c)
		}()
		if last != nil {
			// merge: keep the first configuration's obligations, add failures of others
			for _, o := range c.Obls {
				if !o.OK {
					o.Key = o.Key + "@" + name
					last.Obls = append(last.Obls, o)
				}
			}
			last.Searches += c.Searches
			last.States += c.States
			last.Edges += c.Edges
		} else {
			last = c
		}
		_ = i
	}
	last.Config = strings.Join(cfgNames, ",")
	if (*flagTier == "thorough" || *flagSelftest) && onlyKey == "" {
		selfValidate(last, id, *flagRepo, *flagVerifD)
	}
	if r := last.finish(*flagVerifD, t0, seed, onlyKey); r > rc {
		rc = r
	}
	return rc
}

func replay(t0 time.Time) int {
	bs, err := os.ReadFile(*flagReplay)
	if err != nil {
		bs, err = os.ReadFile(*flagVerifD + "/" + *flagReplay)
	}
	if err != nil {
		fmt.Fprintln(os.Stderr, "replay:", err)
		return 2
	}
	s := string(bs)
	prop := between(s, `"property": "`, `"`)
	key := between(s, `"key": "`, `"`)
	key = strings.ReplaceAll(key, `\"`, `"`)
	key = strings.ReplaceAll(key, `>`, ">")
	key = strings.ReplaceAll(key, `<`, "<")
	key = strings.ReplaceAll(key, `&`, "&")
	key = strings.ReplaceAll(key, `\\`, `\`)
	if prop == "" || key == "" {
		fmt.Fprintln(os.Stderr, "replay: file does not name a property and an obligation key")
		return 2
	}
	fmt.Printf("replaying obligation %q of %s on the current tree\n", key, prop)
	return runOne(prop, 0, key, t0)
}

func between(s, a, b string) string {
	i := strings.Index(s, a)
	if i < 0 {
		return ""
	}
	s = s[i+len(a):]
	// find unescaped terminator
	for j := 0; j < len(s); j++ {
		if s[j] == '\\' {
			j++
			continue
		}
		if strings.HasPrefix(s[j:], b) {
			return s[:j]
		}
	}
	return ""
}

// runControls is filled in by controls.go
var controlFns = map[string]func(*Check){}

func runControls(c *Check) {
	if f := controlFns[c.Prop]; f != nil {
		f(c)
	}
}
