package main

// C10: the CRL entry interpreter (reached from internal/crl.CertCheckStatus).

import (
	"fmt"
	"strings"
)

const crlRoot = "ncg/revocation/internal/crl.CertCheckStatus"

const (
	resUnknown      = 0
	resOK           = 1
	resNonRevokable = 2
	resRevoked      = 3
)

// resultClass extracts the constant Result field of a ServerResult /
// CertRevocationResult literal term (possibly behind &).
func resultClass(t *Term) (int, bool) {
	if t == nil {
		return 0, false
	}
	if t.Op == "addr" {
		t = t.Args[0]
	}
	if t.Op != "struct" || !(strings.HasSuffix(t.Name, "result.ServerResult") || strings.HasSuffix(t.Name, "result.CertRevocationResult")) {
		return 0, false
	}
	f := structGet(t, "Result")
	if f == nil {
		return 0, false
	}
	if f == tZero {
		return 0, true
	}
	if v, ok := intConst(f); ok {
		return int(v), true
	}
	return 0, false
}

// findScanLoop returns the key of the range loop whose element's serial number
// is compared (the entry scan), the instance it is in, and - when the loop
// ranges over a function literal (the merged base+delta iterator) - that literal.
func findScanLoop(pg *PG) (key string, inst *Instance, lit *Term) {
	atoms := pg.AtomSet()
	for _, s := range pg.States {
		for _, e := range s.Out {
			for _, l := range e.Labels {
				if l.Kind != "rangenext" {
					continue
				}
				hit := false
				for _, a := range atoms {
					if strings.Contains(a, "BEq(") && strings.Contains(a, "re("+l.Key+").SerialNumber") {
						hit = true
						break
					}
				}
				if !hit {
					continue
				}
				if l.T != nil && l.T.Op == "closure" {
					return l.Key, l.Node.Inst, l.T
				}
				return l.Key, l.Node.Inst, nil
			}
		}
	}
	return "", nil, nil
}

func rootOfInst(i *Instance) *Instance {
	for i != nil && (i.Fn == nil) {
		i = i.Lexical
	}
	return i
}

func checkC10(c *Check) {
	c.Explain = "C10: the CRL entry scan reached from internal/crl.CertCheckStatus, analysed as its own root on every path: (1) nothing but the serial comparison happens for entries of other serial numbers; (2) a matching entry lets the scan continue only if it is certificateHold/removeFromCRL or exempt, the exemption being guarded by non-zero signing time, non-zero invalidity date and signing time strictly before the invalidity date parsed (no error, no trailing bytes) from the id-ce-invalidityDate extension of that entry; (3) no OK verdict is produced inside the scan; (4) permanent reasons return Revoked at once, the remembered temporary entry is replaced only by the current entry and only when none is remembered or the remembered one is strictly older, the final verdict is Revoked exactly when a remembered entry has reason certificateHold; (5) every extension of a matching entry is either the invalidity date or non-critical, and all of them are examined before the entry is used; (6) the iterator literal yields every base entry, then every delta entry if a delta exists, and stops when told to. Does not decide tie-breaking among equal revocation times."
	c.Assume = append(c.Assume, "x509.ParseRevocationList fills RevokedCertificateEntries with non-nil SerialNumber", "the CRLs handed to the scan are authentic and current (C05)")
	top := c.pgOf(crlRoot)
	if top == nil {
		return
	}
	_, inst, _ := findScanLoop(top)
	if inst == nil {
		c.undecided("O-C10", "entry scan", "no loop comparing the serial number of its element found under "+crlRoot+" (the scan over the base and delta entries)", "")
		return
	}
	scanFn := rootOfInst(inst)
	if scanFn == nil || scanFn.Fn == nil {
		c.undecided("O-C10", "entry scan", "cannot identify the function that holds the entry scan", "")
		return
	}
	pg := c.pgOf(scanFn.Name)
	if pg == nil {
		return
	}
	E, _, litTerm := findScanLoop(pg)
	if E == "" {
		c.undecided("O-C10", "entry scan", "entry scan loop not found in "+scanFn.Name, "")
		return
	}
	ent := "re(" + E + ")"
	oldEnt := "old(" + ent + ")"
	// nested form: the scan loop runs inside a loop over a list of entry lists (or of CRLs); the
	// scan as a whole is then over when the outer loop is
	outer := scanOuterLoop(pg, E)
	scanTop := E
	if outer != "" {
		scanTop = outer
	}
	scanDone := RangeDone(scanTop)
	// parameter roles by type: certificate, bundle, signing time
	sig := scanFn.Fn.Type().String()
	_ = sig
	var certP, timeP string
	for i, v := range pg.G.Params {
		ts := c.P.typeStr(v.Typ)
		switch {
		case strings.HasSuffix(ts, "x509.Certificate"):
			certP = fmt.Sprintf("p%d", i)
		case ts == "time.Time":
			timeP = fmt.Sprintf("p%d", i)
		}
	}
	if certP == "" || timeP == "" {
		c.undecided("O-C10", "entry scan parameters", "the scan does not take a certificate and a signing time", c.P.pos(pg.G.Root.Decl.Pos()))
		return
	}
	serial := "BEq(" + certP + ".SerialNumber, " + ent + ".SerialNumber)"
	if ent+".SerialNumber" < certP+".SerialNumber" {
		serial = "BEq(" + ent + ".SerialNumber, " + certP + ".SerialNumber)"
	}
	match, noMatch := A("+"+serial), A("-"+serial)

	// discover the invalidity date term from the strict time comparison
	inv := ""
	for _, a := range pg.AtomSet() {
		if strings.HasPrefix(a, "+TLt("+timeP+", ") && strings.Contains(a, "UnmarshalWithParams") {
			inv = strings.TrimSuffix(strings.TrimPrefix(a, "+TLt("+timeP+", "), ")")
		}
	}
	ext := "re(" + ent + ".Extensions)"
	wantInv := `encoding/asn1.UnmarshalWithParams(old(` + ext + `).Value, &$[time.Time], "generalized")!1`
	c.add("O-C10.2", "invalidity date source", "the date compared with the signing time is the value decoded (generalized time) from an extension value of the current entry", inv == wantInv, c.P.pos(pg.G.Root.Decl.Pos()), "found: "+inv, "expected: "+wantInv)
	if inv == "" {
		return
	}
	unm := `encoding/asn1.UnmarshalWithParams(` + ext + `.Value, &$[time.Time], "generalized")`
	exemptAll := []LP{A("-TZero(" + timeP + ")"), A("-TZero(" + inv + ")"), A("+TLt(" + timeP + ", " + inv + ")")}
	notExempt := AnyOf(A("+TZero("+timeP+")"), A("+TZero("+inv+")"), A("+TZero(zero)"), A("-TLt("+timeP+", "+inv+")"))
	isTemp := AnyOf(A("+Eq(6, "+ent+".ReasonCode)"), A("+Eq(8, "+ent+".ReasonCode)"))

	// returns by class
	byClass := func(k int) []*PState {
		return returnsWhere(pg, func(s *PState) bool {
			cl, ok := resultClass(s.Ret[0].T)
			return ok && cl == k && retNilErr(s, 1)
		})
	}
	okRets, revRets := byClass(resOK), byClass(resRevoked)
	unkRets := byClass(resUnknown)
	nonRev := byClass(resNonRevokable)
	c.floor("scan OK returns", 1, len(okRets))
	c.floor("scan Revoked returns", 1, len(distinctNodes(revRets)))
	c.add("O-C10.3", "scan verdict classes", "the scan produces only OK and Revoked verdicts (Unknown comes from errors)", len(unkRets) == 0 && len(nonRev) == 0, posOf(pg, append(unkRets, nonRev...)))
	var unclassified []*PState
	for _, s := range pg.Returns() {
		if retNilErr(s, 1) {
			if _, ok := resultClass(s.Ret[0].T); !ok {
				unclassified = append(unclassified, s)
			}
		} else if retKey(s, 0) != "nil" {
			unclassified = append(unclassified, s)
		}
	}
	c.add("O-C10.3", "scan returns classified", "every nil-error return of the scan is a literal with a constant verdict; every error return carries no verdict", len(unclassified) == 0, posOf(pg, unclassified))

	// O-C10.1 only matching serials matter
	cmpNodes := map[*Node]bool{}
	for _, s := range pg.States {
		for _, e := range s.Out {
			for _, l := range e.Labels {
				if l.Kind == "atom" && l.Key == serial {
					cmpNodes[l.Node] = true
				}
			}
		}
	}
	anyEffect := LP{Desc: "any test, call, assignment or return", F: func(l Label) bool {
		if l.Node == nil || cmpNodes[l.Node] || l.Node.Kind == NRange {
			return false
		}
		switch l.Kind {
		case "assign":
			// naming the current entry is not examining it
			if l.T2 != nil && (l.T2.Key() == ent || l.T2.Key() == "&"+ent) {
				return false
			}
			return true
		case "atom", "ret", "store", "lstore", "call":
			return true
		}
		return false
	}}
	c.within(pg, "O-C10.1", "only matching serials matter", "inside the scan nothing is examined before the serial numbers compared equal", E, match, anyEffect)

	// O-C10.2 / O-C10.4: what lets a matching entry pass
	for i, ex := range exemptAll {
		c.perIteration(pg, "O-C10.2", fmt.Sprintf("matching entry passes only if temporary or exempt (%d)", i+1), "a matching entry lets the scan go on only if its reason is hold/remove or it is exempt by invalidity date", E, AnyOf(noMatch, isTemp, ex))
	}
	exemptEdge := A("+TLt(" + timeP + ", " + inv + ")")
	c.within(pg, "O-C10.2", "exempting date decoded without error", "the strict comparison with the invalidity date happens only after that date decoded without error", E, A("+IsNil("+unm+"#1)"), exemptEdge)
	c.within(pg, "O-C10.2", "exempting date has no trailing bytes", "the strict comparison with the invalidity date happens only after that date decoded without trailing data", E, A("+Empty("+unm+"#0)"), exemptEdge)
	c.within(pg, "O-C10.2", "exempting date comes from the invalidity-date extension", "the strict comparison with the invalidity date happens only for a value taken from extension 2.5.29.24", E, A("+OidEq([encoding/asn1.ObjectIdentifier: 2, 5, 29, 24], "+ext+".Id)"), exemptEdge)
	c.floor("exemption comparisons", 1, len(edgeSources(pg, exemptEdge)))
	// O-C10.5 extensions of a matching entry
	c.perIteration(pg, "O-C10.5", "all entry extensions examined", "a matching entry is used only after all its extensions were examined", E, AnyOf(noMatch, RangeDone(ent+".Extensions")))
	c.perIteration(pg, "O-C10.5", "unknown critical entry extension refused", "every extension of a matching entry is the invalidity date or not critical", ent+".Extensions", AnyOf(A("+OidEq([encoding/asn1.ObjectIdentifier: 2, 5, 29, 24], "+ext+".Id)"), A("-Truth("+ext+".Critical)")))
	c.perIteration(pg, "O-C10.5", "invalidity date decodes", "an invalidity-date extension decodes without error", ent+".Extensions", AnyOf(A("-OidEq([encoding/asn1.ObjectIdentifier: 2, 5, 29, 24], "+ext+".Id)"), A("+IsNil("+unm+"#1)")))
	c.perIteration(pg, "O-C10.5", "invalidity date has no trailing bytes", "an invalidity-date extension has no trailing data", ent+".Extensions", AnyOf(A("-OidEq([encoding/asn1.ObjectIdentifier: 2, 5, 29, 24], "+ext+".Id)"), A("+Empty("+unm+"#0)")))
	c.noPathFrom(pg, "O-C10.5", "no verdict from inside the extension scan", "no verdict is produced while the extensions of an entry are still being examined", RangeNext(ent+".Extensions"), append(append([]*PState{}, okRets...), revRets...), ptr(RangeDone(ent+".Extensions")))

	// O-C10.3 no OK inside the scan
	c.onlyAfterExhaustion(pg, "O-C10.3", "no OK verdict inside the scan", "an OK verdict", E, okRets)
	if outer != "" {
		c.onlyAfterExhaustion(pg, "O-C10.3", "no OK verdict inside the loop over the entry lists", "an OK verdict", outer, okRets)
	}
	c.mustPass(pg, "O-C10.3", "OK only after all entries", "an OK verdict", okRets, scanDone)

	// O-C10.4 Revoked inside the loop: permanent reason, not exempt. The scan is left for a Revoked
	// verdict either by a return from inside the loop or by a break (with a flag that the single exit
	// after the loop turns into the verdict): brk matches those breaks.
	scanLoops := map[int]bool{}
	for _, s := range pg.States {
		for _, e := range s.Out {
			for _, l := range e.Labels {
				if l.Kind == "rangenext" && l.Key == E && l.Node != nil {
					scanLoops[l.Node.LoopID] = true
				}
			}
		}
	}
	brk := LP{Desc: "leave the scan by break", F: func(l Label) bool {
		return l.Kind == "note" && l.Key == "break" && l.Node != nil && l.Node.LoopID != 0 && scanLoops[l.Node.LoopID]
	}}
	brkSrc := edgeSources(pg, brk)
	inLoopRev := func() []*PState {
		var out []*PState
		body := edgeTargets(pg, RangeNext(E))
		for _, r := range revRets {
			if _, found := c.search(pg, body, inSet([]*PState{r}), blockedBy(AnyOf(RangeDone(E), brk))); found {
				out = append(out, r)
			}
		}
		return out
	}()
	var postRev []*PState
	for _, r := range revRets {
		in := false
		for _, x := range inLoopRev {
			if x == r {
				in = true
			}
		}
		if !in {
			postRev = append(postRev, r)
		}
	}
	c.floor("in-scan Revoked returns (or breaks out of the scan)", 1, len(inLoopRev)+len(brkSrc))
	c.floor("post-scan Revoked returns", 1, len(postRev))
	if len(brkSrc) > 0 {
		// the same four conditions for leaving the scan by break, and nothing but Revoked afterwards
		for _, lp := range []struct {
			n  string
			lp LP
		}{{"serial matches", match}, {"reason is not certificateHold", A("-Eq(6, " + ent + ".ReasonCode)")}, {"reason is not removeFromCRL", A("-Eq(8, " + ent + ".ReasonCode)")}, {"entry is not exempt", notExempt}} {
			src := edgeTargets(pg, RangeNext(E))
			path, found := c.search(pg, src, inSet(brkSrc), blockedBy(AnyOf(lp.lp, RangeNext(E))))
			det := []string{}
			if found {
				det = append([]string{"path within one iteration:"}, pg.describePath(path, 30)...)
			}
			c.add("O-C10.4", "scan left by break: "+lp.n, "the scan is left by break only for a matching, permanent, non-exempt entry ("+lp.n+")", !found, posOf(pg, brkSrc), det...)
		}
		var notRev []*PState
		for _, r := range pg.Returns() {
			if cl, ok := resultClass(r.Ret[0].T); !ok || cl != resRevoked || !retNilErr(r, 1) {
				notRev = append(notRev, r)
			}
		}
		c.noPathFrom(pg, "O-C10.4", "scan left by break: verdict is Revoked", "once the scan was left by break the only verdict is Revoked", brk, notRev, nil)
	}
	for _, lp := range []struct {
		n  string
		lp LP
	}{{"serial matches", match}, {"reason is not certificateHold", A("-Eq(6, " + ent + ".ReasonCode)")}, {"reason is not removeFromCRL", A("-Eq(8, " + ent + ".ReasonCode)")}, {"entry is not exempt", notExempt}} {
		// within the iteration that returns
		src := edgeTargets(pg, RangeNext(E))
		path, found := c.search(pg, src, inSet(inLoopRev), blockedBy(AnyOf(lp.lp, RangeNext(E))))
		det := []string{}
		if found {
			det = append([]string{"path within one iteration:"}, pg.describePath(path, 30)...)
		}
		c.add("O-C10.4", "in-scan Revoked: "+lp.n, "Revoked is returned from inside the scan only for a matching, permanent, non-exempt entry ("+lp.n+")", !found, posOf(pg, inLoopRev), det...)
	}
	// the remembered entry
	latestVar := ""
	var latestAssigns []*PState
	badAssign := []string{}
	body := edgeTargets(pg, RangeNext(E))
	inBody := map[*PState]bool{}
	{
		queue := append([]*PState{}, body...)
		for _, s := range body {
			inBody[s] = true
		}
		for len(queue) > 0 {
			s := queue[0]
			queue = queue[1:]
			for _, e := range s.Out {
				if e.has(RangeDone(E).F) || e.has(RangeNext(E).F) || e.has(brk.F) || inBody[e.To] {
					continue
				}
				inBody[e.To] = true
				queue = append(queue, e.To)
			}
		}
	}
	// what is remembered: the entry itself (a pointer) or, field by field, its
	// revocation time plus whatever else is kept of it (scalar form)
	remembered := ent
	for _, s := range pg.States {
		for _, e := range s.Out {
			for _, l := range e.Labels {
				if l.Kind == "assign" && l.T2 != nil && (l.T2.Key() == ent || (l.T2.Key() == "&"+ent && l.T != nil && l.T.V != nil && l.T.V.Obj != nil && declaredBeforeLoop(pg, scanTop, l.T.V))) && l.Node.Kind == NAssign && l.Node.Note == "" && inBody[s] {
					latestVar = l.Key
					remembered = l.T2.Key()
				}
			}
		}
	}
	// what is remembered: the entry itself (a pointer) or, field by field, its
	// revocation time plus whatever else is kept of it (scalar form)
	holdFlag := ""
	if latestVar == "" {
		for _, s := range pg.States {
			for _, e := range s.Out {
				for _, l := range e.Labels {
					if l.Kind == "assign" && l.T2 != nil && l.T2.Key() == ent+".RevocationTime" && l.Node.Kind == NAssign && l.Node.Note == "" && inBody[s] && l.T != nil && l.T.V != nil && l.T.V.Obj != nil {
						latestVar = l.Key
						remembered = ent + ".RevocationTime"
					}
				}
			}
		}
		if latestVar != "" {
			// every other variable that keeps something of the current entry across iterations is
			// written in exactly the iterations that write the remembered time (one entry, not a mix)
			timeAssign := LP{Desc: "remember the entry's revocation time", F: func(l Label) bool {
				return l.Kind == "assign" && l.Key == latestVar
			}}
			companions := map[string]bool{}
			boolVals := map[string]bool{}
			for _, s := range pg.States {
				if !inBody[s] {
					continue
				}
				for _, e := range s.Out {
					for _, l := range e.Labels {
						if l.Kind == "assign" && l.Key != latestVar && l.Node.Kind == NAssign && l.Node.Note == "" && l.T != nil && l.T.V != nil && l.T.V.Obj != nil && l.T2 != nil && declaredBeforeLoop(pg, scanTop, l.T.V) {
							companions[l.Key] = true
							if k := l.T2.Key(); k == "true" || k == "false" {
								boolVals[l.Key+"="+k] = true
							}
						}
					}
				}
			}
			for _, cv := range sortedKeys(companions) {
				cv := cv
				compAssign := LP{Desc: "write " + cv, F: func(l Label) bool { return l.Kind == "assign" && l.Key == cv && l.Node != nil && l.Node.Note == "" }}
				p1, bad1 := iterationWithOnly(pg, E, body, timeAssign, compAssign)
				p2, bad2 := iterationWithOnly(pg, E, body, compAssign, timeAssign)
				var det []string
				if bad1 {
					det = append(append(det, "an iteration writes the remembered time but not "+cv+":"), pg.describePath(p1, 20)...)
				}
				if bad2 {
					det = append(append(det, "an iteration writes "+cv+" but not the remembered time:"), pg.describePath(p2, 20)...)
				}
				c.add("O-C10.4", "remembered fields belong to one entry: "+cv, "the remembered revocation time and "+cv+" are always written together, from the same entry", !bad1 && !bad2, "", det...)
			}
			c.floor("companion fields of the remembered time", 1, len(companions))
			// the flag that keeps "the remembered entry is a hold": written true exactly for reason 6
			for _, cv := range sortedKeys(companions) {
				if boolVals[cv+"=true"] && boolVals[cv+"=false"] {
					holdFlag = cv
				}
			}
			if holdFlag != "" {
				setTo := func(val string) LP {
					return LP{Desc: holdFlag + " := " + val, F: func(l Label) bool {
						return l.Kind == "assign" && l.Key == holdFlag && l.T2 != nil && l.T2.Key() == val && l.Node != nil && l.Node.Note == ""
					}}
				}
				c.within(pg, "O-C10.4", "hold flag set only for reason certificateHold", "the flag is set to true only for an entry whose reason is certificateHold", E, A("+Eq(6, "+ent+".ReasonCode)"), setTo("true"))
				c.within(pg, "O-C10.4", "hold flag cleared only for another reason", "the flag is set to false only for an entry whose reason is not certificateHold", E, A("-Eq(6, "+ent+".ReasonCode)"), setTo("false"))
			}
		}
	}
	if latestVar == "" {
		c.undecided("O-C10.4", "remembered temporary entry", "no variable remembers a matching temporary entry inside the scan", "")
	} else {
		for _, s := range pg.States {
			if !inBody[s] {
				continue
			}
			for _, e := range s.Out {
				for _, l := range e.Labels {
					if l.Kind == "assign" && l.Key == latestVar {
						latestAssigns = append(latestAssigns, e.To)
						if l.T2 == nil || l.T2.Key() != remembered {
							badAssign = append(badAssign, fmt.Sprintf("%s: assigned %s", c.P.pos(l.Node.Pos), l.T2.Key()))
						}
					}
				}
			}
		}
		c.add("O-C10.4", "remembered entry is the current entry", "inside the scan the remembered temporary entry is only ever set to the current entry", len(badAssign) == 0, "", badAssign...)
		isAssign := LP{Desc: "remember current entry", F: func(l Label) bool {
			return l.Kind == "assign" && l.Key == latestVar && l.T2 != nil && l.T2.Key() == remembered
		}}
		older := AnyOf(A("+IsNil("+oldEnt+")"), A("+TLt("+oldEnt+".RevocationTime, "+ent+".RevocationTime)"), LP{Desc: "nothing remembered yet", F: func(l Label) bool { return false }})
		for _, g := range []struct {
			n  string
			lp LP
		}{{"serial matches", match}, {"reason is hold or remove", isTemp}, {"entry is not exempt", notExempt}} {
			c.within(pg, "O-C10.4", "remember: "+g.n, "the remembered entry is replaced only for a matching temporary non-exempt entry ("+g.n+")", E, g.lp, isAssign)
		}
		// replaced only if nothing remembered or the remembered one is strictly older:
		// from a state where something is remembered (after an earlier assignment), a new assignment needs the strict comparison
		c.noPathFrom(pg, "O-C10.4", "remember: only a strictly later entry replaces", "once an entry is remembered it is replaced only by one with a strictly later revocation time", isAssign, edgeSourcesWith(pg, isAssign), ptr(older))
		// a temporary matching non-exempt entry is either remembered or not later than the remembered one
		c.perIteration(pg, "O-C10.4", "temporary entry remembered or older", "a matching temporary entry is remembered unless the remembered one is not older", E, AnyOf(noMatch, A("+TLt("+timeP+", "+inv+")"), isAssign, A("-TLt("+oldEnt+".RevocationTime, "+ent+".RevocationTime)")))
		// final verdicts
		c.mustPass(pg, "O-C10.4", "post-scan Revoked: after all entries", "the Revoked verdict after the scan", postRev, AnyOf(scanDone, brk))
		c.mustPass(pg, "O-C10.4", "post-scan Revoked: something remembered", "the Revoked verdict after the scan", postRev, AnyOf(isAssign, brk))
		if remembered != ent && remembered != "&"+ent {
			// scalar form: the reason was tested when the entry was remembered and lives on in the hold flag
			if holdFlag == "" {
				c.undecided("O-C10.4", "post-scan Revoked: remembered reason is certificateHold", "the remembered entry is kept field by field but no flag keeps whether its reason is certificateHold", "")
			} else {
				anySet := LP{Desc: "write " + holdFlag, F: func(l Label) bool {
					return l.Kind == "assign" && l.Key == holdFlag && l.Node != nil && l.Node.Note == ""
				}}
				setTo := func(val string) LP {
					return LP{Desc: holdFlag + " := " + val, F: func(l Label) bool { return anySet.F(l) && l.T2 != nil && l.T2.Key() == val }}
				}
				c.noPathFrom(pg, "O-C10.4", "post-scan Revoked: remembered reason is certificateHold", "after the flag was cleared the scan ends Revoked (after the loop) only if a later entry set it again", setTo("false"), postRev, ptr(anySet))
				c.noPathFrom(pg, "O-C10.4", "OK after a remembered entry only if it is not a hold", "after the flag was set the scan ends OK only if a later entry cleared it", setTo("true"), okRets, ptr(anySet))
			}
			return10B(c, pg, certP, match, ext, unm)
			if litTerm != nil {
				checkIterator(c, pg, litTerm)
			} else {
				checkEntryList(c, top, rootOfInst(inst), pg, E)
			}
			return
		}
		c.mustPass(pg, "O-C10.4", "post-scan Revoked: remembered reason is certificateHold", "the Revoked verdict after the scan", postRev, AnyOf(A("+Eq(6, "+oldEnt+".ReasonCode)"), brk))
		c.noPathFrom(pg, "O-C10.4", "OK after a remembered entry only if it is not a hold", "after an entry was remembered the scan ends OK only if the remembered reason is not certificateHold", isAssign, okRets, ptr(AnyOf(A("-Eq(6, "+oldEnt+".ReasonCode)"), A("+IsNil("+oldEnt+")"))))
	}

	return10B(c, pg, certP, match, ext, unm)

	// O-C10.6 the entries scanned: the iterator literal, or the list built by the caller
	if litTerm != nil {
		checkIterator(c, pg, litTerm)
	} else {
		checkEntryList(c, top, rootOfInst(inst), pg, E)
	}
}

func ptr(lp LP) *LP { return &lp }

func edgeSourcesWith(pg *PG, lp LP) []*PState { return edgeSources(pg, lp) }

func checkIterator(c *Check, pg *PG, lit *Term) {
	li := pg.G.Lits[lit.Name]
	if li == nil {
		c.undecided("O-C10.6", "iterator literal", "the iterator literal cannot be located", "")
		return
	}
	g := buildLitGraph(c.P, pg.G.Root, li.Lit, c.depth, c.noInline)
	ipg := explore(g)
	c.States += len(ipg.States)
	for _, n := range ipg.Unsup {
		c.undecided("engine", "iterator|"+n.Note, "construct not understood: "+n.Note, c.P.pos(n.Pos))
	}
	// the two loops: over <b>.BaseCRL.RevokedCertificateEntries and <b>.DeltaCRL.RevokedCertificateEntries
	var base, delta string
	for _, s := range ipg.States {
		for _, e := range s.Out {
			for _, l := range e.Labels {
				if l.Kind == "rangenext" {
					if strings.HasSuffix(l.Key, ".BaseCRL.RevokedCertificateEntries") {
						base = l.Key
					}
					if strings.HasSuffix(l.Key, ".DeltaCRL.RevokedCertificateEntries") {
						delta = l.Key
					}
				}
			}
		}
	}
	where := c.P.pos(li.Lit.Pos())
	c.add("O-C10.6", "iterator visits base and delta entries", "the iterator ranges over the base CRL's and the delta CRL's entry lists", base != "" && delta != "", where, "base loop: "+base, "delta loop: "+delta)
	if base == "" || delta == "" {
		return
	}
	bundle := strings.TrimSuffix(base, ".BaseCRL.RevokedCertificateEntries")
	yield := func(x string) LP {
		return AnyOf(CallKey("dyn(p0, &re("+x+"))"), CallKey("dyn(p0, &"+x+"[rk("+x+")])"))
	}
	c.perIteration(ipg, "O-C10.6", "every base entry is yielded", "each base entry is handed to the scan", base, yield(base))
	c.perIteration(ipg, "O-C10.6", "every delta entry is yielded", "each delta entry is handed to the scan", delta, yield(delta))
	c.mustPass(ipg, "O-C10.6", "base entries before delta entries", "the first delta entry", edgeTargets(ipg, RangeNext(delta)), RangeDone(base))
	// normal completion: all base entries and (no delta or all delta entries), unless told to stop
	rets := ipg.Returns()
	stop := LP{Desc: "yield returned false", F: func(l Label) bool {
		return l.Kind == "atom" && !l.Pol && strings.HasPrefix(l.Key, "Truth(dyn(p0, ")
	}}
	c.mustPass(ipg, "O-C10.6", "iterator completes only after the base entries", "the iterator's return", rets, AnyOf(stop, RangeDone(base)))
	c.mustPass(ipg, "O-C10.6", "iterator completes only after the delta entries", "the iterator's return", rets, AnyOf(stop, A("+IsNil("+bundle+".DeltaCRL)"), RangeDone(delta)))
	anyYield := LP{Desc: "a yield call", F: func(l Label) bool { return l.Kind == "call" && strings.HasPrefix(l.Key, "dyn(p0, ") }}
	c.noPathFrom(ipg, "O-C10.6", "iterator stops when told to", "after yield returned false no further entry is yielded", stop, edgeSources(ipg, anyYield), nil)
	c.floor("iterator yield sites", 2, len(edgeSources(ipg, anyYield)))
}

// checkEntryList: the list form of O-C10.6. The scan ranges over a parameter;
// its single caller builds the argument as a local list: every base entry,
// then every delta entry if a delta exists, nothing else.
func checkEntryList(c *Check, top *PG, scan *Instance, spg *PG, E string) {
	where := c.P.pos(spg.G.Root.Decl.Pos())
	if strings.HasPrefix(E, "re(?grown:") {
		// the scan runs inside a loop over a local list of entry lists (or of CRLs)
		O := E[len("re(") : strings.Index(E, ")")]
		suffix := E[strings.Index(E, ")")+1:]
		var L *Var
		n := 0
		for _, v := range spg.G.Vars {
			if v.Obj != nil && v.Name == strings.TrimPrefix(O, "?grown:") {
				L = v
				n++
			}
		}
		if n != 1 || (suffix != "" && suffix != ".RevokedCertificateEntries") {
			c.undecided("O-C10.6", "entries scanned", "cannot identify the list of entry lists "+E+" in "+scan.Name, where)
			return
		}
		listOfListsRules(c, spg, L, O, E, suffix)
		return
	}
	if strings.HasPrefix(E, "?grown:") {
		// the list is built in the scan function itself
		var L *Var
		for _, v := range spg.G.Vars {
			if v.Obj != nil && v.Name == strings.TrimPrefix(E, "?grown:") {
				if L != nil {
					L = nil
					break
				}
				L = v
			}
		}
		if L == nil {
			c.undecided("O-C10.6", "entries scanned", "cannot identify the list variable "+E+" in "+scan.Name, where)
			return
		}
		entryListRules(c, spg, L, AnyOf(RangeNext(E), RangeDone(E)), "the scan loop")
		return
	}
	idx := -1
	for i := range spg.G.Params {
		if E == fmt.Sprintf("p%d", i) {
			idx = i
		}
	}
	if idx < 0 {
		c.undecided("O-C10.6", "entries scanned", "the scan ranges over "+E+", which is neither a function literal nor a parameter of "+scan.Name+": the list form is only understood when the caller builds the list", where)
		return
	}
	// the single call of the scan under the root
	calls := map[string]bool{}
	for _, in := range top.G.Insts {
		if in.Fn != nil && in.Fn == scan.Fn {
			calls[c.P.pos(in.CallPos)] = true
		}
	}
	c.add("O-C10.6", "the scan has a single caller", "the entry scan is called from one site, with one list", len(calls) == 1, where, sortedKeys(calls)...)
	if len(calls) != 1 {
		return
	}
	caller := rootOfInst(scan.Parent)
	if caller == nil || caller.Fn == nil {
		c.undecided("O-C10.6", "entries scanned", "cannot identify the caller of "+scan.Name, where)
		return
	}
	bpg := c.pgOfNI(caller.Name, scan.Name)
	if bpg == nil {
		return
	}
	// the list variable handed to the scan
	var L *Var
	var callNodes []*Node
	isScanCall := LP{Desc: "call of the scan", F: func(l Label) bool {
		return l.Kind == "call" && l.T != nil && l.T.Op == "call" && l.T.Name == scan.Name
	}}
	for n := range distinctEdgeNodes(bpg, isScanCall) {
		callNodes = append(callNodes, n)
		for _, ct := range n.Calls {
			if ct.Op == "call" && ct.Name == scan.Name && idx < len(ct.Args) && ct.Args[idx].Op == "var" {
				L = ct.Args[idx].V
			}
		}
	}
	if L == nil || len(callNodes) != 1 {
		c.undecided("O-C10.6", "entries scanned", fmt.Sprintf("the caller %s does not hand a local list variable to %s (%d call nodes)", caller.Name, scan.Name, len(callNodes)), c.P.pos(bpg.G.Root.Decl.Pos()))
		return
	}
	entryListRules(c, bpg, L, isScanCall, "the call of the scan")
}

// entryListRules: the local list L of bpg holds every base entry, then every
// delta entry if a delta exists, and nothing else, when the scan starts.
func entryListRules(c *Check, bpg *PG, L *Var, start LP, startName string) {
	var base, delta string
	for _, s := range bpg.States {
		for _, e := range s.Out {
			for _, l := range e.Labels {
				if l.Kind == "rangenext" {
					if strings.HasSuffix(l.Key, ".BaseCRL.RevokedCertificateEntries") {
						base = l.Key
					}
					if strings.HasSuffix(l.Key, ".DeltaCRL.RevokedCertificateEntries") {
						delta = l.Key
					}
				}
			}
		}
	}
	bwhere := c.P.pos(bpg.G.Root.Decl.Pos())
	c.add("O-C10.6", "entry list visits base and delta entries", "the caller of the scan ranges over the base CRL's and the delta CRL's entry lists", base != "" && delta != "", bwhere, "base loop: "+base, "delta loop: "+delta)
	if base == "" || delta == "" {
		return
	}
	bundle := strings.TrimSuffix(base, ".BaseCRL.RevokedCertificateEntries")
	add := func(x string) LP {
		return LP{Desc: "append entry of " + x, F: func(l Label) bool {
			if l.Kind != "assign" || l.T == nil || l.T.V != L || l.T2 == nil {
				return false
			}
			k := l.T2.Key()
			return k == "append(self, &re("+x+"))" || k == "append(self, re("+x+"))"
		}}
	}
	// every write of the list is the empty start or one of the two appends
	var foreign []string
	for _, s := range bpg.States {
		for _, e := range s.Out {
			for _, l := range e.Labels {
				switch {
				case l.Kind == "assign" && l.T != nil && l.T.V == L:
					if add(base).F(l) || add(delta).F(l) || emptyListTerm(l.T2) {
						continue
					}
					foreign = append(foreign, c.P.pos(l.Node.Pos)+": "+l.String())
				case (l.Kind == "store" || l.Kind == "lstore") && l.Node != nil && l.Node.Target != nil:
					if r, _ := splitPath(l.Node.Target); r.Op == "index" && r.Args[0].Op == "var" && r.Args[0].V == L {
						foreign = append(foreign, c.P.pos(l.Node.Pos)+": "+l.String())
					}
				}
			}
		}
	}
	c.add("O-C10.6", "entry list holds only CRL entries", "the list handed to the scan starts empty and is only ever extended by an entry of the base or of the delta CRL", len(foreign) == 0, bwhere, foreign...)
	c.perIteration(bpg, "O-C10.6", "every base entry is listed", "each base entry is appended to the list handed to the scan", base, add(base))
	c.perIteration(bpg, "O-C10.6", "every delta entry is listed", "each delta entry is appended to the list handed to the scan", delta, add(delta))
	c.mustPass(bpg, "O-C10.6", "base entries before delta entries", "the first delta entry", edgeTargets(bpg, RangeNext(delta)), RangeDone(base))
	scanCalls := edgeTargets(bpg, start)
	c.mustPass(bpg, "O-C10.6", "scan starts only after the base entries were listed", startName, scanCalls, RangeDone(base))
	c.mustPass(bpg, "O-C10.6", "scan starts only after the delta entries were listed", startName, scanCalls, AnyOf(A("+IsNil("+bundle+".DeltaCRL)"), RangeDone(delta)))
	c.floor("entry list append sites", 2, len(distinctEdgeNodes(bpg, add(base)))+len(distinctEdgeNodes(bpg, add(delta))))
	c.noPathFrom(bpg, "O-C10.6", "entry list complete before the scan", "no entry is added to the list once the scan has started", start, edgeSources(bpg, AnyOf(add(base), add(delta))), nil)
}

// emptyListTerm: nil, an empty composite literal or make with length 0.
func emptyListTerm(t *Term) bool {
	if t == nil {
		return false
	}
	if t.Key() == "nil" || t == tZero {
		return true
	}
	if t.Op == "list" && len(t.Args) == 0 {
		return true
	}
	if t.Op == "call" && t.Name == "make" && len(t.Args) >= 2 {
		if v, ok := intConst(t.Args[1]); ok && v == 0 {
			return true
		}
	}
	return false
}

// declaredBeforeLoop: the variable is declared outside the range loop over E
// (so it carries its value from one iteration to the next).
func declaredBeforeLoop(pg *PG, E string, v *Var) bool {
	for _, n := range pg.G.Nodes {
		if n.Kind == NRange && n.First && n.Pos.IsValid() {
			for _, s := range pg.States {
				if s.Node != n {
					continue
				}
				for _, e := range s.Out {
					if e.has(RangeNext(E).F) || e.has(RangeDone(E).F) {
						return v.Obj.Pos() < n.Pos
					}
				}
			}
		}
	}
	return false
}

// iterationWithOnly: is there a path through one iteration of the loop over E
// (from a body start to the next head, the end of the loop or a return) that
// passes an edge matching a and no edge matching b?
func iterationWithOnly(pg *PG, E string, body []*PState, a, b LP) ([]*PEdge, bool) {
	type node struct {
		s     *PState
		after bool
	}
	prev := map[node]*PEdge{}
	prevN := map[node]node{}
	seen := map[node]bool{}
	var queue []node
	for _, s := range body {
		n := node{s, false}
		if !seen[n] {
			seen[n] = true
			queue = append(queue, n)
		}
	}
	build := func(n node, last *PEdge) []*PEdge {
		var path []*PEdge
		if last != nil {
			path = append(path, last)
		}
		for {
			e, ok := prev[n]
			if !ok {
				break
			}
			path = append([]*PEdge{e}, path...)
			n = prevN[n]
		}
		return path
	}
	for len(queue) > 0 {
		n := queue[0]
		queue = queue[1:]
		if n.after && len(n.s.Out) == 0 {
			return build(n, nil), true // left the function inside the iteration
		}
		for _, e := range n.s.Out {
			if pg.Infeasible != nil && e.has(pg.Infeasible.F) {
				continue
			}
			if e.has(b.F) {
				continue
			}
			if e.has(RangeNext(E).F) || e.has(RangeDone(E).F) {
				if n.after {
					return build(n, e), true
				}
				continue
			}
			m := node{e.To, n.after || e.has(a.F)}
			if !seen[m] {
				seen[m] = true
				prev[m], prevN[m] = e, n
				queue = append(queue, m)
			}
		}
	}
	return nil, false
}

// return10B: the B side of C10 - every rejection (error) of the scan is justified.
func return10B(c *Check, pg *PG, certP string, match LP, ext, unm string) {
	// B side: rejections (errors) of the scan
	c.justify(pg, "O-C10.B", errorOrigins(pg, 1), []Viol{
		{Name: "nil argument", All: []LP{AnyOf(A("+IsNil("+certP+")"), LP{Desc: "+IsNil(param)", F: func(l Label) bool {
			return l.Kind == "atom" && l.Pol && strings.HasPrefix(l.Key, "IsNil(p")
		}})}},
		{Name: "invalidity date of a matching entry does not decode", All: []LP{match, A("+OidEq([encoding/asn1.ObjectIdentifier: 2, 5, 29, 24], " + ext + ".Id)"), A("-IsNil(" + unm + "#1)")}},
		{Name: "invalidity date of a matching entry has trailing data", All: []LP{match, A("+OidEq([encoding/asn1.ObjectIdentifier: 2, 5, 29, 24], " + ext + ".Id)"), A("-Empty(" + unm + "#0)")}},
		{Name: "unknown critical extension on a matching entry", All: []LP{match, A("-OidEq([encoding/asn1.ObjectIdentifier: 2, 5, 29, 24], " + ext + ".Id)"), A("+Truth(" + ext + ".Critical)")}},
	}, originName)

}

// listOfListsRules: the nested form of O-C10.6. The local list L (ranged over as O) holds the base
// CRL's entry list, then the delta CRL's if a delta exists, and nothing else, when the outer loop
// starts; each of its elements is scanned by the loop over E.
func listOfListsRules(c *Check, pg *PG, L *Var, O, E, suffix string) {
	where := c.P.pos(pg.G.Root.Decl.Pos())
	const baseSfx, deltaSfx = ".BaseCRL.RevokedCertificateEntries", ".DeltaCRL.RevokedCertificateEntries"
	bundle := ""
	isAssign := func(l Label) bool { return l.Kind == "assign" && l.T != nil && l.T.V == L && l.T2 != nil }
	for _, s := range pg.States {
		for _, e := range s.Out {
			for _, l := range e.Labels {
				if isAssign(l) && l.T2.Op == "list" && len(l.T2.Args) == 1 && strings.HasSuffix(l.T2.Args[0].Key()+suffix, baseSfx) {
					bundle = strings.TrimSuffix(l.T2.Args[0].Key()+suffix, baseSfx)
				}
			}
		}
	}
	c.add("O-C10.6", "list of entry lists starts with the base CRL", "the list the scan walks is created holding the base CRL's entries", bundle != "", where)
	if bundle == "" {
		return
	}
	elem := func(sfx string) string { return strings.TrimSuffix(bundle+sfx, suffix) }
	setBase := LP{Desc: "list := [base entries]", F: func(l Label) bool {
		return isAssign(l) && l.T2.Op == "list" && len(l.T2.Args) == 1 && l.T2.Args[0].Key() == elem(baseSfx)
	}}
	addDelta := LP{Desc: "append the delta entries", F: func(l Label) bool {
		return isAssign(l) && l.T2.Key() == "append(self, "+elem(deltaSfx)+")"
	}}
	var foreign []string
	for _, s := range pg.States {
		for _, e := range s.Out {
			for _, l := range e.Labels {
				switch {
				case isAssign(l):
					if !setBase.F(l) && !addDelta.F(l) {
						foreign = append(foreign, c.P.pos(l.Node.Pos)+": "+l.String())
					}
				case (l.Kind == "store" || l.Kind == "lstore") && l.Node != nil && l.Node.Target != nil:
					if r, _ := splitPath(l.Node.Target); r.Op == "index" && r.Args[0].Op == "var" && r.Args[0].V == L {
						foreign = append(foreign, c.P.pos(l.Node.Pos)+": "+l.String())
					}
				}
			}
		}
	}
	c.add("O-C10.6", "list of entry lists holds only the two CRLs", "the list the scan walks is only ever set to [base] or extended by the delta CRL", len(foreign) == 0, where, foreign...)
	start := AnyOf(RangeNext(O), RangeDone(O))
	starts := edgeTargets(pg, start)
	c.mustPass(pg, "O-C10.6", "scan starts only with the base entries listed", "the loop over the entry lists", starts, setBase)
	c.mustPass(pg, "O-C10.6", "scan starts only with the delta entries listed", "the loop over the entry lists", starts, AnyOf(A("+IsNil("+bundle+".DeltaCRL)"), addDelta))
	c.noPathFrom(pg, "O-C10.6", "base entries before delta entries", "the list is not reset once the delta entries were added", addDelta, edgeSources(pg, setBase), nil)
	c.noPathFrom(pg, "O-C10.6", "entry list complete before the scan", "the list is not written once the scan has started", start, edgeSources(pg, AnyOf(setBase, addDelta)), nil)
	c.perIteration(pg, "O-C10.6", "every listed CRL is scanned", "each element of the list is walked by the entry scan", O, AnyOf(RangeNext(E), RangeDone(E)))
	c.floor("entry list-of-lists write sites", 2, len(distinctEdgeNodes(pg, setBase))+len(distinctEdgeNodes(pg, addDelta)))
}

// scanOuterLoop: when the entry scan over E runs inside a loop over a list of entry lists (or of
// CRLs) - E is the element of that loop, or a field of it - the key of that outer loop; else "".
func scanOuterLoop(pg *PG, E string) string {
	outer := ""
	for _, s := range pg.States {
		for _, e := range s.Out {
			for _, l := range e.Labels {
				if l.Kind == "rangenext" && l.Key != E && strings.HasPrefix(E, "re("+l.Key+")") {
					outer = l.Key
				}
			}
		}
	}
	return outer
}
