package main

import (
	"fmt"
	"go/ast"
	"go/token"
	"go/types"
	"sort"
	"strings"
)

type NodeKind int

const (
	NNop NodeKind = iota
	NAssign
	NStore
	NBranch
	NReturn
	NCall
	NRange
	NPanic
	NGo
	NDefer
	NSelect
	NUnsupported
	NExit
)

var kindNames = map[NodeKind]string{NNop: "nop", NAssign: "assign", NStore: "store", NBranch: "branch", NReturn: "return", NCall: "call", NRange: "range", NPanic: "panic", NGo: "go", NDefer: "defer", NSelect: "select", NUnsupported: "UNSUPPORTED", NExit: "exit"}

// Instance is one inlined activation of a function (or the root).
type Instance struct {
	ID      int
	Name    string // abbreviated full name, or "lit"
	Fn      *types.Func
	Parent  *Instance // dynamic parent (caller)
	Lexical *Instance // lexically enclosing instance (for literals)
	Depth   int
	CallPos token.Pos
	Results []*Var
	Lit     *ast.FuncLit // the literal an inlined literal call runs
	Args    []*Term      // argument terms of the inlined call (as written at the call, unresolved)
	exit    *Node
	nlits   int
	// deferred literals that assign a named result and run at every later return
	resultDefers []*ast.FuncLit
}

// Path returns the chain of function names from the root to this instance.
func (i *Instance) Path() string {
	var parts []string
	for x := i; x != nil; x = x.Parent {
		parts = append(parts, x.Name)
	}
	for l, r := 0, len(parts)-1; l < r; l, r = l+1, r-1 {
		parts[l], parts[r] = parts[r], parts[l]
	}
	return strings.Join(parts, " > ")
}

// In reports whether the instance is (transitively) inside an activation of a
// function with the given name.
func (i *Instance) In(name string) bool {
	for x := i; x != nil; x = x.Parent {
		if x.Name == name {
			return true
		}
	}
	return false
}

type Node struct {
	ID      int
	Kind    NodeKind
	Pos     token.Pos
	Inst    *Instance
	Dst     []*Var
	Src     []*Term
	Target  *Term
	Value   *Term
	Cond    *Term
	Calls   []*Term
	Results []*Term
	X       *Term
	KeyVar  *Var
	ValVar  *Var
	IdxVar  *Var // hidden iteration counter for ranges over literal lists
	First   bool
	Twin    *Node // the other head of the same range loop
	Succ    []*Node
	Note    string
	Lit     *ast.FuncLit // for NDefer/NGo of a literal
	Info    *types.Info
	LoopID  int // for range heads and for-heads: loop identity
}

type Graph struct {
	P      *Prog
	Root   *FuncSrc
	Nodes  []*Node
	Entry  *Node
	Exit   *Node
	Vars   []*Var
	Insts  []*Instance
	Params []*Var // receiver first if any
	Lits   map[string]*LitInfo
	Unsup  []string
	Sites  []*Site

	sitesLocated bool
}

// Site is a panic-capable construct recorded while building: an implicit or
// explicit pointer dereference, an index or slice expression, a single-value
// type assertion.
type Site struct {
	Kind string // deref index slice assert1
	Why  string
	Pos  token.Pos
	T    *Term // the term created at the site (locates the evaluating node)
	Base *Term
	Idx  *Term
	Lo   *Term
	Hi   *Term
	// LoopBound: the index is the counter of a classic for loop running
	// inside [0, len(LoopBound))
	LoopBound *Term
	Inst      *Instance
	Node      *Node
}

// locateSites finds, for every recorded site, the node that evaluates it.
func (g *Graph) locateSites() {
	if g.sitesLocated {
		return
	}
	g.sitesLocated = true
	want := map[*Term][]*Site{}
	for _, s := range g.Sites {
		if s.T != nil {
			want[s.T] = append(want[s.T], s)
		}
	}
	var walk func(t *Term, n *Node, depth int)
	walk = func(t *Term, n *Node, depth int) {
		if t == nil || depth > 40 {
			return
		}
		for _, s := range want[t] {
			if s.Node == nil {
				s.Node = n
			}
		}
		for _, a := range t.Args {
			walk(a, n, depth+1)
		}
	}
	for _, n := range g.Nodes {
		for _, t := range n.Src {
			walk(t, n, 0)
		}
		for _, t := range n.Calls {
			walk(t, n, 0)
		}
		for _, t := range n.Results {
			walk(t, n, 0)
		}
		walk(n.Target, n, 0)
		walk(n.Value, n, 0)
		walk(n.Cond, n, 0)
		walk(n.X, n, 0)
	}
}

type LitInfo struct {
	Lit  *ast.FuncLit
	Info *types.Info
	Inst *Instance
}

func (g *Graph) dump() string {
	var b strings.Builder
	for _, n := range g.Nodes {
		fmt.Fprintf(&b, "n%d %s", n.ID, kindNames[n.Kind])
		if n.Note != "" {
			fmt.Fprintf(&b, " [%s]", n.Note)
		}
		switch n.Kind {
		case NAssign:
			for i, d := range n.Dst {
				if d != nil {
					fmt.Fprintf(&b, " $%s.%d=%s", d.Name, d.ID, n.Src[i].Key())
				}
			}
		case NStore:
			fmt.Fprintf(&b, " %s := %s", n.Target.Key(), n.Value.Key())
		case NBranch:
			fmt.Fprintf(&b, " %s", n.Cond.Key())
		case NReturn:
			for _, r := range n.Results {
				fmt.Fprintf(&b, " %s", r.Key())
			}
		case NRange:
			fmt.Fprintf(&b, " X=%s first=%v", n.X.Key(), n.First)
		}
		for _, c := range n.Calls {
			fmt.Fprintf(&b, " CALL{%s}", c.Key())
		}
		b.WriteString(" ->")
		for _, s := range n.Succ {
			fmt.Fprintf(&b, " n%d", s.ID)
		}
		fmt.Fprintf(&b, "   @%s (%s)\n", g.P.pos(n.Pos), n.Inst.Name)
	}
	return b.String()
}

// liveness: per node, the set of variable ids live on entry.
func (g *Graph) liveness() []map[int]bool {
	n := len(g.Nodes)
	use := make([][]*Var, n)
	def := make([][]*Var, n)
	collect := func(t *Term, out *[]*Var) {
		t.walk(func(x *Term) {
			if x.Op == "var" || x.Op == "addrvar" {
				*out = append(*out, x.V)
			}
		})
	}
	for _, nd := range g.Nodes {
		var u []*Var
		for _, t := range nd.Src {
			collect(t, &u)
		}
		for _, t := range nd.Calls {
			collect(t, &u)
		}
		for _, t := range nd.Results {
			collect(t, &u)
		}
		collect(nd.Target, &u)
		collect(nd.Value, &u)
		collect(nd.Cond, &u)
		collect(nd.X, &u)
		use[nd.ID] = u
		if nd.Kind == NAssign {
			for _, d := range nd.Dst {
				if d != nil {
					def[nd.ID] = append(def[nd.ID], d)
				}
			}
		}
	}
	live := make([]map[int]bool, n)
	for i := range live {
		live[i] = map[int]bool{}
	}
	changed := true
	for changed {
		changed = false
		for i := n - 1; i >= 0; i-- {
			nd := g.Nodes[i]
			out := map[int]bool{}
			for si, s := range nd.Succ {
				for v := range live[s.ID] {
					// a range head defines its key and value on the body edge
					if nd.Kind == NRange && si == 0 && ((nd.KeyVar != nil && v == nd.KeyVar.ID) || (nd.ValVar != nil && v == nd.ValVar.ID)) {
						continue
					}
					out[v] = true
				}
			}
			for _, d := range def[nd.ID] {
				delete(out, d.ID)
			}
			for _, u := range use[nd.ID] {
				out[u.ID] = true
			}
			if len(out) != len(live[nd.ID]) {
				live[nd.ID] = out
				changed = true
			} else {
				for v := range out {
					if !live[nd.ID][v] {
						live[nd.ID] = out
						changed = true
						break
					}
				}
			}
		}
	}
	return live
}

func sortedKeys(m map[string]bool) []string {
	var out []string
	for k := range m {
		out = append(out, k)
	}
	sort.Strings(out)
	return out
}
