package main

// C02: only the six algorithms, each bound to key type and size. The space is
// finite and table-shaped: decided completely for the in-repo part.

import (
	"fmt"
	"go/ast"
	"go/constant"
	"go/types"
	"strconv"

	"golang.org/x/tools/go/types/typeutil"
	"sort"
	"strings"
)

const algPkg = "ncg/internal/algorithm"

// hash constants of package crypto
var hashOfAlg = map[int]int{1: 5, 4: 5, 2: 6, 5: 6, 3: 7, 6: 7} // SHA256=5 SHA384=6 SHA512=7
var algNames = map[int]string{1: "PS256", 2: "PS384", 3: "PS512", 4: "ES256", 5: "ES384", 6: "ES512"}

func retConst(s *PState, idx int) (int, bool) {
	if idx >= len(s.Ret) || s.Ret[idx].T == nil {
		return 0, false
	}
	v, ok := intConst(s.Ret[idx].T)
	return int(v), ok
}

func checkC02(c *Check) {
	c.Explain = "C02: the algorithm space is finite and the code is table-shaped, so the in-repo part is decided completely. (1) Reference tables by path analysis: ExtractKeySpec accepts exactly RSA {2048,3072,4096} (key.Size()<<3) and EC {256,384,521} (Curve.Params().BitSize) and every rejection is justified; KeySpec.SignatureAlgorithm and Algorithm.Hash return exactly the rows of the property (default 0); the six constants are 1..6. (2) Sibling tables: the JWS name map pairs each signature.Algorithm constant with the like-named jwt signing method, its reverse is built from the same object, validMethods is that set; the COSE map pairs like-named go-cose constants (a bijection onto the six); the COSE keyspec->algorithm switch and hash switch equal the reference tables under that map. (3) declared == derived: Sign, Verify and Content of the wrapper succeed only if, for each of the six (key type, size) rows, the declared algorithm equals the row's algorithm. (4) The JWS parser that verifies is built with WithValidMethods(the table). (5) The COSE verifier's algorithm is derived from the leaf key (row by row), never from the message header. (6) NewLocalSigner succeeds only for non-empty certs, supported leaf key and a private key of the matching type whose public part Equal()s the leaf key. The PS/ES primitives of the libraries are trusted."
	c.Assume = append(c.Assume, "jwt.WithValidMethods with a non-empty list rejects any other alg (golang-jwt v4.5.2)", "go-cose Sign1Message.Verify rejects a protected alg different from the verifier's algorithm (v1.3.0)")
	// ---- (1) reference tables ------------------------------------------------
	// constants
	consts := map[string]int{}
	if pk := c.P.All[strings.Replace(algPkg, "ncg", c.P.ModPath, 1)]; pk != nil {
		for _, n := range pk.Types.Scope().Names() {
			if k, ok := pk.Types.Scope().Lookup(n).(*types.Const); ok && strings.HasPrefix(n, "Algorithm") {
				if v, ok := constant.Int64Val(k.Val()); ok {
					consts[strings.TrimPrefix(n, "Algorithm")] = int(v)
				}
			}
		}
	}
	okConst := len(consts) == 6
	for k, name := range algNames {
		if consts[name] != k {
			okConst = false
		}
	}
	c.Tables["algorithm_constants"] = consts
	c.add("O-C02.1", "algorithm constants", "the six signature.Algorithm constants are PS256..ES512 = 1..6 (distinct, non-zero)", okConst, "", fmt.Sprint(consts))
	// ExtractKeySpec
	if pg := c.pgOf(algPkg + ".ExtractKeySpec"); pg != nil {
		ok := returnsWhere(pg, func(s *PState) bool { return retNilErr(s, 1) })
		c.floor("ExtractKeySpec success returns", 2, len(ok))
		leaf := "p0"
		for _, s := range ok {
			t := s.Ret[0].T
			ty, sz := structGet(t, "Type"), structGet(t, "Size")
			where := c.P.pos(s.Node.Pos)
			if ty == nil || sz == nil {
				c.add("O-C02.1", "ExtractKeySpec returns a literal", "the key spec is a literal with Type and Size", false, where)
				continue
			}
			switch ty.Key() {
			case "1":
				c.add("O-C02.1", "RSA key spec size is the key size in bits", "an RSA key spec carries key.Size()<<3", sz.Key() == rsaSize(leaf), where, sz.Key())
				c.mustPass(pg, "O-C02.1", "RSA key spec only for an RSA key", "returning an RSA key spec", []*PState{s}, A("+TypeIs("+leaf+".PublicKey, *crypto/rsa.PublicKey)"))
				c.mustPass(pg, "O-C02.1", "RSA key spec only for 2048/3072/4096 bits", "returning an RSA key spec", []*PState{s}, AnyOf(A("+Eq("+rsaSize(leaf)+", 2048)"), A("+Eq("+rsaSize(leaf)+", 3072)"), A("+Eq("+rsaSize(leaf)+", 4096)")))
			case "2":
				c.add("O-C02.1", "EC key spec size is the curve's bit size", "an EC key spec carries Curve.Params().BitSize", sz.Key() == ecSize(leaf), where, sz.Key())
				c.mustPass(pg, "O-C02.1", "EC key spec only for an ECDSA key", "returning an EC key spec", []*PState{s}, A("+TypeIs("+leaf+".PublicKey, *crypto/ecdsa.PublicKey)"))
				c.mustPass(pg, "O-C02.1", "EC key spec only for P-256/384/521", "returning an EC key spec", []*PState{s}, AnyOf(A("+Eq("+ecSize(leaf)+", 256)"), A("+Eq("+ecSize(leaf)+", 384)"), A("+Eq("+ecSize(leaf)+", 521)")))
			default:
				c.add("O-C02.1", "key spec type is RSA or EC", "ExtractKeySpec returns only RSA or EC key specs", false, where, ty.Key())
			}
		}
		c.justify(pg, "O-C02.1B", errorOrigins(pg, 1), keySpecViols(leaf, nil), originName)
	}
	// KeySpec.SignatureAlgorithm
	if pg := c.pgOf("(" + algPkg + ".KeySpec).SignatureAlgorithm"); pg != nil {
		seen := map[int]bool{}
		for _, s := range pg.Returns() {
			k, ok := retConst(s, 0)
			where := c.P.pos(s.Node.Pos)
			if !ok {
				c.add("O-C02.1", "SignatureAlgorithm returns constants", "KeySpec.SignatureAlgorithm returns constants", false, where)
				continue
			}
			seen[k] = true
			if k == 0 {
				continue
			}
			var row *algRow
			for i := range algTable {
				if algTable[i].alg == k {
					row = &algTable[i]
				}
			}
			if row == nil {
				c.add("O-C02.1", "SignatureAlgorithm returns only the six", "KeySpec.SignatureAlgorithm returns one of the six constants or 0", false, where, fmt.Sprint(k))
				continue
			}
			ty := 2
			if row.rsa {
				ty = 1
			}
			c.mustPass(pg, "O-C02.1", "SignatureAlgorithm: "+row.name+" (key type)", "returning "+algNames[k], []*PState{s}, A(fmt.Sprintf("+Eq(%d, recv.Type)", ty)))
			c.mustPass(pg, "O-C02.1", "SignatureAlgorithm: "+row.name+" (size)", "returning "+algNames[k], []*PState{s}, A(fmt.Sprintf("+Eq(%d, recv.Size)", row.size)))
		}
		c.add("O-C02.1", "SignatureAlgorithm table complete", "KeySpec.SignatureAlgorithm has a row for each of the six algorithms and a zero default", len(seen) == 7, "", fmt.Sprint(seen))
	}
	// Algorithm.Hash
	if pg := c.pgOf("(" + algPkg + ".Algorithm).Hash"); pg != nil {
		seen := map[int]bool{}
		for _, s := range pg.Returns() {
			h, ok := retConst(s, 0)
			if !ok {
				c.add("O-C02.1", "Hash returns constants", "Algorithm.Hash returns constants", false, c.P.pos(s.Node.Pos))
				continue
			}
			seen[h] = true
			if h == 0 {
				continue
			}
			var lps []LP
			for a, hh := range hashOfAlg {
				if hh == h {
					lps = append(lps, A(fmt.Sprintf("+Eq(%d, recv)", a)))
				}
			}
			c.mustPass(pg, "O-C02.1", fmt.Sprintf("Hash %d only for its two algorithms", h), "returning that hash", []*PState{s}, AnyOf(lps...))
			if len(lps) == 0 {
				c.add("O-C02.1", "Hash returns only SHA-256/384/512", "Algorithm.Hash returns SHA-256, SHA-384, SHA-512 or 0", false, c.P.pos(s.Node.Pos), fmt.Sprint(h))
			}
		}
		// each algorithm returns a non-zero hash: from +Eq(a, recv) the zero return is unreachable
		zero := returnsWhere(pg, func(s *PState) bool { k, ok := retConst(s, 0); return ok && k == 0 })
		for a := 1; a <= 6; a++ {
			c.noPathFrom(pg, "O-C02.1", "Hash of "+algNames[a]+" is not zero", "the algorithm has a hash", A(fmt.Sprintf("+Eq(%d, recv)", a)), zero, nil)
			wrong := returnsWhere(pg, func(s *PState) bool { k, ok := retConst(s, 0); return ok && k != hashOfAlg[a] })
			c.noPathFrom(pg, "O-C02.1", "Hash of "+algNames[a]+" is the table's", "the algorithm's hash is the one of the table", A(fmt.Sprintf("+Eq(%d, recv)", a)), wrong, nil)
		}
		c.add("O-C02.1", "Hash table complete", "Algorithm.Hash returns exactly {SHA256, SHA384, SHA512, 0}", len(seen) == 4 && seen[5] && seen[6] && seen[7] && seen[0], "")
	}
	// ---- (2) sibling tables ---------------------------------------------------
	jwsTables(c)
	coseTables(c)
	// ---- (3) declared == derived in the three wrapper entry points -------------
	for _, w := range []struct{ fn, inner, timeArg string }{{baseVerify, "Verify", "nil"}, {baseContent, "Content", "nil"}, {baseSign, "Content", ""}} {
		pg := c.pgOfNI(w.fn, csValidator)
		if pg == nil {
			continue
		}
		ct := "(ncg/signature.Envelope)." + w.inner + "(recv.Envelope)#0"
		si := ct + ".SignerInfo"
		ta := w.timeArg
		if ta == "" {
			ta = "&" + si + ".SignedAttributes.SigningTime"
		}
		idx := 1
		ok := returnsWhere(pg, func(s *PState) bool { return retNilErr(s, idx) })
		name := strings.TrimPrefix(w.fn, "(*ncg/signature/internal/base.Envelope).")
		for _, r := range chainCheckReqs(si+".CertificateChain", ta, si+".SignatureAlgorithm") {
			c.mustPass(pg, "O-C02.3", name+": "+r.name, "the wrapper's "+name+" succeeds", ok, r.lp)
		}
	}
	// ---- (6) local signer --------------------------------------------------------
	if pg := c.pgOfNI("ncg/signature.NewLocalSigner", algPkg+".ExtractKeySpec"); pg != nil {
		ok := returnsWhere(pg, func(s *PState) bool { return retNilErr(s, 1) })
		ks := algPkg + ".ExtractKeySpec(p0[0])"
		c.floor("NewLocalSigner success returns", 1, len(ok))
		c.mustPass(pg, "O-C02.6", "local signer: certificates given", "constructing a local signer", ok, A("-Empty(p0)"))
		c.mustPass(pg, "O-C02.6", "local signer: leaf key supported", "constructing a local signer", ok, A("+IsNil("+ks+"#1)"))
		c.mustPass(pg, "O-C02.6", "local signer: RSA leaf needs the matching RSA private key", "constructing a local signer", ok, AnyOf(A("-Eq(1, "+ks+"#0.Type)"), A("+KeyEq(&p1.(*crypto/rsa.PrivateKey).PublicKey, p0[0].PublicKey)"), A("+KeyEq(&p1.PublicKey, p0[0].PublicKey)")))
		c.mustPass(pg, "O-C02.6", "local signer: EC leaf needs the matching ECDSA private key", "constructing a local signer", ok, AnyOf(A("+Eq(1, "+ks+"#0.Type)"), A("-Eq(2, "+ks+"#0.Type)"), A("+KeyEq(&p1.(*crypto/ecdsa.PrivateKey).PublicKey, p0[0].PublicKey)"), A("+KeyEq(&p1.PublicKey, p0[0].PublicKey)")))
		c.mustPass(pg, "O-C02.6", "local signer: key type is RSA or EC", "constructing a local signer", ok, AnyOf(A("+Eq(1, "+ks+"#0.Type)"), A("+Eq(2, "+ks+"#0.Type)")))
		c.mustPass(pg, "O-C02.6", "local signer: RSA private key type asserted", "constructing a local signer", ok, AnyOf(A("-Eq(1, "+ks+"#0.Type)"), A("+Eq(2, "+ks+"#0.Type)"), A("+TypeIs(p1, *crypto/rsa.PrivateKey)")))
		c.mustPass(pg, "O-C02.6", "local signer: ECDSA private key type asserted", "constructing a local signer", ok, AnyOf(A("+Eq(1, "+ks+"#0.Type)"), A("+TypeIs(p1, *crypto/ecdsa.PrivateKey)")))
		good := len(ok) > 0
		for _, s := range ok {
			t := s.Ret[0].T
			if t.Op != "addr" || structGet(t.Args[0], "keySpec") == nil || structGet(t.Args[0], "keySpec").Key() != ks+"#0" || structGet(t.Args[0], "certs").Key() != "p0" || structGet(t.Args[0], "key").Key() != "p1" {
				good = false
			}
		}
		c.add("O-C02.6", "local signer keeps the leaf's key spec, the key and the chain", "the signer reports the key spec extracted from the leaf certificate", good, posOf(pg, ok))
	}
	headerNameDifferential(c)
	// the leaf key the declared algorithm is compared with is parsed from this envelope's own bytes
	// on every call: the read methods keep no memo that could outlive a later Sign (O-C20.3), and
	// the chain handed to the comparison is the verifier's chain field (O-C01.2)
	c.floor("purity rules (shared with C20)", 1, shareRules(c, checkC20, []string{"O-C20.3"}, "O-C02.4", "no memo: "))
}

// likeNamed: last path component suffix after a prefix.
func suffixAfter(e ast.Expr, prefix string) string {
	var name string
	switch x := ast.Unparen(e).(type) {
	case *ast.SelectorExpr:
		name = x.Sel.Name
	case *ast.Ident:
		name = x.Name
	}
	if !strings.HasPrefix(name, prefix) {
		return ""
	}
	return strings.TrimPrefix(name, prefix)
}

func jwsTables(c *Check) {
	// the name map: map[signature.Algorithm]string
	var nameMap string
	for _, g := range c.globalsOfType("ncg/signature/jws", "map[ncg/internal/algorithm.Algorithm]string") {
		nameMap = g
	}
	v, init, pk := c.globalInit(nameMap)
	if v == nil || init == nil {
		c.undecided("O-C02.2", "JWS name map", "no package-level map[signature.Algorithm]string with a literal initialiser in the jws package", "")
		return
	}
	cl, _ := ast.Unparen(init).(*ast.CompositeLit)
	rows := map[string]string{} // algorithm suffix -> jwt method suffix
	valueVars := map[types.Object]string{}
	var det []string
	for _, e := range cl.Elts {
		kv := e.(*ast.KeyValueExpr)
		a := suffixAfter(kv.Key, "Algorithm")
		// value: an identifier of a package-level var initialised with jwt.SigningMethodXXX.Name
		m := ""
		if id, ok := ast.Unparen(kv.Value).(*ast.Ident); ok {
			if vv, ok := pk.TypesInfo.Uses[id].(*types.Var); ok {
				if in := findInit(pk.Syntax, pk.TypesInfo, vv); in != nil {
					if se, ok := ast.Unparen(in).(*ast.SelectorExpr); ok && se.Sel.Name == "Name" {
						m = suffixAfter(se.X, "SigningMethod")
						if m != "" {
							if o, ok := pk.TypesInfo.Uses[selIdent(se.X)].(*types.Var); !ok || o.Pkg().Path() != "github.com/golang-jwt/jwt/v4" {
								m = ""
							}
						}
						valueVars[vv] = m
					}
				}
			}
		}
		rows[a] = m
		det = append(det, a+" -> "+m)
	}
	sort.Strings(det)
	good := len(rows) == 6
	for _, n := range algNames {
		if rows[n] != n {
			good = false
		}
	}
	c.Tables["jws_name_map"] = rows
	c.add("O-C02.2", "JWS name map pairs like-named algorithms", "the JWS name map is a bijection between the six signature.Algorithm constants and the names of the like-named jwt signing methods (PS256..ES512)", good, c.P.pos(init.Pos()), det...)
	// validMethods: []string of exactly those variables
	var listOK bool
	var listName string
	for _, g := range c.globalsOfType("ncg/signature/jws", "[]string") {
		_, linit, lpk := c.globalInit(g)
		if linit == nil {
			continue
		}
		lcl, ok := ast.Unparen(linit).(*ast.CompositeLit)
		if !ok {
			continue
		}
		set := map[string]bool{}
		all := true
		for _, e := range lcl.Elts {
			id, ok := ast.Unparen(e).(*ast.Ident)
			if !ok {
				all = false
				break
			}
			o := lpk.TypesInfo.Uses[id]
			m, ok := valueVars[o]
			if !ok {
				all = false
				break
			}
			set[m] = true
		}
		if all && len(lcl.Elts) > 0 {
			listName = g
			listOK = len(set) == 6 && len(lcl.Elts) == 6
		}
	}
	c.add("O-C02.2", "JWS allow-list is exactly the six names", "the list of valid JWT methods consists of exactly the six names of the name map", listOK, "", "list: "+listName)
	// the reverse map is built from the same object
	var rev string
	for _, g := range c.globalsOfType("ncg/signature/jws", "map[string]ncg/internal/algorithm.Algorithm") {
		rev = g
	}
	_, rinit, rpk := c.globalInit(rev)
	revOK := false
	if call, ok := ast.Unparen(rinit).(*ast.CallExpr); ok && len(call.Args) == 1 {
		if id, ok := ast.Unparen(call.Args[0]).(*ast.Ident); ok && rpk.TypesInfo.Uses[id] == types.Object(v) {
			if fn, ok := rpk.TypesInfo.Uses[selIdent(call.Fun)].(*types.Func); ok {
				if pg := c.pgOf(c.P.abbrev(fn.FullName())); pg != nil {
					// returns a fresh map m with m[value] = key for every entry
					st := StoreTo("make(map[string]ncg/signature.Algorithm, len(p0))[re(p0)]")
					alt := LP{Desc: "store reversed entry", F: func(l Label) bool {
						return (l.Kind == "store" || l.Kind == "lstore") && strings.HasSuffix(l.Key, "[re(p0)]") && l.T2 != nil && l.T2.Key() == "rk(p0)"
					}}
					_ = st
					revOK = c.perIteration(pg, "O-C02.2", "reverse map inverts every entry", "the reverse map stores value -> key for every entry of its argument", "p0", alt)
				}
			}
		}
	}
	if rev == "" {
		// no reverse map: the reading direction is a function from the name to the algorithm (a
		// switch); it must be the inversion of the name map, row by row
		fwd := map[int64]string{}
		for _, g := range c.globalsOfType("ncg/signature/jws", "map[ncg/internal/algorithm.Algorithm]string") {
			for _, r := range mapRowTerms(c.P, g) {
				if k, err := strconv.ParseInt(r[0], 10, 64); err == nil {
					fwd[k] = r[1]
				}
			}
		}
		for _, fs := range c.P.productFuncs() {
			if c.P.abbrev(fs.Pkg.PkgPath) != "ncg/signature/jws" {
				continue
			}
			sig := fs.Obj.Type().(*types.Signature)
			if sig.Recv() != nil || sig.Params().Len() != 1 || sig.Results().Len() != 2 || c.P.typeStr(sig.Params().At(0).Type()) != "string" || c.P.typeStr(types.Unalias(sig.Results().At(0).Type())) != "ncg/internal/algorithm.Algorithm" {
				continue
			}
			pg := c.pgOf(c.P.abbrev(fs.Obj.FullName()))
			if pg == nil {
				continue
			}
			seen := map[int64]bool{}
			good := len(fwd) == 6
			for _, s := range pg.Returns() {
				if !retNilErr(s, 1) {
					continue
				}
				k, ok := retConst(s, 0)
				name, has := fwd[int64(k)]
				if !ok || !has {
					good = false
					continue
				}
				seen[int64(k)] = true
				a, b := sorted2(name, "p0")
				if !c.mustPass(pg, "O-C02.2", fmt.Sprintf("name switch: algorithm %d only for its name", k), "returning that algorithm", []*PState{s}, A("+Eq("+a+", "+b+")")) {
					good = false
				}
			}
			revOK = good && len(seen) == 6
		}
	}
	c.add("O-C02.2", "JWS reverse map is derived from the name map", "the name -> algorithm map used for reading is the inversion of the same name map object", revOK, "")
	// (4) the verifying parser uses the allow-list
	for _, f := range discoverFormats(c) {
		if f.name != "JWS" {
			continue
		}
		pg := c.pgOfNI(f.method("Verify"), f.method("Content"))
		if pg == nil {
			continue
		}
		ok := returnsWhere(pg, func(s *PState) bool { return retNilErr(s, 1) })
		c.mustPass(pg, "O-C02.4", "JWS verification restricted to the allow-list", "JWS Verify succeeds", ok, AnyOf(AG("+IsNil((*github.com/golang-jwt/jwt/v4.Parser).Parse(github.com/golang-jwt/jwt/v4.NewParser(github.com/golang-jwt/jwt/v4.WithValidMethods("+listName+")**), **)#1)"),
			AG("+IsNil(github.com/golang-jwt/jwt/v4.Parse(**github.com/golang-jwt/jwt/v4.WithValidMethods("+listName+")**)#1)")))
	}
}

func selIdent(e ast.Expr) *ast.Ident {
	switch x := ast.Unparen(e).(type) {
	case *ast.Ident:
		return x
	case *ast.SelectorExpr:
		return x.Sel
	}
	return nil
}

func coseTables(c *Check) {
	t := coseNames(c)
	_, init, pk := c.globalInit(t.algMap)
	if init == nil {
		c.undecided("O-C02.2", "COSE algorithm map", "no package-level map[cose.Algorithm]signature.Algorithm with a literal initialiser", "")
		return
	}
	cl, _ := ast.Unparen(init).(*ast.CompositeLit)
	pairs := map[string]string{}
	byConst := map[string]int{} // cose constant value -> signature alg
	good := len(cl.Elts) == 6
	vals := map[int]bool{}
	for _, e := range cl.Elts {
		kv := e.(*ast.KeyValueExpr)
		a, b := suffixAfter(kv.Key, "Algorithm"), suffixAfter(kv.Value, "Algorithm")
		pairs[a] = b
		if a == "" || a != b {
			good = false
		}
		kc, vc := constOf(pk, kv.Key), constOf(pk, kv.Value)
		var vi int
		fmt.Sscan(vc, &vi)
		byConst[kc] = vi
		vals[vi] = true
	}
	for k := range algNames {
		if !vals[k] {
			good = false
		}
	}
	c.Tables["cose_alg_map"] = byConst
	c.add("O-C02.2", "COSE map pairs like-named algorithms", "the COSE algorithm map is a bijection from the like-named go-cose constants onto the six signature.Algorithm constants", good, c.P.pos(init.Pos()), fmt.Sprint(pairs))
	// verifier algorithm derived from the leaf key, row by row (also the keyspec->alg switch)
	for _, f := range discoverFormats(c) {
		if f.name != "COSE" {
			continue
		}
		pg := c.pgOfNI(f.method("Verify"), f.method("Content"))
		if pg == nil {
			continue
		}
		ok := returnsWhere(pg, func(s *PState) bool { return retNilErr(s, 1) })
		leaf := "crypto/x509.ParseCertificate(recv.base.Headers.Unprotected[33].([]any)[0].([]byte))#0"
		rsa := "TypeIs(" + leaf + ".PublicKey, *crypto/rsa.PublicKey)"
		ec := "TypeIs(" + leaf + ".PublicKey, *crypto/ecdsa.PublicKey)"
		for _, row := range algTable {
			cc := ""
			for k, v := range byConst {
				if v == row.alg {
					cc = k
				}
			}
			var premise []LP
			if row.rsa {
				premise = []LP{A("-" + rsa), A(fmt.Sprintf("-Eq(%s, %d)", rsaSize(leaf), row.size))}
			} else {
				premise = []LP{A("+" + rsa), A("-" + ec), A(fmt.Sprintf("-Eq(%s, %d)", ecSize(leaf), row.size))}
			}
			for _, o := range algTable {
				if o.rsa == row.rsa && o.size != row.size {
					if row.rsa {
						premise = append(premise, A(fmt.Sprintf("+Eq(%s, %d)", rsaSize(leaf), o.size)))
					} else {
						premise = append(premise, A(fmt.Sprintf("+Eq(%s, %d)", ecSize(leaf), o.size)))
					}
				}
			}
			c.mustPass(pg, "O-C02.5", "COSE verifier algorithm from the leaf key: "+row.name, "COSE Verify succeeds", ok, AnyOf(append(premise, A("+IsNil(github.com/veraison/go-cose.NewVerifier("+cc+", "+leaf+".PublicKey)#1)"))...))
		}
		for _, r := range keySpecReqs(leaf) {
			c.mustPass(pg, "O-C02.5", "COSE verify: leaf "+r.name, "COSE Verify succeeds", ok, r.lp)
		}
		// hash switch
		hsites := c.P.callSites(func(n string) bool { return n == "ncg/internal/timestamp.Timestamp" })
		_ = hsites
	}
	// hashFromCOSEAlgorithm: the in-package function func(cose.Algorithm) (crypto.Hash, error)
	for _, fs := range c.P.productFuncs() {
		if c.P.abbrev(fs.Pkg.PkgPath) != "ncg/signature/cose" {
			continue
		}
		sig := fs.Obj.Type().(*types.Signature)
		if sig.Recv() == nil && sig.Params().Len() == 1 && sig.Results().Len() == 2 && c.P.typeStr(sig.Params().At(0).Type()) == "github.com/veraison/go-cose.Algorithm" && c.P.typeStr(sig.Results().At(0).Type()) == "crypto.Hash" {
			pg := c.pgOf(c.P.abbrev(fs.Obj.FullName()))
			if pg == nil {
				continue
			}
			okNodes := map[int64]bool{} // the distinct hashes returned (one return per hash, or one return fed by a table)
			for _, s := range pg.Returns() {
				if !retNilErr(s, 1) {
					continue
				}
				h, ok := retConst(s, 0)
				if ok {
					okNodes[int64(h)] = true
				}
				var lps []LP
				for k, a := range byConst {
					if hashOfAlg[a] == h {
						x, y := sorted2(k, "p0")
						lps = append(lps, A("+Eq("+x+", "+y+")"))
					}
				}
				c.mustPass(pg, "O-C02.2", fmt.Sprintf("COSE hash %d only for its two algorithms", h), "returning that hash", []*PState{s}, AnyOf(lps...))
				if !ok || len(lps) != 2 {
					c.add("O-C02.2", "COSE hash switch returns table hashes", "the COSE hash switch returns SHA-256/384/512 for the mapped algorithms", false, c.P.pos(s.Node.Pos))
				}
			}
			c.add("O-C02.2", "COSE hash switch agrees with Algorithm.Hash under the map", "the COSE hash switch has exactly the three hash rows of the reference table", len(okNodes) == 3, c.P.pos(fs.Decl.Pos()))
		}
	}
}

// headerNameDifferential: O-C02.5. The JWT library reads the header member
// named exactly "alg"; encoding/json fills the protected-header struct by
// case-insensitive name matching (last match wins). The declared algorithm the
// library compares with the leaf key is therefore the one verification uses
// only if the decoder refuses members that differ from a specification name by
// case alone.
func headerNameDifferential(c *Check) {
	var target *FuncSrc
	var names []string
	for _, fs := range c.P.productFuncs() {
		if !strings.HasSuffix(fs.Pkg.PkgPath, "/signature/jws") {
			continue
		}
		info := fs.Pkg.TypesInfo
		ast.Inspect(fs.Decl.Body, func(n ast.Node) bool {
			call, ok := n.(*ast.CallExpr)
			if !ok || len(call.Args) != 2 {
				return true
			}
			fn, ok := typeutil.Callee(info, call).(*types.Func)
			if !ok || fn.FullName() != "encoding/json.Unmarshal" {
				return true
			}
			pt, ok := info.TypeOf(call.Args[1]).Underlying().(*types.Pointer)
			if !ok {
				return true
			}
			js := jsonNames(pt.Elem())
			for _, n := range js {
				if n == "alg" {
					target, names = fs, js
				}
			}
			return true
		})
	}
	if target == nil {
		c.undecided("O-C02.5", "JWS protected header decoder", "no json.Unmarshal into a struct with a member named alg found in the jws package", "")
		return
	}
	name := c.P.abbrev(target.Obj.FullName())
	pg := c.pgOf(name)
	if pg == nil {
		return
	}
	ok := returnsWhere(pg, func(s *PState) bool { return retNilErr(s, 1) })
	c.floor("protected header decoder success returns", 1, len(ok))
	// the loop over the raw member names: the range whose key is compared by EqualFold
	X := ""
	for _, a := range pg.AtomSet() {
		if strings.HasPrefix(a, "+EqFold(\"alg\", rk(") {
			X = strings.TrimSuffix(strings.TrimPrefix(a, "+EqFold(\"alg\", rk("), "))")
		}
	}
	where := c.P.pos(target.Decl.Pos())
	if X == "" {
		c.add("O-C02.5", "JWS: header member names are screened for case variants", "the decoder of the protected header examines the raw member names for look-alikes of \"alg\" (encoding/json would accept \"Alg\" for the struct while the JWT library reads \"alg\": the algorithm compared with the leaf key would not be the one used for verification)", false, where, "no comparison of a raw member name with \"alg\" under strings.EqualFold found in "+name)
		return
	}
	c.onlyAfterExhaustion(pg, "O-C02.5", "JWS: all raw member names examined", "returning the decoded protected header", X, ok)
	c.mustPass(pg, "O-C02.5", "JWS: the scan of the raw member names is unconditional", "returning the decoded protected header", ok, RangeDone(X))
	for _, n := range names {
		if n == "ExtendedAttributes" || n == "-" {
			continue
		}
		rule := "O-C02.5"
		q := `"` + n + `"`
		c.perIteration(pg, rule, "JWS: no case variant of header "+n, "every raw member name is exactly "+n+" or does not fold to it", X, AnyOf(A("+Eq("+q+", rk("+X+"))"), A("-EqFold("+q+", rk("+X+"))")))
	}
}
