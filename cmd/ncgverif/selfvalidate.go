package main

// Thorough tier: the checker is tested both ways against its committed
// corpora. Every variant is a patch applied to a scratch copy of the analysed
// tree (never to the tree itself); the analysis of a variant runs in a child
// process with its own output directory. Mutants, seeded changes and reverts of
// repaired defects must be reported; benign rewrites must stay silent. The
// outcome is evidence about the checker, not about the tree: it never changes
// the exit code of the check and never prints a VIOLATION line.

import (
	"fmt"
	"os"
	"os/exec"
	"path/filepath"
	"sort"
	"strings"
	"sync"
)

// revertProps: which properties' rules see the revert of each repaired defect.
var revertProps = map[string][]string{
	"D1": {"C09"}, "D2": {"C17", "C09"}, "D3": {"C08"}, "D4": {"C20"}, "D5": {"C10"},
	"D6": {"C16", "C09"}, "D7": {"C16"}, "D8": {"C04"}, "D9": {"C09"}, "D10": {"C02"}, "D11": {"C16"},
}

type variant struct {
	name   string
	kind   string // mutant seeded revert benign
	patch  string
	expect bool // expected to be reported
}

type variantResult struct {
	variant
	status string // detected missed silent false-alarm skipped
	detail string
}

func corpusFor(verifDir, id string) []variant {
	var out []variant
	glob := func(pat string) []string {
		m, _ := filepath.Glob(filepath.Join(verifDir, pat))
		sort.Strings(m)
		return m
	}
	for _, p := range glob("selftest/mutants/" + id + "-*.patch") {
		out = append(out, variant{strings.TrimSuffix(filepath.Base(p), ".patch"), "mutant", p, true})
	}
	for _, p := range glob("seeded/" + id + "-*/patch.diff") {
		out = append(out, variant{"seeded/" + filepath.Base(filepath.Dir(p)), "seeded", p, true})
	}
	for d, props := range revertProps {
		for _, pr := range props {
			if pr == id {
				p := filepath.Join(verifDir, "selftest/reverts/"+d+".patch")
				if _, err := os.Stat(p); err == nil {
					out = append(out, variant{"revert/" + d, "revert", p, true})
				}
			}
		}
	}
	for _, p := range glob("selftest/benign/" + id + "-*.patch") {
		out = append(out, variant{"benign/" + strings.TrimSuffix(filepath.Base(p), ".patch"), "benign", p, false})
	}
	// extra seeded changes of other properties that this property's rules also see
	for _, p := range glob("selftest/cross/" + id + "-*.patch") {
		out = append(out, variant{"cross/" + strings.TrimSuffix(filepath.Base(p), ".patch"), "mutant", p, true})
	}
	sort.Slice(out, func(i, j int) bool { return out[i].name < out[j].name })
	return out
}

func copyTree(src, dst string) error {
	return filepath.Walk(src, func(path string, info os.FileInfo, err error) error {
		if err != nil {
			return err
		}
		rel, _ := filepath.Rel(src, path)
		if rel == ".git" {
			if info.IsDir() {
				return filepath.SkipDir
			}
			return nil
		}
		target := filepath.Join(dst, rel)
		if info.IsDir() {
			return os.MkdirAll(target, 0o755)
		}
		if !info.Mode().IsRegular() {
			return nil
		}
		bs, err := os.ReadFile(path)
		if err != nil {
			return err
		}
		return os.WriteFile(target, bs, 0o644)
	})
}

func runVariant(v variant, repo, verifDir, id string) variantResult {
	res := variantResult{variant: v}
	tmp, err := os.MkdirTemp("", "ncgverif-variant-")
	if err != nil {
		res.status, res.detail = "skipped", err.Error()
		return res
	}
	defer os.RemoveAll(tmp)
	tree := filepath.Join(tmp, "tree")
	out := filepath.Join(tmp, "verif")
	_ = os.MkdirAll(out, 0o755)
	if err := copyTree(repo, tree); err != nil {
		res.status, res.detail = "skipped", "copy: "+err.Error()
		return res
	}
	if bs, err := os.ReadFile(filepath.Join(verifDir, "known_findings.txt")); err == nil {
		_ = os.WriteFile(filepath.Join(out, "known_findings.txt"), bs, 0o644)
	}
	ap := exec.Command("git", "apply", "--whitespace=nowarn", v.patch)
	ap.Dir = tree
	ap.Env = append(os.Environ(), "GIT_DIR=/nonexistent", "GIT_CEILING_DIRECTORIES="+tmp)
	if bs, err := ap.CombinedOutput(); err != nil {
		// fall back to patch(1) with fuzz
		pp := exec.Command("patch", "-p1", "-s", "-i", v.patch)
		pp.Dir = tree
		if bs2, err2 := pp.CombinedOutput(); err2 != nil {
			res.status, res.detail = "skipped", "patch does not apply to the current tree: "+firstLine(string(bs))+" / "+firstLine(string(bs2))
			return res
		}
	}
	self, _ := os.Executable()
	cmd := exec.Command(self, "-repo", tree, "-prop", id, "-tier", "quick", "-verif", out)
	cmd.Env = append(os.Environ(), "NCGVERIF_CHILD=1")
	bs, err := cmd.CombinedOutput()
	txt := string(bs)
	reported := err != nil
	if strings.Contains(txt, "UNDECIDED load|") {
		res.status, res.detail = "skipped", "variant does not type-check"
		return res
	}
	first := ""
	for _, l := range strings.Split(txt, "\n") {
		if strings.HasPrefix(l, "FAILED ") || strings.HasPrefix(l, "UNDECIDED ") {
			first = l
			break
		}
	}
	if len(first) > 200 {
		first = first[:200]
	}
	switch {
	case v.expect && reported:
		res.status, res.detail = "detected", first
	case v.expect && !reported:
		res.status = "missed"
	case !v.expect && reported:
		res.status, res.detail = "false-alarm", first
		if why := knownBenignAlarm(verifDir, v.name, id); why != "" {
			res.status = "known-limitation"
			res.detail = first + " -- " + why
		}
	default:
		res.status = "silent"
	}
	return res
}

func firstLine(s string) string {
	s = strings.TrimSpace(s)
	if i := strings.Index(s, "\n"); i >= 0 {
		s = s[:i]
	}
	return s
}

// selfValidate runs the corpus of property id and records the outcome in c.
func selfValidate(c *Check, id, repo, verifDir string) {
	if os.Getenv("NCGVERIF_CHILD") != "" || os.Getenv("NCGVERIF_NO_SELFTEST") != "" {
		return
	}
	// the corpora live next to the checker (…/bin/ncgverif -> …/)
	corpus := verifDir
	if self, err := os.Executable(); err == nil {
		if d := filepath.Dir(filepath.Dir(self)); dirExists(filepath.Join(d, "selftest")) {
			corpus = d
		}
	}
	vs := corpusFor(corpus, id)
	if len(vs) == 0 {
		return
	}
	results := make([]variantResult, len(vs))
	sem := make(chan struct{}, 6)
	var wg sync.WaitGroup
	for i, v := range vs {
		wg.Add(1)
		go func(i int, v variant) {
			defer wg.Done()
			sem <- struct{}{}
			defer func() { <-sem }()
			results[i] = runVariant(v, repo, corpus, id)
		}(i, v)
	}
	wg.Wait()
	counts := map[string]int{}
	var table []map[string]string
	for _, r := range results {
		counts[r.status]++
		c.Controls[r.kind+":"+r.name] = r.status == "detected" || r.status == "silent"
		table = append(table, map[string]string{"variant": r.name, "kind": r.kind, "status": r.status, "first_report": r.detail})
		switch r.status {
		case "detected", "silent":
			fmt.Printf("CONTROL ok      %-8s %s\n", r.kind, r.name)
		case "skipped":
			fmt.Printf("CONTROL skipped %-8s %s (%s)\n", r.kind, r.name, r.detail)
		case "missed":
			fmt.Printf("CONTROL-MISSED  %-8s %s: the change was not reported\n", r.kind, r.name)
		case "false-alarm":
			fmt.Printf("CONTROL-FALSE-ALARM %-8s %s: %s\n", r.kind, r.name, r.detail)
		case "known-limitation":
			fmt.Printf("CONTROL known-limitation %-8s %s: %s\n", r.kind, r.name, r.detail)
		}
	}
	c.Tables["self_validation"] = table
	c.Notes = append(c.Notes, fmt.Sprintf("self-validation on scratch copies: %d variants (%d detected, %d benign silent, %d missed, %d false alarms, %d skipped)", len(vs), counts["detected"], counts["silent"], counts["missed"], counts["false-alarm"]+counts["known-limitation"], counts["skipped"]))
}

func dirExists(p string) bool {
	st, err := os.Stat(p)
	return err == nil && st.IsDir()
}

// knownBenignAlarm: selftest/known_benign_alarms.txt lists behaviour-preserving
// rewrites on which a check is known to alarm (a documented limitation of the
// checker, DESIGN section 8): "<patch name> <property|*> <reason>".
func knownBenignAlarm(corpus, variant, prop string) string {
	bs, err := os.ReadFile(filepath.Join(corpus, "selftest", "known_benign_alarms.txt"))
	if err != nil {
		return ""
	}
	name := strings.TrimPrefix(variant, "benign/")
	for _, line := range strings.Split(string(bs), "\n") {
		f := strings.Fields(line)
		if len(f) < 3 || strings.HasPrefix(f[0], "#") {
			continue
		}
		if f[0] == name && (f[1] == prop || f[1] == "*") {
			return "known limitation: " + strings.Join(f[2:], " ")
		}
	}
	return ""
}
