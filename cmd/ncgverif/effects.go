package main

// F-lite: syntactic effect scan over an in-module call tree.

import (
	"go/ast"
	"go/token"
	"go/types"
	"sort"
	"strings"

	"golang.org/x/tools/go/types/typeutil"
)

// callTree returns the product functions reachable from roots through static
// in-module calls (interface calls are not followed).
func (c *Check) callTree(roots []string) []*FuncSrc {
	seen := map[string]bool{}
	var out []*FuncSrc
	var walk func(string)
	walk = func(n string) {
		if seen[n] {
			return
		}
		seen[n] = true
		fs := c.P.fn(n)
		if fs == nil {
			return
		}
		out = append(out, fs)
		for _, cal := range c.P.directCallees(fs) {
			walk(cal)
		}
	}
	for _, r := range roots {
		walk(r)
	}
	sort.Slice(out, func(i, j int) bool { return out[i].Decl.Pos() < out[j].Decl.Pos() })
	return out
}

// rootOfLHS finds the root identifier of an assignment target and how deep the
// access path is (0 = the identifier itself).
func rootOfLHS(info *types.Info, e ast.Expr) (*ast.Ident, int) {
	depth := 0
	for {
		switch x := ast.Unparen(e).(type) {
		case *ast.SelectorExpr:
			if id, ok := x.X.(*ast.Ident); ok {
				if _, isPkg := info.Uses[id].(*types.PkgName); isPkg {
					return x.Sel, depth
				}
			}
			e = x.X
			depth++
		case *ast.IndexExpr:
			e = x.X
			depth++
		case *ast.StarExpr:
			e = x.X
			depth++
		case *ast.SliceExpr:
			e = x.X
			depth++
		case *ast.Ident:
			return x, depth
		default:
			return nil, depth
		}
	}
}

// effectScan checks the functions of the call trees of roots; readOnlyExt lists
// external callees that may receive receiver-derived references.
func effectScan(c *Check, roots []string, readOnlyExt map[string]bool) (bad []string, n int) {
	fns := c.callTree(roots)
	inTree := map[*types.Func]bool{}
	for _, fs := range fns {
		inTree[fs.Obj] = true
	}
	// pointer parameters written through, per function
	type pw struct {
		fs  *FuncSrc
		idx int
	}
	var ptrWrites []pw
	for _, fs := range fns {
		n++
		if ab, _ := appendAliasing(c, fs); len(ab) > 0 {
			bad = append(bad, ab...)
		}
		info := fs.Pkg.TypesInfo
		name := c.P.abbrev(fs.Obj.FullName())
		var recv types.Object
		if fs.Decl.Recv != nil && len(fs.Decl.Recv.List) > 0 && len(fs.Decl.Recv.List[0].Names) > 0 {
			recv = info.Defs[fs.Decl.Recv.List[0].Names[0]]
		}
		params := map[types.Object]int{}
		i := 0
		for _, f := range fs.Decl.Type.Params.List {
			for _, nm := range f.Names {
				params[info.Defs[nm]] = i
				i++
			}
			if len(f.Names) == 0 {
				i++
			}
		}
		// locals that alias the receiver: x := recv.f... (one level, syntactic)
		alias := map[types.Object]bool{}
		ast.Inspect(fs.Decl.Body, func(nd ast.Node) bool {
			if as, ok := nd.(*ast.AssignStmt); ok && len(as.Lhs) == len(as.Rhs) {
				for k, r := range as.Rhs {
					if id, _ := rootOfLHS(info, r); id != nil && recv != nil && info.Uses[id] == recv {
						if t := info.TypeOf(r); t != nil {
							switch t.Underlying().(type) {
							case *types.Pointer, *types.Map, *types.Slice:
								if lid, ok := as.Lhs[k].(*ast.Ident); ok {
									if o := info.Defs[lid]; o != nil {
										alias[o] = true
									}
								}
							}
						}
					}
				}
			}
			return true
		})
		write := func(lhs ast.Expr, pos token.Pos, what string) {
			id, depth := rootOfLHS(info, lhs)
			if id == nil {
				return
			}
			obj := info.Uses[id]
			if obj == nil {
				obj = info.Defs[id]
			}
			v, ok := obj.(*types.Var)
			if !ok {
				return
			}
			switch {
			case isPkgLevel(v):
				if fs.Obj.Name() != "init" {
					bad = append(bad, c.P.pos(pos)+": "+name+" "+what+" package-level variable "+v.Name())
				}
			case recv != nil && obj == recv && depth > 0:
				bad = append(bad, c.P.pos(pos)+": "+name+" "+what+" a field of its receiver")
			case alias[obj] && depth > 0:
				bad = append(bad, c.P.pos(pos)+": "+name+" "+what+" through "+v.Name()+", which aliases the receiver")
			default:
				if idx, isParam := params[obj]; isParam && depth > 0 {
					if _, isPtr := v.Type().Underlying().(*types.Pointer); isPtr {
						ptrWrites = append(ptrWrites, pw{fs, idx})
					} else if _, isMap := v.Type().Underlying().(*types.Map); isMap {
						ptrWrites = append(ptrWrites, pw{fs, idx})
					}
				}
			}
		}
		ast.Inspect(fs.Decl.Body, func(nd ast.Node) bool {
			switch x := nd.(type) {
			case *ast.AssignStmt:
				for _, l := range x.Lhs {
					write(l, x.Pos(), "assigns")
				}
			case *ast.IncDecStmt:
				write(x.X, x.Pos(), "modifies")
			case *ast.CallExpr:
				if id, ok := x.Fun.(*ast.Ident); ok {
					if b, ok := info.Uses[id].(*types.Builtin); ok && (b.Name() == "delete" || b.Name() == "clear" || b.Name() == "copy") && len(x.Args) > 0 {
						// deleting from / copying into: treated as a write one level below
						write(&ast.IndexExpr{X: x.Args[0]}, x.Pos(), b.Name()+"s from")
					}
				}
				if fn, ok := typeutil.Callee(info, x).(*types.Func); ok && !inTree[fn] && !strings.HasPrefix(fn.FullName(), c.P.ModPath) {
					// external callee receiving a receiver-derived reference
					fname := fn.FullName()
					args := append([]ast.Expr{}, x.Args...)
					if se, ok := ast.Unparen(x.Fun).(*ast.SelectorExpr); ok {
						if _, isSel := info.Selections[se]; isSel {
							args = append(args, se.X)
						}
					}
					for _, a := range args {
						id, _ := rootOfLHS(info, stripAddr(a))
						if id == nil {
							continue
						}
						o := info.Uses[id]
						if (recv != nil && o == recv) || alias[o] {
							t := info.TypeOf(a)
							if t == nil {
								continue
							}
							switch t.Underlying().(type) {
							case *types.Pointer, *types.Map:
								if !readOnlyExt[fname] {
									bad = append(bad, c.P.pos(x.Pos())+": "+name+" hands receiver-derived "+t.String()+" to "+fname+" (not in the reviewed read-only table)")
								}
							}
						}
					}
				}
			}
			return true
		})
	}
	// every caller of a function that writes through pointer parameter idx passes &local there
	for _, w := range ptrWrites {
		for _, site := range c.P.callSites(func(nm string) bool { return nm == c.P.abbrev(w.fs.Obj.FullName()) }) {
			if w.idx >= len(site.Call.Args) {
				continue
			}
			a := ast.Unparen(site.Call.Args[w.idx])
			okArg := false
			if u, ok := a.(*ast.UnaryExpr); ok && u.Op == token.AND {
				if id, _ := rootOfLHS(site.Fn.Pkg.TypesInfo, u.X); id != nil {
					if v, ok := site.Fn.Pkg.TypesInfo.Uses[id].(*types.Var); ok && !isPkgLevel(v) && !v.IsField() {
						okArg = !isParamOrRecv(site.Fn, v)
						// &p.f of a pointer parameter p of a function that is itself checked here: a part of
						// what that function's callers handed in (they are then checked for p)
						if !okArg && inTree[site.Fn.Obj] {
							if _, isPtr := v.Type().Underlying().(*types.Pointer); isPtr {
								if pi := paramIndex(site.Fn, v); pi >= 0 {
									okArg = true
									ptrWrites = append(ptrWrites, pw{site.Fn, pi})
								}
							}
						}
					}
				}
			}
			if id, ok := a.(*ast.Ident); ok {
				// a local map/pointer freshly made in the caller
				if v, ok := site.Fn.Pkg.TypesInfo.Uses[id].(*types.Var); ok && !isPkgLevel(v) && !isParamOrRecv(site.Fn, v) {
					okArg = true
				}
				// or forwarded from a parameter of a function that is itself checked here
				if v, ok := site.Fn.Pkg.TypesInfo.Uses[id].(*types.Var); ok && isParamOrRecv(site.Fn, v) && inTree[site.Fn.Obj] {
					okArg = true
					// the forwarding function then "writes" its own parameter: re-queue
					pi := paramIndex(site.Fn, v)
					if pi >= 0 {
						ptrWrites = append(ptrWrites, pw{site.Fn, pi})
					} else {
						okArg = false
					}
				}
			}
			if !okArg {
				bad = append(bad, c.P.pos(site.Call.Pos())+": "+c.P.abbrev(site.Fn.Obj.FullName())+" passes a non-local as argument "+string(rune('0'+w.idx))+" of "+w.fs.Obj.Name()+", which writes through it")
			}
		}
		if len(ptrWrites) > 200 {
			bad = append(bad, "effect scan did not converge")
			break
		}
	}
	sort.Strings(bad)
	return dedupe(bad), n
}

func dedupe(ss []string) []string {
	var out []string
	for i, s := range ss {
		if i == 0 || s != ss[i-1] {
			out = append(out, s)
		}
	}
	return out
}

func stripAddr(e ast.Expr) ast.Expr {
	if u, ok := ast.Unparen(e).(*ast.UnaryExpr); ok && u.Op == token.AND {
		return u.X
	}
	return e
}

func isParamOrRecv(fs *FuncSrc, v *types.Var) bool {
	return paramIndex(fs, v) >= 0 || (fs.Decl.Recv != nil && len(fs.Decl.Recv.List) > 0 && len(fs.Decl.Recv.List[0].Names) > 0 && fs.Pkg.TypesInfo.Defs[fs.Decl.Recv.List[0].Names[0]] == types.Object(v))
}

func paramIndex(fs *FuncSrc, v *types.Var) int {
	i := 0
	for _, f := range fs.Decl.Type.Params.List {
		for _, nm := range f.Names {
			if fs.Pkg.TypesInfo.Defs[nm] == types.Object(v) {
				return i
			}
			i++
		}
		if len(f.Names) == 0 {
			i++
		}
	}
	return -1
}

// appendAliasing: every append in fs grows a slice whose backing array was
// allocated in fs (declared nil, made, a literal, or the result of such an
// append). Appending to x[:0] or x[:n] of a parameter, field, map element or
// assertion result writes into storage the caller still sees.
func appendAliasing(c *Check, fs *FuncSrc) (bad []string, n int) {
	info := fs.Pkg.TypesInfo
	params := map[types.Object]bool{}
	for _, f := range fs.Decl.Type.Params.List {
		for _, nm := range f.Names {
			params[info.Defs[nm]] = true
		}
	}
	if fs.Decl.Recv != nil {
		for _, f := range fs.Decl.Recv.List {
			for _, nm := range f.Names {
				params[info.Defs[nm]] = true
			}
		}
	}
	// assignments per local
	defs := map[types.Object][]ast.Expr{}
	declared := map[types.Object]bool{}
	ast.Inspect(fs.Decl.Body, func(nd ast.Node) bool {
		switch x := nd.(type) {
		case *ast.AssignStmt:
			for i, l := range x.Lhs {
				id, ok := l.(*ast.Ident)
				if !ok {
					continue
				}
				o := info.Defs[id]
				if o == nil {
					o = info.Uses[id]
				}
				if o == nil {
					continue
				}
				if len(x.Rhs) == len(x.Lhs) {
					defs[o] = append(defs[o], x.Rhs[i])
				} else {
					defs[o] = append(defs[o], nil) // multi-value: unknown origin
				}
			}
		case *ast.ValueSpec:
			for i, nm := range x.Names {
				o := info.Defs[nm]
				if i < len(x.Values) {
					defs[o] = append(defs[o], x.Values[i])
				} else if len(x.Values) == 0 {
					declared[o] = true
				} else {
					defs[o] = append(defs[o], nil)
				}
			}
		case *ast.RangeStmt:
			for _, e := range []ast.Expr{x.Key, x.Value} {
				if id, ok := e.(*ast.Ident); ok {
					if o := info.Defs[id]; o != nil {
						defs[o] = append(defs[o], nil)
					}
				}
			}
		}
		return true
	})
	isAppend := func(e ast.Expr) *ast.CallExpr {
		call, ok := ast.Unparen(e).(*ast.CallExpr)
		if !ok {
			return nil
		}
		id, ok := call.Fun.(*ast.Ident)
		if !ok {
			return nil
		}
		if b, ok := info.Uses[id].(*types.Builtin); ok && b.Name() == "append" {
			return call
		}
		return nil
	}
	fresh := map[types.Object]bool{}
	var freshExpr func(e ast.Expr) bool
	freshExpr = func(e ast.Expr) bool {
		if e == nil {
			return false
		}
		e = ast.Unparen(e)
		if tv, ok := info.Types[e]; ok && tv.IsNil() {
			return true
		}
		switch x := e.(type) {
		case *ast.CompositeLit:
			return true
		case *ast.Ident:
			return fresh[info.Uses[x]]
		case *ast.CallExpr:
			if ap := isAppend(x); ap != nil {
				return freshExpr(ap.Args[0])
			}
			if id, ok := x.Fun.(*ast.Ident); ok {
				if b, ok := info.Uses[id].(*types.Builtin); ok && b.Name() == "make" {
					return true
				}
			}
			if tv, ok := info.Types[x.Fun]; ok && tv.IsType() && len(x.Args) == 1 {
				return freshExpr(x.Args[0]) // conversion
			}
			return false
		case *ast.SliceExpr:
			return freshExpr(x.X)
		}
		return false
	}
	// fixpoint: a local is fresh if it is not a parameter and every assignment is fresh
	for changed := true; changed; {
		changed = false
		for o, ds := range defs {
			if fresh[o] || params[o] {
				continue
			}
			ok := true
			for _, d := range ds {
				// optimistic on self-reference: x = append(x, ...)
				fresh[o] = true
				if !freshExpr(d) {
					ok = false
				}
				fresh[o] = false
			}
			if ok {
				fresh[o] = true
				changed = true
			}
		}
		for o := range declared {
			if !fresh[o] && len(defs[o]) == 0 {
				fresh[o] = true
				changed = true
			}
		}
	}
	// a local declared without value and later assigned: fresh iff all assignments are
	for o := range declared {
		if fresh[o] {
			continue
		}
		ok := true
		fresh[o] = true
		for _, d := range defs[o] {
			if !freshExpr(d) {
				ok = false
			}
		}
		fresh[o] = ok
	}
	ast.Inspect(fs.Decl.Body, func(nd ast.Node) bool {
		if ap := isAppend2(info, nd); ap != nil {
			n++
			if !freshExpr(ap.Args[0]) && !ownedResultField(c, info, defs, params, ap.Args[0]) {
				bad = append(bad, c.P.pos(ap.Pos())+": "+c.P.abbrev(fs.Obj.FullName())+" appends to "+types.ExprString(ap.Args[0])+", whose backing array may be shared with data the caller still holds")
			}
		}
		return true
	})
	return bad, n
}

func isAppend2(info *types.Info, nd ast.Node) *ast.CallExpr {
	call, ok := nd.(*ast.CallExpr)
	if !ok {
		return nil
	}
	id, ok := call.Fun.(*ast.Ident)
	if !ok {
		return nil
	}
	if b, ok := info.Uses[id].(*types.Builtin); ok && b.Name() == "append" {
		return call
	}
	return nil
}

// ownedResultField: e is a field of a verdict object (a struct type of the module's result
// package) reached from a local - not a parameter - whose every definition is the result of a
// statically resolved call of a function of this module. Verdict objects are built per check by
// the per-method checkers (the closed set of constructors of O-C06.1), so nobody else holds the
// slice the caller of the checker appends to.
func ownedResultField(c *Check, info *types.Info, defs map[types.Object][]ast.Expr, params map[types.Object]bool, e ast.Expr) bool {
	sel, ok := ast.Unparen(e).(*ast.SelectorExpr)
	if !ok {
		return false
	}
	s := info.Selections[sel]
	if s == nil || s.Kind() != types.FieldVal {
		return false
	}
	fld, _ := s.Obj().(*types.Var)
	if fld == nil || fld.Pkg() == nil || fld.Pkg().Path() != c.P.ModPath+"/revocation/result" {
		return false
	}
	id, ok := ast.Unparen(sel.X).(*ast.Ident)
	if !ok {
		return false
	}
	o := info.Uses[id]
	if o == nil || params[o] || len(defs[o]) == 0 {
		return false
	}
	if v, ok := o.(*types.Var); !ok || isPkgLevel(v) {
		return false
	}
	for _, d := range defs[o] {
		call, ok := ast.Unparen(d).(*ast.CallExpr)
		if !ok {
			return false
		}
		fn := typeutil.StaticCallee(info, call)
		if fn == nil || fn.Pkg() == nil || !strings.HasPrefix(fn.Pkg().Path(), c.P.ModPath) {
			return false
		}
		if sig := fn.Type().(*types.Signature); sig.Recv() != nil && types.IsInterface(sig.Recv().Type()) {
			return false
		}
	}
	return true
}
