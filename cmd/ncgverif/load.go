package main

import (
	"fmt"
	"go/ast"
	"go/token"
	"go/types"
	"os"
	"path/filepath"
	"sort"
	"strconv"
	"strings"

	"golang.org/x/tools/go/packages"
	"golang.org/x/tools/go/types/typeutil"
)

const modPath = "github.com/notaryproject/notation-core-go"

type FuncSrc struct {
	Obj  *types.Func
	Decl *ast.FuncDecl
	Pkg  *packages.Package
}

type Prog struct {
	Fset           *token.FileSet
	Pkgs           []*packages.Package          // module packages (product + helper)
	ByPath         map[string]*packages.Package // by import path (module only)
	All            map[string]*packages.Package // every loaded package incl. deps
	Funcs          map[*types.Func]*FuncSrc     // in-module product functions with bodies
	ByName         map[string]*FuncSrc          // FullName (abbreviated) -> src
	Dir            string
	forPats        map[types.Object]ast.Expr
	forPatsButLast map[types.Object]ast.Expr
	writtenGlobals map[types.Object]bool
	ModPath        string // module path of the analysed tree
	DepVers        map[string]string
}

// isProductPkg: packages whose code is subject to the rules.
func isProductPkg(path, mod string) bool {
	if path != mod && !strings.HasPrefix(path, mod+"/") {
		return false
	}
	rel := strings.TrimPrefix(strings.TrimPrefix(path, mod), "/")
	if rel == "testhelper" || strings.HasPrefix(rel, "testhelper/") {
		return false
	}
	if strings.HasPrefix(rel, "signature/internal/signaturetest") {
		return false
	}
	if strings.HasPrefix(rel, "internal/testhelper") {
		return false
	}
	return true
}

func loadProg(dir string, goos, goarch string) (*Prog, error) {
	env := append(os.Environ(), "GOFLAGS=-mod=mod", "GOPROXY=off", "GOSUMDB=off", "GOTOOLCHAIN=local", "GOWORK=off", "CGO_ENABLED=0")
	if goos != "" {
		env = append(env, "GOOS="+goos)
	}
	if goarch != "" {
		env = append(env, "GOARCH="+goarch)
	}
	cfg := &packages.Config{
		Mode:  packages.LoadAllSyntax,
		Dir:   dir,
		Tests: false,
		Env:   env,
	}
	pkgs, err := packages.Load(cfg, "./...")
	if err != nil {
		return nil, fmt.Errorf("packages.Load: %w", err)
	}
	if len(pkgs) == 0 {
		return nil, fmt.Errorf("no packages loaded from %s", dir)
	}
	p := &Prog{ByPath: map[string]*packages.Package{}, All: map[string]*packages.Package{}, Funcs: map[*types.Func]*FuncSrc{}, ByName: map[string]*FuncSrc{}, Dir: dir, DepVers: map[string]string{}}
	var errs []string
	packages.Visit(pkgs, nil, func(pk *packages.Package) {
		p.All[pk.PkgPath] = pk
		for _, e := range pk.Errors {
			errs = append(errs, pk.PkgPath+": "+e.Error())
		}
		if pk.Module != nil && !pk.Module.Main && pk.Module.Version != "" {
			p.DepVers[pk.Module.Path] = pk.Module.Version
		}
	})
	if len(errs) > 0 {
		sort.Strings(errs)
		if len(errs) > 10 {
			errs = errs[:10]
		}
		return nil, fmt.Errorf("type/load errors: %s", strings.Join(errs, "; "))
	}
	p.Fset = pkgs[0].Fset
	for _, pk := range pkgs {
		if pk.Module != nil && pk.Module.Main {
			p.ModPath = pk.Module.Path
		}
	}
	if p.ModPath == "" {
		p.ModPath = modPath
	}
	for _, pk := range pkgs {
		p.Pkgs = append(p.Pkgs, pk)
		p.ByPath[pk.PkgPath] = pk
		if !isProductPkg(pk.PkgPath, p.ModPath) {
			continue
		}
		for _, f := range pk.Syntax {
			fn := p.Fset.Position(f.Pos()).Filename
			if strings.HasSuffix(fn, "_test.go") {
				continue
			}
			for _, d := range f.Decls {
				fd, ok := d.(*ast.FuncDecl)
				if !ok || fd.Body == nil {
					continue
				}
				obj, _ := pk.TypesInfo.Defs[fd.Name].(*types.Func)
				if obj == nil {
					continue
				}
				fs := &FuncSrc{Obj: obj, Decl: fd, Pkg: pk}
				p.Funcs[obj] = fs
				p.ByName[p.abbrev(obj.FullName())] = fs
			}
		}
	}
	// the small generic search helpers of package slices are analysed from their source, like
	// in-module helpers (a hand-written scan and slices.Contains/IndexFunc are then one form)
	if pk := p.All["slices"]; pk != nil && pk.TypesInfo != nil {
		for _, f := range pk.Syntax {
			for _, d := range f.Decls {
				fd, ok := d.(*ast.FuncDecl)
				if !ok || fd.Body == nil || fd.Recv != nil {
					continue
				}
				switch fd.Name.Name {
				case "Index", "IndexFunc", "Contains", "ContainsFunc":
					if obj, _ := pk.TypesInfo.Defs[fd.Name].(*types.Func); obj != nil {
						p.Funcs[obj] = &FuncSrc{Obj: obj, Decl: fd, Pkg: pk}
					}
				}
			}
		}
	}
	sort.Slice(p.Pkgs, func(i, j int) bool { return p.Pkgs[i].PkgPath < p.Pkgs[j].PkgPath })
	// registry of module types without Unwrap/Is methods (for errors.Is on literals)
	noUnwrap := map[string]bool{}
	for _, pk := range pkgs {
		sc := pk.Types.Scope()
		for _, nm := range sc.Names() {
			tn, ok := sc.Lookup(nm).(*types.TypeName)
			if !ok {
				continue
			}
			for _, T := range []types.Type{tn.Type(), types.NewPointer(tn.Type())} {
				ms := types.NewMethodSet(T)
				has := false
				for i := 0; i < ms.Len(); i++ {
					if n := ms.At(i).Obj().Name(); n == "Unwrap" || n == "Is" {
						has = true
					}
				}
				name := p.typeStr(T)
				noUnwrap[name] = !has
			}
		}
	}
	typeHasNoUnwrapIs = func(s string) bool { return noUnwrap[s] }
	p.installSentinelOracle()
	return p, nil
}

// CallSite is a resolved call in product code.
type CallSite struct {
	Fn     *FuncSrc
	Call   *ast.CallExpr
	Callee string // abbreviated full name
}

// callSites lists all calls in product code whose resolved callee satisfies pred.
func (p *Prog) callSites(pred func(name string) bool) []CallSite {
	var out []CallSite
	for _, fs := range p.productFuncs() {
		info := fs.Pkg.TypesInfo
		ast.Inspect(fs.Decl.Body, func(n ast.Node) bool {
			call, ok := n.(*ast.CallExpr)
			if !ok {
				return true
			}
			if fn, ok := typeutil.Callee(info, call).(*types.Func); ok {
				name := p.abbrev(fn.FullName())
				if pred(name) {
					out = append(out, CallSite{Fn: fs, Call: call, Callee: name})
				}
			}
			return true
		})
	}
	return out
}

// abbrev shortens the module path in names to "ncg".
func (p *Prog) abbrev(s string) string {
	return strings.ReplaceAll(s, p.ModPath, "ncg")
}

func (p *Prog) pos(pos token.Pos) string {
	if !pos.IsValid() {
		return "-"
	}
	ps := p.Fset.Position(pos)
	rel, err := filepath.Rel(p.Dir, ps.Filename)
	if err != nil || strings.HasPrefix(rel, "..") {
		rel = ps.Filename
	}
	return fmt.Sprintf("%s:%d:%d", rel, ps.Line, ps.Column)
}

// fn looks a product function up by abbreviated full name, e.g.
// "ncg/x509.ValidateCodeSigningCertChain" or "(*ncg/signature/internal/base.Envelope).Sign".
func (p *Prog) fn(name string) *FuncSrc { return p.ByName[name] }

// productFuncs returns all product functions in deterministic order.
func (p *Prog) productFuncs() []*FuncSrc {
	var out []*FuncSrc
	for _, f := range p.Funcs {
		if isProductPkg(f.Pkg.PkgPath, p.ModPath) {
			out = append(out, f)
		}
	}
	sort.Slice(out, func(i, j int) bool { return out[i].Decl.Pos() < out[j].Decl.Pos() })
	return out
}

// typeStr renders a type with the module path abbreviated; unexported named
// types of the module are rendered by the kind of their underlying type so
// that renaming them does not change a term key.
func (p *Prog) typeStr(t types.Type) string {
	if t == nil {
		return "?"
	}
	s := types.TypeString(t, func(pk *types.Package) string { return pk.Path() })
	return p.abbrev(s)
}

// directCallees lists the in-module product functions (with bodies) called
// directly in the body of fs, in source order without duplicates.
func (p *Prog) directCallees(fs *FuncSrc) []string {
	var out []string
	seen := map[string]bool{}
	info := fs.Pkg.TypesInfo
	ast.Inspect(fs.Decl.Body, func(n ast.Node) bool {
		call, ok := n.(*ast.CallExpr)
		if !ok {
			return true
		}
		if fn, ok := typeutil.Callee(info, call).(*types.Func); ok {
			if t := p.Funcs[fn.Origin()]; t != nil {
				name := p.abbrev(fn.FullName())
				if !seen[name] {
					seen[name] = true
					out = append(out, name)
				}
			}
		}
		return true
	})
	return out
}

// installSentinelOracle: errors.Is(x, S) is false for an UNEXPORTED package-level
// sentinel S when x is the result of an external function, or of an in-module
// function whose static call tree never mentions S (nobody else can name S),
// also through fmt.Errorf/errors.Join wrapping of such values.
func (p *Prog) installSentinelOracle() {
	mentions := map[string]map[string]bool{} // function -> globals mentioned in its static call tree
	private := map[string]bool{}             // sentinel -> passes the who-may-reference rule
	var tree func(fs *FuncSrc, seen map[*FuncSrc]bool, out map[string]bool)
	tree = func(fs *FuncSrc, seen map[*FuncSrc]bool, out map[string]bool) {
		if seen[fs] {
			return
		}
		seen[fs] = true
		info := fs.Pkg.TypesInfo
		ast.Inspect(fs.Decl.Body, func(n ast.Node) bool {
			switch x := n.(type) {
			case *ast.Ident:
				if v, ok := info.Uses[x].(*types.Var); ok && isPkgLevel(v) {
					out[p.abbrev(v.Pkg().Path())+"."+v.Name()] = true
				}
				if f, ok := info.Uses[x].(*types.Func); ok {
					if cf := p.Funcs[f.Origin()]; cf != nil {
						tree(cf, seen, out)
					}
				}
			}
			return true
		})
	}
	lookup := func(name string) map[string]bool {
		if m, ok := mentions[name]; ok {
			return m
		}
		m := map[string]bool{}
		if fs := p.fn(name); fs != nil {
			tree(fs, map[*FuncSrc]bool{}, m)
		} else {
			m["?"] = true
		}
		mentions[name] = m
		return m
	}
	var cannot func(x *Term, g string, depth int) bool
	cannot = func(x *Term, g string, depth int) bool {
		if x == nil || depth > 6 {
			return false
		}
		i := strings.LastIndex(g, ".")
		if i < 0 || i+1 >= len(g) || !(g[i+1] >= 'a' && g[i+1] <= 'z') {
			return false // exported or odd: anybody may return it
		}
		// ... and it must not escape: referenced only as a return operand, as the target of
		// errors.Is, or through a local that is only returned or tested
		priv, known := private[g]
		if !known {
			_, bad := sentinelUsesP(p, g)
			priv = len(bad) == 0
			private[g] = priv
		}
		if !priv {
			return false
		}
		switch x.Op {
		case "res":
			return cannot(x.Args[0], g, depth+1)
		case "call":
			switch {
			case x.Name == "fmt.Errorf" || x.Name == "errors.Join":
				for _, a := range x.Args {
					if a.isConst() {
						continue
					}
					if a.Op == "spread" || !cannot(a, g, depth+1) {
						// non-error operands (strings, numbers) are harmless, but we cannot tell them apart here
						if a.Op == "call" || a.Op == "res" || a.Op == "global" || a.Op == "opaque" || a.Op == "spread" {
							return false
						}
					}
				}
				return true
			case x.Name == "dyn" || x.Name == "chanrecv":
				return false
			case strings.HasPrefix(x.Name, "ncg/") || strings.HasPrefix(x.Name, "(ncg/") || strings.HasPrefix(x.Name, "(*ncg/"):
				fs := p.fn(x.Name)
				if fs == nil {
					return false // interface method or unknown: the implementation is not ours to inspect
				}
				m := lookup(x.Name)
				return !m["?"] && !m[g]
			default:
				return true // external code cannot name an unexported variable of this module
			}
		case "struct", "addr":
			_, ok := dynType(x)
			return ok
		}
		return false
	}
	cannotBeSentinel = func(x *Term, g string) bool { return cannot(x, g, 0) }
}

// neverWritten: the package-level variable is assigned nowhere in product code
// (outside its declaration) and nothing is stored through it or its address taken.
func (p *Prog) neverWritten(v *types.Var) bool {
	if p.writtenGlobals == nil {
		p.writtenGlobals = map[types.Object]bool{}
		for _, fs := range p.productFuncs() {
			info := fs.Pkg.TypesInfo
			ast.Inspect(fs.Decl.Body, func(n ast.Node) bool {
				mark := func(e ast.Expr) {
					if id := rootIdent(e); id != nil {
						if g, ok := info.Uses[id].(*types.Var); ok && isPkgLevel(g) {
							p.writtenGlobals[g] = true
						}
					}
				}
				switch x := n.(type) {
				case *ast.AssignStmt:
					for _, l := range x.Lhs {
						mark(l)
					}
				case *ast.IncDecStmt:
					mark(x.X)
				case *ast.UnaryExpr:
					if x.Op == token.AND {
						mark(x.X)
					}
				}
				return true
			})
		}
	}
	return !p.writtenGlobals[v]
}

// tableRow is one row of a function that is a pure finite table.
type tableRow struct{ key, val *Term }

// pureTables: in-module functions of the shape
//
//	func f(k K) (V, bool) { switch k { case c1: return v1, true; ... }; return zero, false }
//
// (or with a default clause, or returning V only) over constants: the function
// form of a package-level map. Keyed by abbreviated full name.
var pureTables = map[string][]tableRow{}

func (p *Prog) pureTable(fn *types.Func) ([]tableRow, bool) {
	name := p.abbrev(fn.FullName())
	if rows, ok := pureTables[name]; ok {
		return rows, rows != nil
	}
	pureTables[name] = nil
	fs := p.Funcs[fn.Origin()]
	if fs == nil || fs.Decl.Recv != nil || fs.Decl.Body == nil {
		return nil, false
	}
	sig := fn.Type().(*types.Signature)
	if sig.Params().Len() != 1 || sig.Results().Len() < 1 || sig.Results().Len() > 2 {
		return nil, false
	}
	if b, ok := sig.Params().At(0).Type().Underlying().(*types.Basic); !ok || b.Info()&(types.IsString|types.IsInteger) == 0 {
		return nil, false
	}
	withOK := sig.Results().Len() == 2
	if withOK {
		if b, ok := sig.Results().At(1).Type().Underlying().(*types.Basic); !ok || b.Kind() != types.Bool {
			return nil, false
		}
	}
	info := fs.Pkg.TypesInfo
	var param types.Object
	if names := fs.Decl.Type.Params.List[0].Names; len(names) == 1 {
		param = info.Defs[names[0]]
	}
	if param == nil || len(fs.Decl.Body.List) < 1 || len(fs.Decl.Body.List) > 2 {
		return nil, false
	}
	sw, ok := fs.Decl.Body.List[0].(*ast.SwitchStmt)
	if !ok || sw.Init != nil || sw.Tag == nil {
		return nil, false
	}
	if id, ok := ast.Unparen(sw.Tag).(*ast.Ident); !ok || info.Uses[id] != param {
		return nil, false
	}
	constRet := func(st ast.Stmt, wantOK bool) (*Term, bool) {
		rs, ok := st.(*ast.ReturnStmt)
		if !ok || len(rs.Results) != sig.Results().Len() {
			return nil, false
		}
		tv, has := info.Types[rs.Results[0]]
		if !has || tv.Value == nil {
			return nil, false
		}
		if withOK {
			bv, has := info.Types[rs.Results[1]]
			if !has || bv.Value == nil || (bv.Value.String() == "true") != wantOK {
				return nil, false
			}
		}
		return constTerm(tv.Value), true
	}
	var rows []tableRow
	hasDefault := false
	for _, cc := range sw.Body.List {
		cl := cc.(*ast.CaseClause)
		if len(cl.Body) != 1 {
			return nil, false
		}
		if cl.List == nil {
			if _, ok := constRet(cl.Body[0], false); !ok {
				return nil, false
			}
			hasDefault = true
			continue
		}
		v, ok := constRet(cl.Body[0], true)
		if !ok {
			return nil, false
		}
		for _, ke := range cl.List {
			tv, has := info.Types[ke]
			if !has || tv.Value == nil {
				return nil, false
			}
			rows = append(rows, tableRow{constTerm(tv.Value), v})
		}
	}
	if len(fs.Decl.Body.List) == 2 {
		if _, ok := constRet(fs.Decl.Body.List[1], false); !ok {
			return nil, false
		}
	} else if !hasDefault {
		return nil, false
	}
	if len(rows) == 0 || !withOK {
		// without the ok result a miss cannot be told from a row: keep such functions inlined
		return nil, false
	}
	pureTables[name] = rows
	return rows, true
}

// goAtLeast: the go directive of the analysed module is at least major.minor
// (loop variables are per-iteration from go 1.22 on).
func (p *Prog) goAtLeast(major, minor int) bool {
	data, err := os.ReadFile(filepath.Join(p.Dir, "go.mod"))
	if err != nil {
		return false
	}
	for _, ln := range strings.Split(string(data), "\n") {
		f := strings.Fields(ln)
		if len(f) == 2 && f[0] == "go" {
			parts := strings.Split(f[1], ".")
			if len(parts) < 2 {
				return false
			}
			ma, e1 := strconv.Atoi(parts[0])
			mi, e2 := strconv.Atoi(parts[1])
			return e1 == nil && e2 == nil && (ma > major || (ma == major && mi >= minor))
		}
	}
	return false
}
