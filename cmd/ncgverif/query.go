package main

import (
	"fmt"
	"sort"
	"strings"
)

// LP is a predicate over edge labels, with a printable description.
type LP struct {
	Desc  string
	F     func(Label) bool
	Parts []LP // members of a disjunction
	// Keyed: built by one of the constructors below from a term key, so Desc
	// shows every term the predicate speaks about (perIteration uses this to
	// tell loop-invariant members from members about the loop's own element;
	// a hand-written predicate is never taken for invariant).
	Keyed bool
}

// flat returns the atomic members of a (possibly nested) disjunction.
func (p LP) flat() []LP {
	if len(p.Parts) == 0 {
		return []LP{p}
	}
	var out []LP
	for _, q := range p.Parts {
		out = append(out, q.flat()...)
	}
	return out
}

// A: the atom with the given key established with the given polarity.
// Written "+Key" / "-Key".
func A(s string) LP {
	pol := true
	switch s[0] {
	case '+':
		s = s[1:]
	case '-':
		pol = false
		s = s[1:]
	}
	key := s
	return LP{Keyed: true, Desc: map[bool]string{true: "+", false: "-"}[pol] + key, F: func(l Label) bool {
		return l.Kind == "atom" && l.Key == key && l.Pol == pol
	}}
}

// globMatch matches s against a pattern in which '*' stands for any substring
// that is balanced in (), [] and {} and contains no top-level ", ".
func globMatch(pat, s string) bool {
	if pat == "" {
		return s == ""
	}
	if pat[0] != '*' {
		if s == "" || s[0] != pat[0] {
			return false
		}
		return globMatch(pat[1:], s[1:])
	}
	// '**': any balanced substring, commas allowed
	multi := len(pat) > 1 && pat[1] == '*'
	rest := pat[1:]
	if multi {
		rest = pat[2:]
	}
	depth := 0
	for i := 0; ; i++ {
		if depth == 0 && globMatch(rest, s[i:]) {
			return true
		}
		if i >= len(s) {
			return false
		}
		switch s[i] {
		case '(', '[', '{':
			depth++
		case ')', ']', '}':
			depth--
			if depth < 0 {
				return false
			}
		case ',':
			if !multi && depth == 0 && i+1 < len(s) && s[i+1] == ' ' {
				return false
			}
		}
	}
}

// AG: atom whose key matches a glob pattern ("+pattern" / "-pattern").
func AG(s string) LP {
	pol := true
	switch s[0] {
	case '+':
		s = s[1:]
	case '-':
		pol = false
		s = s[1:]
	}
	pat := s
	return LP{Keyed: true, Desc: map[bool]string{true: "+", false: "-"}[pol] + pat, F: func(l Label) bool {
		return l.Kind == "atom" && l.Pol == pol && globMatch(pat, l.Key)
	}}
}

// CallG: a call event whose resolved key matches a glob pattern.
func CallG(pat string) LP {
	return LP{Keyed: true, Desc: "call " + pat, F: func(l Label) bool { return l.Kind == "call" && globMatch(pat, l.Key) }}
}

func AnyOf(lps ...LP) LP {
	var ds []string
	for _, p := range lps {
		ds = append(ds, p.Desc)
	}
	return LP{Desc: "(" + strings.Join(ds, " | ") + ")", Parts: lps, F: func(l Label) bool {
		for _, p := range lps {
			if p.F(l) {
				return true
			}
		}
		return false
	}}
}

func RangeDone(x string) LP {
	return LP{Desc: "rangedone(" + x + ")", F: func(l Label) bool { return l.Kind == "rangedone" && l.Key == x }}
}

func RangeNext(x string) LP {
	return LP{Desc: "rangenext(" + x + ")", F: func(l Label) bool { return l.Kind == "rangenext" && l.Key == x }}
}

// CallTo: a call event whose callee name is name (any arguments).
func CallTo(name string) LP {
	return LP{Desc: "call " + name, F: func(l Label) bool { return l.Kind == "call" && l.T != nil && l.T.Op == "call" && l.T.Name == name }}
}

// CallKey: a call event with exactly this resolved term key.
func CallKey(key string) LP {
	return LP{Keyed: true, Desc: "call " + key, F: func(l Label) bool { return l.Kind == "call" && l.Key == key }}
}

func Note(s string) LP {
	return LP{Desc: "note " + s, F: func(l Label) bool { return l.Kind == "note" && l.Key == s }}
}

func StoreTo(target string) LP {
	return LP{Keyed: true, Desc: "store " + target, F: func(l Label) bool { return (l.Kind == "store" || l.Kind == "lstore") && l.Key == target }}
}

func blockedBy(lp LP) func(*PEdge) bool {
	return func(e *PEdge) bool { return e.has(lp.F) }
}

func (c *Check) search(pg *PG, from []*PState, target func(*PState) bool, blocked func(*PEdge) bool) ([]*PEdge, bool) {
	c.Searches++
	if pg.Infeasible != nil {
		inf := pg.Infeasible
		b0 := blocked
		blocked = func(e *PEdge) bool {
			if e.has(inf.F) {
				return true
			}
			return b0 != nil && b0(e)
		}
	}
	return pg.Search(from, target, blocked)
}

func inSet(ss []*PState) func(*PState) bool {
	m := make(map[*PState]bool, len(ss))
	for _, s := range ss {
		m[s] = true
	}
	return func(s *PState) bool { return m[s] }
}

// cut reports whether every path from the entry to a target passes an edge
// satisfying lp; if not, it returns a witness path.
func (c *Check) cut(pg *PG, targets []*PState, lp LP) (bool, []*PEdge) {
	path, found := c.search(pg, []*PState{pg.Entry}, inSet(targets), blockedBy(lp))
	return !found, path
}

// mustPass records the obligation "every path to targets passes lp".
func (c *Check) mustPass(pg *PG, rule, construct, desc string, targets []*PState, lp LP) bool {
	if len(targets) == 0 {
		c.add(rule, construct, desc+" — no target state found (vacuous)", false, "")
		return false
	}
	ok, path := c.cut(pg, targets, lp)
	where := pg.G.P.pos(targets[0].Node.Pos)
	if ok {
		c.add(rule, construct, desc+": every path passes "+lp.Desc, true, where)
		return true
	}
	det := []string{"a path reaches the target without passing " + lp.Desc + ":"}
	det = append(det, pg.describePath(path, 40)...)
	if len(path) > 0 {
		where = pg.G.P.pos(path[len(path)-1].To.Node.Pos)
	}
	c.add(rule, construct, desc+": NOT every path passes "+lp.Desc, false, where, det...)
	return false
}

// edgeTargets returns the destination states of all edges satisfying lp.
func edgeTargets(pg *PG, lp LP) []*PState {
	m := map[*PState]bool{}
	var out []*PState
	for _, s := range pg.States {
		for _, e := range s.Out {
			if e.has(lp.F) && !m[e.To] {
				m[e.To] = true
				out = append(out, e.To)
			}
		}
	}
	return out
}

func edgeSources(pg *PG, lp LP) []*PState {
	m := map[*PState]bool{}
	var out []*PState
	for _, s := range pg.States {
		for _, e := range s.Out {
			if e.has(lp.F) && !m[s] {
				m[s] = true
				out = append(out, s)
			}
		}
	}
	return out
}

// noPathFrom records "no path from an edge satisfying 'from' reaches targets
// (optionally without passing 'unless')".
func (c *Check) noPathFrom(pg *PG, rule, construct, desc string, from LP, targets []*PState, unless *LP) bool {
	src := edgeTargets(pg, from)
	var blocked func(*PEdge) bool
	if unless != nil {
		blocked = blockedBy(*unless)
	}
	path, found := c.search(pg, src, inSet(targets), blocked)
	if !found {
		c.add(rule, construct, desc, true, "")
		return true
	}
	det := append([]string{"offending path (after " + from.Desc + "):"}, pg.describePath(path, 30)...)
	where := ""
	if len(path) > 0 {
		where = pg.G.P.pos(path[len(path)-1].To.Node.Pos)
	} else if len(targets) > 0 {
		where = pg.G.P.pos(targets[0].Node.Pos)
	}
	c.add(rule, construct, desc+": VIOLATED", false, where, det...)
	return false
}

// noPathFromInIter: as noPathFrom, for a condition about the loop element that may just as well
// have been established earlier in the same iteration (a test hoisted into a local before the call):
// only those from-edges count whose source is reachable from the start of an iteration of the loop
// over x without passing `earlier`.
func (c *Check) noPathFromInIter(pg *PG, rule, construct, desc string, x string, from LP, targets []*PState, unless LP, earlier LP) bool {
	body := edgeTargets(pg, RangeNext(x))
	reach := map[*PState]bool{}
	queue := append([]*PState{}, body...)
	for _, s := range body {
		reach[s] = true
	}
	for len(queue) > 0 {
		s := queue[0]
		queue = queue[1:]
		for _, e := range s.Out {
			if reach[e.To] || e.has(earlier.F) || e.has(RangeNext(x).F) || e.has(RangeDone(x).F) {
				continue
			}
			if pg.Infeasible != nil && e.has(pg.Infeasible.F) {
				continue
			}
			reach[e.To] = true
			queue = append(queue, e.To)
		}
	}
	c.Searches++
	var src []*PState
	for _, s := range pg.States {
		if !reach[s] {
			continue
		}
		for _, e := range s.Out {
			if e.has(from.F) {
				src = append(src, e.To)
			}
		}
	}
	path, found := c.search(pg, src, inSet(targets), blockedBy(unless))
	if !found {
		c.add(rule, construct, desc, true, "")
		return true
	}
	det := append([]string{"offending path (after " + from.Desc + ", " + earlier.Desc + " not established earlier in the iteration):"}, pg.describePath(path, 30)...)
	where := ""
	if len(path) > 0 {
		where = pg.G.P.pos(path[len(path)-1].To.Node.Pos)
	}
	c.add(rule, construct, desc+": VIOLATED", false, where, det...)
	return false
}

// perIteration records "every complete iteration of the range loop over x
// passes lp". Members of lp that speak about the loop's own element or key
// must be passed inside the iteration; members that do not (loop-invariant
// facts) also count when they were established before: the search only starts
// from loop-body states that are reachable without passing an invariant member.
func (c *Check) perIteration(pg *PG, rule, construct, desc string, x string, lp LP) bool {
	body := edgeTargets(pg, RangeNext(x))
	if len(body) == 0 {
		c.add(rule, construct, desc+" — no range loop over "+x+" found", false, "")
		return false
	}
	var inv []LP
	for _, m := range lp.flat() {
		if m.Keyed && !strings.Contains(m.Desc, "re("+x+")") && !strings.Contains(m.Desc, "rk("+x+")") {
			inv = append(inv, m)
		}
	}
	if len(inv) > 0 {
		// states reachable from the entry without establishing an invariant member
		invLP := AnyOf(inv...)
		reach := map[*PState]bool{pg.Entry: true}
		queue := []*PState{pg.Entry}
		for len(queue) > 0 {
			s := queue[0]
			queue = queue[1:]
			for _, e := range s.Out {
				if reach[e.To] || e.has(invLP.F) {
					continue
				}
				reach[e.To] = true
				queue = append(queue, e.To)
			}
		}
		c.Searches++
		var b2 []*PState
		for _, s := range body {
			if reach[s] {
				b2 = append(b2, s)
			}
		}
		body = b2
	}
	// loops over x, by identity
	loops := map[int]map[*Node]bool{}
	for _, s := range pg.States {
		for _, e := range s.Out {
			for _, l := range e.Labels {
				if l.Kind == "rangenext" && l.Key == x {
					if loops[l.Node.LoopID] == nil {
						loops[l.Node.LoopID] = map[*Node]bool{}
					}
					loops[l.Node.LoopID][l.Node] = true
					if l.Node.Twin != nil {
						loops[l.Node.LoopID][l.Node.Twin] = true
					}
				}
			}
		}
	}
	var ids []int
	for id := range loops {
		ids = append(ids, id)
	}
	sort.Ints(ids)
	c.lastLoops = nil
	var firstFail []*PEdge
	where := ""
	for _, id := range ids {
		heads := loops[id]
		for n := range heads {
			where = pg.G.P.pos(n.Pos)
		}
		var from []*PState
		for _, s := range body {
			for _, e := range s.In {
				for _, l := range e.Labels {
					if l.Kind == "rangenext" && l.Key == x && l.Node.LoopID == id {
						from = append(from, s)
					}
				}
			}
		}
		path, found := c.search(pg, from, func(s *PState) bool { return heads[s.Node] }, blockedBy(lp))
		if !found {
			c.lastLoops = append(c.lastLoops, id)
		} else if firstFail == nil {
			firstFail = path
		}
	}
	if len(c.lastLoops) > 0 {
		c.add(rule, construct, desc+": every iteration over "+x+" passes "+lp.Desc, true, where)
		return true
	}
	det := append([]string{"an iteration completes without passing " + lp.Desc + ":"}, pg.describePath(firstFail, 40)...)
	if len(firstFail) > 0 {
		where = pg.G.P.pos(firstFail[0].From.Node.Pos)
	}
	c.add(rule, construct, desc+": an iteration over "+x+" can complete without "+lp.Desc, false, where, det...)
	return false
}

// LoopTouched: a head edge (next or done) of one of the given loops.
func LoopTouched(ids []int) LP {
	m := map[int]bool{}
	for _, i := range ids {
		m[i] = true
	}
	return LP{Desc: fmt.Sprintf("loop%v", ids), F: func(l Label) bool {
		return (l.Kind == "rangenext" || l.Kind == "rangedone") && l.Node != nil && m[l.Node.LoopID]
	}}
}

// onlyAfterExhaustion records "targets are not reachable from inside the loop
// over x except through its exhaustion edge".
func (c *Check) onlyAfterExhaustion(pg *PG, rule, construct, desc string, x string, targets []*PState) bool {
	next, done := RangeNext(x), RangeDone(x)
	if len(c.loopFilter) > 0 {
		ids := map[int]bool{}
		for _, i := range c.loopFilter {
			ids[i] = true
		}
		next = LP{Desc: next.Desc, F: func(l Label) bool { return l.Kind == "rangenext" && l.Key == x && ids[l.Node.LoopID] }}
		done = LP{Desc: done.Desc, F: func(l Label) bool { return l.Kind == "rangedone" && l.Key == x && ids[l.Node.LoopID] }}
	}
	body := edgeTargets(pg, next)
	if len(body) == 0 {
		c.add(rule, construct, desc+" — no range loop over "+x+" found", false, "")
		return false
	}
	path, found := c.search(pg, body, inSet(targets), blockedBy(done))
	if !found {
		c.add(rule, construct, desc+": reachable from the loop over "+x+" only through its exhaustion", true, pg.G.P.pos(body[0].Node.Pos))
		return true
	}
	det := append([]string{"the target is reached from inside the loop without exhausting it:"}, pg.describePath(path, 40)...)
	where := ""
	if len(path) > 0 {
		where = pg.G.P.pos(path[len(path)-1].To.Node.Pos)
	}
	c.add(rule, construct, desc+": reached from inside the loop over "+x+" without exhausting it", false, where, det...)
	return false
}

// within records "inside one iteration of the loop over x, an edge satisfying
// 'then' is only reachable after 'first'".
func (c *Check) within(pg *PG, rule, construct, desc string, x string, first, then LP) bool {
	body := edgeTargets(pg, RangeNext(x))
	if len(body) == 0 {
		c.add(rule, construct, desc+" — no range loop over "+x+" found", false, "")
		return false
	}
	// source states of 'then' edges (an edge that also carries 'first' is fine)
	var srcs []*PState
	for _, s := range pg.States {
		for _, e := range s.Out {
			if e.has(then.F) && !e.has(first.F) {
				srcs = append(srcs, s)
				break
			}
		}
	}
	// reach a source state of a 'then' edge without passing 'first' nor re-entering the head
	back := AnyOf(first, RangeNext(x), RangeDone(x))
	path, found := c.search(pg, body, inSet(srcs), blockedBy(back))
	if !found {
		c.add(rule, construct, desc+": within an iteration over "+x+", "+then.Desc+" only after "+first.Desc, true, pg.G.P.pos(body[0].Node.Pos))
		return true
	}
	det := append([]string{then.Desc + " is tested without " + first.Desc + " in the same iteration:"}, pg.describePath(path, 30)...)
	c.add(rule, construct, desc+": "+then.Desc+" reachable without "+first.Desc, false, pg.G.P.pos(path[len(path)-1].To.Node.Pos), det...)
	return false
}

// ---------------------------------------------------------------------------
// return classification

func retNilErr(s *PState, idx int) bool {
	if idx < 0 {
		idx = len(s.Ret) + idx
	}
	if idx < 0 || idx >= len(s.Ret) {
		return false
	}
	v := s.Ret[idx]
	return v.N == 1 || (v.T != nil && v.T.isConst() && v.T.Name == "nil")
}

// returnsWhere selects return states by a predicate.
func returnsWhere(pg *PG, f func(*PState) bool) []*PState {
	var out []*PState
	for _, s := range pg.Returns() {
		if f(s) {
			out = append(out, s)
		}
	}
	return out
}

// errorOrigins groups the non-nil error returns of a function by the origin
// term of the error value.
type origin struct {
	Key    string
	Term   *Term
	States []*PState
}

func errorOrigins(pg *PG, idx int) []*origin {
	m := map[string]*origin{}
	for _, s := range pg.Returns() {
		i := idx
		if i < 0 {
			i = len(s.Ret) + i
		}
		if i < 0 || i >= len(s.Ret) || retNilErr(s, i) {
			continue
		}
		k := s.Ret[i].T.Key() + fmt.Sprintf("@n%06d", s.Node.ID) + "@" + decidingContext(s)
		o := m[k]
		if o == nil {
			o = &origin{Key: k, Term: s.Ret[i].T}
			m[k] = o
		}
		o.States = append(o.States, s)
	}
	var out []*origin
	for _, o := range m {
		out = append(out, o)
	}
	sort.Slice(out, func(i, j int) bool { return out[i].Key < out[j].Key })
	return out
}

// domAtoms computes the labels (atoms and range-done edges) that every path to
// the targets passes.
func (c *Check) domAtoms(pg *PG, targets []*PState) []string {
	path, found := c.search(pg, []*PState{pg.Entry}, inSet(targets), nil)
	if !found {
		return nil
	}
	cand := map[string]LP{}
	for _, e := range path {
		for _, l := range e.Labels {
			switch l.Kind {
			case "atom":
				s := l.String()
				cand[s] = A(s)
			case "rangedone":
				cand["rangedone("+l.Key+")"] = RangeDone(l.Key)
			case "rangenext":
				cand["rangenext("+l.Key+")"] = RangeNext(l.Key)
			}
		}
	}
	var out []string
	for k, lp := range cand {
		if ok, _ := c.cut(pg, targets, lp); ok {
			out = append(out, k)
		}
	}
	sort.Strings(out)
	return out
}

// Viol is an allowed justification of a rejection: every listed label
// predicate must cut the origin, and no 'Not' predicate may lead to it.
type Viol struct {
	Name  string
	All   []LP
	Not   []LP
	Scope string // if set, the Not-search does not cross a new iteration of the range loop over Scope
}

// justify checks the completeness side: each error origin must be justified
// by one of the allowed violations.
func (c *Check) justify(pg *PG, rule string, origins []*origin, viols []Viol, short func(*origin) string) (justified int) {
	for _, o := range origins {
		matched := ""
		for _, v := range viols {
			ok := true
			for _, lp := range v.All {
				if cutok, _ := c.cut(pg, o.States, lp); !cutok {
					ok = false
					break
				}
			}
			if ok {
				for _, lp := range v.Not {
					src := edgeTargets(pg, lp)
					var blk func(*PEdge) bool
					if v.Scope != "" {
						blk = blockedBy(RangeNext(v.Scope))
					}
					if _, found := c.search(pg, src, inSet(o.States), blk); found {
						ok = false
						break
					}
				}
			}
			if ok {
				matched = v.Name
				break
			}
		}
		name := short(o)
		where := pg.G.P.pos(o.States[0].Node.Pos)
		if o.Term.Pos.IsValid() {
			where = pg.G.P.pos(o.Term.Pos)
		}
		if matched != "" {
			justified++
			c.add(rule, name, fmt.Sprintf("rejection %s is justified by stated violation %q", name, matched), true, where)
			continue
		}
		dom := c.domAtoms(pg, o.States)
		det := []string{"conditions that guard this rejection on every path:"}
		for _, d := range dom {
			det = append(det, "  "+d)
		}
		c.add(rule, name, fmt.Sprintf("rejection %s is not justified by any stated violation (extra requirement, moved boundary or different operand)", name), false, where, det...)
	}
	return
}

// decidingContext: the inline-instance path of the last test passed before the
// return state (walking back over forwarding nodes). Two activations of one
// helper (say the key-usage check called for the leaf and for a CA) produce the
// same error term and, after a tail call, leave through the same return node;
// they are still different rejection origins.
func decidingContext(s *PState) string {
	seen := map[*PState]bool{s: true}
	frontier := []*PState{s}
	ctx := map[string]bool{}
	for depth := 0; depth < 64 && len(frontier) > 0; depth++ {
		var next []*PState
		for _, t := range frontier {
			for _, e := range t.In {
				found := false
				for _, l := range e.Labels {
					if l.Kind == "atom" && !l.Implied && l.Node != nil && l.Node.Inst != nil {
						ctx[l.Node.Inst.Path()] = true
						found = true
					}
				}
				if !found && !seen[e.From] {
					seen[e.From] = true
					next = append(next, e.From)
				}
			}
		}
		frontier = next
	}
	return strings.Join(sortedKeys(ctx), "|")
}
