package main

// C09: the repository's own panic-capable and blocking constructs.

import (
	"fmt"
	"go/ast"
	"go/token"
	"go/types"
	"os"
	"os/exec"
	"reflect"
	"sort"
	"strconv"
	"strings"

	"golang.org/x/tools/go/types/typeutil"
)

// optionalFields: pointer-typed fields that a *successful* external parse can
// leave nil (derived by reading the parsers).
var optionalFields = map[string]string{
	"crypto/x509.RevocationList.Number":             "set only when the cRLNumber extension is present",
	"golang.org/x/crypto/ocsp.Response.Certificate": "nil unless the responder embedded a certificate",
}

// astSite is one syntactic panic-capable construct of product code.
type astSite struct {
	kind string
	pos  token.Pos
	expr ast.Expr
	fn   *FuncSrc
	lit  *ast.FuncLit // innermost enclosing literal
	// verdict
	done   bool
	seen   bool
	how    string
	detail []string
}

type siteScan struct {
	c     *Check
	sites map[token.Pos]*astSite
	order []*astSite
	// deref obligations (O-C09.1 / O-C09.6) keyed by position+why
	derefs map[string]*derefOb
	// in-module callees whose pointer result is dereferenced after the error test: name -> (result index, error index)
	contracts map[string][2]int
	// literal analysed as a root right now
	curLit   *ast.FuncLit
	curLitFn *FuncSrc
	nloops   int
	npanics  int
}

type derefOb struct {
	rule, name, where, fn string
	ok                    bool
	detail                []string
	contexts              int
}

// decodedStructFields adds to optionalFields the pointer-typed fields of module
// structs that are filled by a JSON/CBOR decoder: absent members leave them nil.
func decodedStructFields(c *Check) map[string]string {
	out := map[string]string{}
	decoders := map[string]int{
		"encoding/json.Unmarshal": 1, "(*encoding/json.Decoder).Decode": 0,
		"github.com/fxamacker/cbor/v2.Unmarshal": 1, "(github.com/fxamacker/cbor/v2.DecMode).Unmarshal": 1,
		"(*github.com/fxamacker/cbor/v2.Decoder).Decode": 0,
	}
	var addStruct func(t types.Type, why string, depth int)
	addStruct = func(t types.Type, why string, depth int) {
		if depth > 3 {
			return
		}
		n, ok := t.(*types.Named)
		if !ok || n.Obj().Pkg() == nil || !strings.HasPrefix(n.Obj().Pkg().Path(), c.P.ModPath) {
			return
		}
		st, ok := n.Underlying().(*types.Struct)
		if !ok {
			return
		}
		for i := 0; i < st.NumFields(); i++ {
			f := st.Field(i)
			switch ft := f.Type().Underlying().(type) {
			case *types.Pointer:
				out[c.P.typeStr(n)+"."+f.Name()] = "nil when the member is absent from the decoded " + why
			case *types.Struct:
				addStruct(f.Type(), why, depth+1)
				_ = ft
			}
		}
	}
	for _, fs := range c.P.productFuncs() {
		info := fs.Pkg.TypesInfo
		ast.Inspect(fs.Decl.Body, func(nd ast.Node) bool {
			call, ok := nd.(*ast.CallExpr)
			if !ok {
				return true
			}
			fn, ok := typeutil.Callee(info, call).(*types.Func)
			if !ok {
				return true
			}
			idx, ok := decoders[fn.FullName()]
			if !ok || idx >= len(call.Args) {
				return true
			}
			if pt, ok := info.TypeOf(call.Args[idx]).Underlying().(*types.Pointer); ok {
				addStruct(pt.Elem(), "document ("+fn.Name()+" in "+fs.Obj.Name()+")", 0)
			}
			return true
		})
	}
	return out
}

func censusSites(c *Check) *siteScan {
	sc := &siteScan{c: c, sites: map[token.Pos]*astSite{}, derefs: map[string]*derefOb{}}
	for _, fs := range c.P.productFuncs() {
		info := fs.Pkg.TypesInfo
		var lits []*ast.FuncLit
		twoValued := map[ast.Expr]bool{}
		ast.Inspect(fs.Decl.Body, func(n ast.Node) bool {
			switch x := n.(type) {
			case *ast.AssignStmt:
				if len(x.Lhs) == 2 && len(x.Rhs) == 1 {
					twoValued[ast.Unparen(x.Rhs[0])] = true
				}
			case *ast.ValueSpec:
				if len(x.Names) == 2 && len(x.Values) == 1 {
					twoValued[ast.Unparen(x.Values[0])] = true
				}
			}
			return true
		})
		var visit func(n ast.Node) bool
		visit = func(n ast.Node) bool {
			switch x := n.(type) {
			case *ast.FuncLit:
				lits = append(lits, x)
				ast.Inspect(x.Body, visit)
				lits = lits[:len(lits)-1]
				return false
			case *ast.IndexExpr:
				tv, ok := info.Types[x.X]
				if !ok || tv.IsType() {
					return true
				}
				switch tv.Type.Underlying().(type) {
				case *types.Map, *types.Signature:
					return true
				}
				sc.addSite("index", x.Lbrack, x, fs, lits)
			case *ast.SliceExpr:
				sc.addSite("slice", x.Lbrack, x, fs, lits)
			case *ast.TypeAssertExpr:
				if x.Type != nil && !twoValued[x] {
					sc.addSite("assert1", x.Lparen, x, fs, lits)
				}
			}
			return true
		}
		ast.Inspect(fs.Decl.Body, visit)
	}
	return sc
}

func (sc *siteScan) addSite(kind string, pos token.Pos, e ast.Expr, fs *FuncSrc, lits []*ast.FuncLit) {
	s := &astSite{kind: kind, pos: pos, expr: e, fn: fs}
	if len(lits) > 0 {
		s.lit = lits[len(lits)-1]
	}
	sc.sites[pos] = s
	sc.order = append(sc.order, s)
}

func statesAt(pg *PG, n *Node) []*PState {
	var out []*PState
	for _, s := range pg.States {
		if s.Node == n {
			out = append(out, s)
		}
	}
	return out
}

type siteRes struct {
	ok  bool
	how string
	det []string
	n   int
}

// process examines the located sites of pg accepted by want; the verdicts of
// several graph sites of one syntactic site (inline instances) are ANDed.
func (sc *siteScan) process(pg *PG, derefs bool, want func(as *astSite, st *Site) bool) map[*astSite]*siteRes {
	out := map[*astSite]*siteRes{}
	g := pg.G
	g.locateSites()
	ex := &explorer{pg: pg, g: g}
	byNode := map[*Node][]*PState{}
	for _, s := range pg.States {
		byNode[s.Node] = append(byNode[s.Node], s)
	}
	for _, st := range g.Sites {
		if st.Node == nil {
			continue
		}
		states := byNode[st.Node]
		if len(states) == 0 {
			continue // unreachable in the product graph
		}
		pos := st.Pos
		if pos == token.NoPos && st.T != nil {
			pos = st.T.Pos
		}
		if st.Kind == "deref" {
			if derefs {
				sc.deref(pg, ex, st, pos, states)
			}
			continue
		}
		as := sc.sites[pos]
		if as == nil || as.done || (want != nil && !want(as, st)) {
			continue
		}
		var ok bool
		var how string
		var det []string
		if st.Kind == "assert1" {
			ok, how, det = sc.assertion(pg, ex, st, states)
		} else {
			ok, how, det = sc.bounds(pg, ex, st, states)
		}
		r := out[as]
		if r == nil {
			r = &siteRes{ok: true}
			out[as] = r
		}
		r.n++
		if ok {
			if r.how == "" {
				r.how = how
			}
		} else {
			r.ok = false
			r.det = append(r.det, det...)
		}
	}
	return out
}

func rootInst(i *Instance) bool {
	for i.Lexical != nil {
		i = i.Lexical
	}
	return i.Parent == nil
}

// deref: O-C09.1 (value paired with an error) and O-C09.6 (optional field).
func (sc *siteScan) deref(pg *PG, ex *explorer, st *Site, pos token.Pos, states []*PState) {
	c := sc.c
	for _, s := range states {
		v := ex.val(st.Base, s.St)
		R := v.T
		if R == nil {
			continue
		}
		for R.Op == "addr" && len(R.Args) == 1 && R.Args[0].Op == "deref" {
			R = R.Args[0].Args[0]
		}
		var lp LP
		var rule, name string
		switch {
		case R.Op == "res" && R.Args[0].Op == "call" && nilWithoutError[R.Args[0].Name] == R.Name:
			// a library call that reports failure by a nil pointer alone (no error value)
			lp = A("-IsNil(" + R.Key() + ")")
			rule = "O-C09.1"
			name = "result of " + shortCallee(R.Args[0].Name) + " tested for nil before use (" + st.Why + ")"
		case R.Op == "res" && R.Args[0].Op == "call":
			C := R.Args[0]
			sig, ok := callErrIdx[C.Name]
			if !ok || sig[0] < 0 || R.Name == strconv.Itoa(sig[0]) {
				continue
			}
			if okNil, _ := c.cut(pg, []*PState{s}, A("-IsNil("+R.Key()+")")); c.P.fn(C.Name) != nil && !okNil {
				// an in-module callee whose result is used on the strength of the error test alone:
				// "no error means a usable pointer" is its contract, decided below
				if sc.contracts == nil {
					sc.contracts = map[string][2]int{}
				}
				if ri, err := strconv.Atoi(R.Name); err == nil {
					sc.contracts[C.Name] = [2]int{ri, sig[0]}
				}
			}
			errKey := C.Key() + "#" + strconv.Itoa(sig[0])
			lp = AnyOf(A("+IsNil("+errKey+")"), A("-IsNil("+R.Key()+")"))
			rule = "O-C09.1"
			name = "result of " + shortCallee(C.Name) + " used only after its error was tested (" + st.Why + ")"
		case R.Op == "field" && optionalFields[R.Owner+"."+R.Name] != "":
			lp = A("-IsNil(" + R.Key() + ")")
			rule = "O-C09.6"
			name = "optional field " + R.Owner + "." + R.Name + " tested for nil before use (" + st.Why + ")"
		default:
			continue
		}
		where := c.P.pos(pos)
		key := rule + "|" + where + "|" + st.Why
		ob := sc.derefs[key]
		if ob == nil {
			top := st.Inst
			for top.Lexical != nil {
				top = top.Lexical
			}
			ob = &derefOb{rule: rule, name: name, where: where, ok: true, fn: top.Name}
			sc.derefs[key] = ob
		}
		ob.contexts++
		if v.N == -1 {
			continue
		}
		if okc, path := c.cut(pg, []*PState{s}, lp); !okc {
			ob.ok = false
			if len(ob.detail) == 0 {
				ob.detail = append([]string{"value: " + R.Key(), "a path reaches the dereference without " + lp.Desc + ":"}, pg.describePath(path, 12)...)
			}
		}
	}
}

// nilWithoutError: library functions whose pointer result (index given) is nil
// on failure and that return no error to test instead.
var nilWithoutError = map[string]string{
	"encoding/pem.Decode": "0",
}

func shortCallee(n string) string {
	if i := strings.LastIndex(n, "/"); i >= 0 {
		return n[i+1:]
	}
	return n
}

// lenEq: does base have the same length as other?
func lenEq(base, other *Term) bool {
	if base == nil || other == nil {
		return false
	}
	if base.Key() == other.Key() {
		return true
	}
	if base.Op == "call" && base.Name == "make" && len(base.Args) >= 2 {
		l := base.Args[1]
		if isLen(l) && l.Args[0].Key() == other.Key() {
			return true
		}
	}
	return false
}

// nonEmptyLP: a path condition under which t has at least k+1 elements; ok
// reports that it holds unconditionally.
func nonEmptyLP(t *Term, k int64) (lp LP, always bool, can bool) {
	if t.Op == "list" {
		return LP{}, int64(len(t.Args)) > k, int64(len(t.Args)) > k
	}
	if t.Op == "call" && t.Name == "append" && len(t.Args) >= 2 && k == 0 {
		spread := false
		for _, a := range t.Args[1:] {
			if a.Op == "spread" {
				spread = true
			}
		}
		if !spread {
			return LP{}, true, true // append(x, e) holds at least e
		}
	}
	if t.Op == "call" && t.Name == "make" && len(t.Args) >= 2 {
		if n, ok := intConst(t.Args[1]); ok {
			return LP{}, n > k, n > k
		}
		if isLen(t.Args[1]) {
			return nonEmptyLP(t.Args[1].Args[0], k)
		}
		return LP{}, false, false
	}
	key := t.Key()
	var alts []LP
	if k == 0 {
		alts = append(alts, A("-Empty("+key+")"))
	}
	for n := k + 1; n <= k+8; n++ {
		alts = append(alts, A("+Eq("+strconv.FormatInt(n, 10)+", len("+key+"))"))
	}
	for n := k + 1; n <= k+8; n++ {
		alts = append(alts, A("-Lt(len("+key+"), "+strconv.FormatInt(n, 10)+")"))
		alts = append(alts, A("+Lt("+strconv.FormatInt(n-1, 10)+", len("+key+"))"))
	}
	return AnyOf(alts...), false, true
}

func isBin(t *Term, op string) bool {
	return t != nil && t.Op == "bin" && t.Name == op && len(t.Args) == 2
}

// lastOf: t == len(X)-1; returns X.
func lastOf(t *Term) *Term {
	if isBin(t, "-") && isLen(t.Args[0]) {
		if k, ok := intConst(t.Args[1]); ok && k == 1 {
			return t.Args[0].Args[0]
		}
	}
	return nil
}

// allButLast: t == X[:len(X)-1]; returns X.
func allButLast(t *Term) *Term {
	if t != nil && t.Op == "slice" && len(t.Args) == 3 && t.Args[1] == nil {
		if x := lastOf(t.Args[2]); x != nil && x.Key() == t.Args[0].Key() {
			return t.Args[0]
		}
	}
	return nil
}

// bounds decides one index/slice site in one product graph.
func (sc *siteScan) bounds(pg *PG, ex *explorer, st *Site, states []*PState) (bool, string, []string) {
	c := sc.c
	how := ""
	for _, s := range states {
		B := ex.resolve(st.Base, s.St, 0)
		need := func(lp LP, always, can bool, what string) (bool, []string) {
			if !can {
				return false, []string{"no rule: " + what}
			}
			if always {
				return true, nil
			}
			if okc, path := c.cut(pg, []*PState{s}, lp); !okc {
				return false, append([]string{"a path reaches the access without " + what + ":"}, pg.describePath(path, 10)...)
			}
			return true, nil
		}
		if st.Kind == "slice" {
			// only x[:len(x)-1] and constant bounds are understood
			if st.Lo == nil && st.Hi != nil {
				H := ex.resolve(st.Hi, s.St, 0)
				if X := lastOf(H); X != nil && lenEq(B, X) {
					lp, al, can := nonEmptyLP(X, 0)
					if ok, det := need(lp, al, can, "len("+X.Key()+") > 0"); !ok {
						return false, "", det
					}
					how = "x[:len(x)-1] under len(x) > 0"
					continue
				}
			}
			return false, "", []string{"no rule for slice expression " + st.T.Key()}
		}
		I := ex.resolve(st.Idx, s.St, 0)
		if st.LoopBound != nil {
			Y := ex.resolve(st.LoopBound, s.St, 0)
			if lenEq(B, Y) {
				how = "counter of a for loop bounded by the length of the same slice"
				continue
			}
			a, b := sorted2("len("+B.Key()+")", "len("+Y.Key()+")")
			if ok, det := need(A("+Eq("+a+", "+b+")"), false, true, "len("+B.Key()+") == len("+Y.Key()+")"); !ok {
				return false, "", det
			}
			how = "counter of a for loop bounded by a slice of equal length"
			continue
		}
		switch {
		case I.isConst():
			k, ok := intConst(I)
			if !ok || k < 0 {
				return false, "", []string{"constant index " + I.Key()}
			}
			if strings.HasPrefix(st.Why, "[") && !strings.HasPrefix(st.Why, "[]") {
				how = "constant index into an array (checked by the compiler)"
				continue
			}
			lp, al, can := nonEmptyLP(B, k)
			if ok, det := need(lp, al, can, "len("+B.Key()+") > "+I.Key()); !ok {
				return false, "", det
			}
			how = "constant index under a length guard"
		case I.Op == "rk":
			X := I.Args[0]
			if lenEq(B, X) {
				how = "index is the key of a range over the same slice"
				continue
			}
			if Y := allButLast(X); Y != nil && lenEq(B, Y) {
				how = "index is the key of a range over x[:len(x)-1]"
				continue
			}
			return false, "", []string{"index is the key of a range over " + X.Key() + ", base is " + B.Key()}
		case isBin(I, "+") && I.Args[0].Op == "rk":
			k, ok := intConst(I.Args[1])
			X := I.Args[0].Args[0]
			if !ok || k != 1 {
				return false, "", []string{"index " + I.Key()}
			}
			if Y := allButLast(X); Y != nil && lenEq(B, Y) {
				how = "x[i+1] with i ranging over x[:len(x)-1]"
				continue
			}
			if lenEq(B, X) {
				// i != len(x)-1 on the way
				rk := I.Args[0].Key()
				last := "(len(" + X.Key() + ") - 1)"
				a, b := sorted2(rk, last)
				lp := AnyOf(A("-Eq("+a+", "+b+")"), A("+Lt("+rk+", "+last+")"))
				// the test must belong to the current iteration
				okc := true
				var path []*PEdge
				from := edgeTargets(pg, RangeNext(X.Key()))
				if len(from) == 0 {
					okc = false
				} else {
					path, okc = searchAvoid(c, pg, from, s, lp)
				}
				if !okc {
					return false, "", append([]string{"a path reaches x[i+1] within an iteration without testing i != len(x)-1:"}, pg.describePath(path, 10)...)
				}
				how = "x[i+1] under i != len(x)-1 in the same iteration"
				continue
			}
			return false, "", []string{"index " + I.Key() + " over base " + B.Key()}
		case lastOf(I) != nil:
			X := lastOf(I)
			if !lenEq(B, X) {
				return false, "", []string{"index len(" + X.Key() + ")-1 into " + B.Key()}
			}
			lp, al, can := nonEmptyLP(X, 0)
			if ok, det := need(lp, al, can, "len("+X.Key()+") > 0"); !ok {
				return false, "", det
			}
			how = "x[len(x)-1] under len(x) > 0"
		case (I.Op == "call" || I.Op == "res") && strings.HasPrefix(callOf(I).Name, "slices.Index") && len(callOf(I).Args) > 0 && callOf(I).Args[0].Key() == B.Key():
			lp := AnyOf(A("-Lt("+I.Key()+", 0)"), A("+Lt(-1, "+I.Key()+")"))
			if ok, det := need(lp, false, true, I.Key()+" >= 0"); !ok {
				return false, "", det
			}
			how = "index returned by slices.Index* on the same slice, tested non-negative"
		default:
			return false, "", []string{"no rule for index " + I.Key() + " into " + B.Key()}
		}
	}
	return true, how, nil
}

func callOf(t *Term) *Term {
	if t.Op == "res" {
		return t.Args[0]
	}
	return t
}

// searchAvoid: is there a path from any of from to target that avoids lp?
// returns (path, ok) with ok == true when no such path exists.
func searchAvoid(c *Check, pg *PG, from []*PState, target *PState, lp LP) ([]*PEdge, bool) {
	path, found := c.search(pg, from, func(s *PState) bool { return s == target }, blockedBy(lp))
	return path, !found
}

// assertion: a single-value type assertion is discharged when the asserted
// value is known to have that dynamic type on every path.
func (sc *siteScan) assertion(pg *PG, ex *explorer, st *Site, states []*PState) (bool, string, []string) {
	c := sc.c
	special := ""
	for _, s := range states {
		B := ex.resolve(st.Base, s.St, 0)
		if dt, ok := dynType(B); ok && dt == st.Why {
			continue
		}
		if ok, how, det, applies := sc.assertSpecial(pg, s, B, st); applies {
			if !ok {
				return false, "", det
			}
			special = how
			continue
		}
		lp := AnyOf(A("+TypeIs("+B.Key()+", "+st.Why+")"), A("+Truth(ok("+B.Key()+".("+st.Why+")))"))
		if okc, path := c.cut(pg, []*PState{s}, lp); !okc {
			return false, "", append([]string{"asserted value: " + B.Key(), "a path reaches the assertion without a successful comma-ok test of the same value:"}, pg.describePath(path, 8)...)
		}
	}
	if special != "" {
		return true, special, nil
	}
	return true, "dominated by a successful comma-ok assertion of the same value", nil
}

// assertSpecial: assertions whose operand's dynamic type follows from a
// repository-wide typing rule rather than from a test on the path.
func (sc *siteScan) assertSpecial(pg *PG, s *PState, B *Term, st *Site) (ok bool, how string, det []string, applies bool) {
	c := sc.c
	// value loaded from a package-level sync.Map
	if B.Op == "res" && B.Name == "0" && B.Args[0].Op == "call" && B.Args[0].Name == "(*sync.Map).Load" {
		C := B.Args[0]
		if r := C.Args[0]; r.Op == "addr" && r.Args[0].Op == "global" {
			_, vals, n := syncMapStores(c, r.Args[0].Name)
			if n == 0 || len(vals) != 1 || vals[0] != st.Why {
				return false, "", []string{"values stored into " + r.Args[0].Name + " have static types " + strings.Join(vals, ",") + ", asserted " + st.Why}, true
			}
			if okc, path := c.cut(pg, []*PState{s}, A("+Truth("+C.Key()+"#1)")); !okc {
				return false, "", append([]string{"the assertion is reached without the Load having reported ok:"}, pg.describePath(path, 8)...), true
			}
			return true, "every store into " + r.Args[0].Name + " has static value type " + st.Why + " and the Load reported ok", nil, true
		}
	}
	// key/value handed to a Range callback of a package-level sync.Map
	if B.Op == "param" && sc.curLit != nil {
		if call := litParent(sc.curLitFn, sc.curLit); call != nil {
			info := sc.curLitFn.Pkg.TypesInfo
			if fn, ok := typeutil.Callee(info, call).(*types.Func); ok && fn.FullName() == "(*sync.Map).Range" {
				if sel, ok := ast.Unparen(call.Fun).(*ast.SelectorExpr); ok {
					if id := rootIdent(sel.X); id != nil {
						if v, ok := info.Uses[id].(*types.Var); ok && isPkgLevel(v) {
							g := c.P.abbrev(v.Pkg().Path()) + "." + v.Name()
							keys, vals, n := syncMapStores(c, g)
							set := keys
							if B.Name == "p1" {
								set = vals
							}
							if n > 0 && len(set) == 1 && set[0] == st.Why {
								return true, "every store into " + g + " has that static type", nil, true
							}
							return false, "", []string{"stores into " + g + " have static types " + strings.Join(set, ",") + ", asserted " + st.Why}, true
						}
					}
				}
			}
		}
	}
	// frozen table: one entry
	if st.Why == "string" && globMatch("ncg/signature/jws.*(**)#0[\"io.cncf.notary.signingScheme\"]", B.Key()) && B.Args[0].Op == "res" && B.Args[0].Args[0].Op == "call" && producesHeaderMap(c, B.Args[0].Args[0].Name) {
		callKey := strings.TrimSuffix(B.Key(), "#0[\"io.cncf.notary.signingScheme\"]")
		kind, omit, n := jsonFieldKind(c, "/signature/jws", "io.cncf.notary.signingScheme")
		if n != 1 || kind != "string" || omit {
			return false, "", []string{fmt.Sprintf("header struct field for io.cncf.notary.signingScheme: found %d, kind %s, omitempty %v", n, kind, omit)}, true
		}
		if okc, path := c.cut(pg, []*PState{s}, A("+IsNil("+callKey+"#1)")); !okc {
			return false, "", append([]string{"the assertion is reached without the attribute map's error having been tested:"}, pg.describePath(path, 8)...), true
		}
		return true, "table entry: the map is the JSON image of the protected-header struct whose io.cncf.notary.signingScheme member is a non-omitempty string-kind field; extended attributes with that key are refused (O-C16.4)", nil, true
	}
	return false, "", nil, false
}

// jsonFieldKind finds the struct fields of a package tagged with the JSON name.
func jsonFieldKind(c *Check, pkgSuffix, name string) (kind string, omitempty bool, n int) {
	for _, pk := range c.P.Pkgs {
		if !strings.HasSuffix(pk.PkgPath, pkgSuffix) {
			continue
		}
		sc := pk.Types.Scope()
		for _, nm := range sc.Names() {
			tn, ok := sc.Lookup(nm).(*types.TypeName)
			if !ok {
				continue
			}
			st, ok := tn.Type().Underlying().(*types.Struct)
			if !ok {
				continue
			}
			for i := 0; i < st.NumFields(); i++ {
				tag := reflect.StructTag(st.Tag(i)).Get("json")
				parts := strings.Split(tag, ",")
				if parts[0] != name {
					continue
				}
				n++
				if b, ok := st.Field(i).Type().Underlying().(*types.Basic); ok && b.Info()&types.IsString != 0 {
					kind = "string"
				} else {
					kind = st.Field(i).Type().String()
				}
				for _, o := range parts[1:] {
					if o == "omitempty" {
						omitempty = true
					}
				}
			}
		}
	}
	return
}

// counterLoopBound: obj is the counter of a classic for loop
//
//	for i := C; i < len(Y); i++   (C a non-negative constant)   or
//	for i := len(Y)-1; i >= 0; i--
//
// whose body assigns neither i nor the root of Y; returns Y.
func (p *Prog) counterLoopBound(obj types.Object) ast.Expr {
	if obj == nil {
		return nil
	}
	if p.forPats == nil {
		p.forPats = map[types.Object]ast.Expr{}
		p.forPatsButLast = map[types.Object]ast.Expr{}
		for _, fs := range p.productFuncs() {
			info := fs.Pkg.TypesInfo
			ast.Inspect(fs.Decl.Body, func(n ast.Node) bool {
				fst, ok := n.(*ast.ForStmt)
				if !ok || fst.Init == nil || fst.Cond == nil || fst.Post == nil {
					return true
				}
				as, ok := fst.Init.(*ast.AssignStmt)
				if !ok || as.Tok != token.DEFINE || len(as.Lhs) != 1 || len(as.Rhs) != 1 {
					return true
				}
				id, ok := as.Lhs[0].(*ast.Ident)
				if !ok {
					return true
				}
				iv := info.Defs[id]
				cond, ok := ast.Unparen(fst.Cond).(*ast.BinaryExpr)
				if !ok {
					return true
				}
				cx, ok := ast.Unparen(cond.X).(*ast.Ident)
				if !ok || info.Uses[cx] != iv {
					return true
				}
				post, ok := fst.Post.(*ast.IncDecStmt)
				if !ok {
					return true
				}
				if pid, ok := ast.Unparen(post.X).(*ast.Ident); !ok || info.Uses[pid] != iv {
					return true
				}
				lenArg := func(e ast.Expr) ast.Expr {
					call, ok := ast.Unparen(e).(*ast.CallExpr)
					if !ok || len(call.Args) != 1 {
						return nil
					}
					fid, ok := call.Fun.(*ast.Ident)
					if !ok {
						return nil
					}
					if bi, ok := info.Uses[fid].(*types.Builtin); !ok || bi.Name() != "len" {
						return nil
					}
					if !pureChain(call.Args[0]) {
						return nil
					}
					return call.Args[0]
				}
				// bound(e) = (Y, off): e equals len(Y)+off, looking through locals that are
				// defined once and never reassigned
				var bound func(e ast.Expr, depth int) (ast.Expr, int, bool)
				bound = func(e ast.Expr, depth int) (ast.Expr, int, bool) {
					if depth > 3 {
						return nil, 0, false
					}
					e = ast.Unparen(e)
					if y := lenArg(e); y != nil {
						return y, 0, true
					}
					if be, ok := e.(*ast.BinaryExpr); ok && (be.Op == token.SUB || be.Op == token.ADD) {
						if tv := info.Types[be.Y]; tv.Value != nil {
							if k, isInt := intConst(constTerm(tv.Value)); isInt {
								if y, off, ok := bound(be.X, depth+1); ok {
									if be.Op == token.SUB {
										return y, off - int(k), true
									}
									return y, off + int(k), true
								}
							}
						}
						return nil, 0, false
					}
					if id, ok := e.(*ast.Ident); ok {
						v, isVar := info.Uses[id].(*types.Var)
						if !isVar || isPkgLevel(v) {
							return nil, 0, false
						}
						var def ast.Expr
						ndef, bad := 0, false
						ast.Inspect(fs.Decl.Body, func(m ast.Node) bool {
							switch x := m.(type) {
							case *ast.AssignStmt:
								for i, l := range x.Lhs {
									lid, ok := l.(*ast.Ident)
									if !ok || (info.Defs[lid] != v && info.Uses[lid] != v) {
										continue
									}
									ndef++
									if len(x.Rhs) == len(x.Lhs) {
										def = x.Rhs[i]
									} else {
										bad = true
									}
								}
							case *ast.IncDecStmt:
								if lid, ok := x.X.(*ast.Ident); ok && info.Uses[lid] == v {
									bad = true
								}
							case *ast.UnaryExpr:
								if lid, ok := x.X.(*ast.Ident); ok && x.Op == token.AND && info.Uses[lid] == v {
									bad = true
								}
							}
							return true
						})
						if ndef != 1 || bad || def == nil {
							return nil, 0, false
						}
						y, off, ok := bound(def, depth+1)
						if !ok {
							return nil, 0, false
						}
						// the length was taken earlier: the collection must not be reassigned at all
						if r := rootIdent(y); r != nil {
							ro := info.Uses[r]
							reassigned := false
							ast.Inspect(fs.Decl.Body, func(m ast.Node) bool {
								if x, ok := m.(*ast.AssignStmt); ok {
									for _, l := range x.Lhs {
										if lid := rootIdent(l); lid != nil && info.Uses[lid] == ro && ro != nil {
											reassigned = true
										}
									}
								}
								return !reassigned
							})
							if reassigned {
								return nil, 0, false
							}
						}
						return y, off, true
					}
					return nil, 0, false
				}
				var Y ast.Expr
				butLast := false
				switch {
				case post.Tok == token.INC && (cond.Op == token.LSS || cond.Op == token.LEQ):
					tv := info.Types[as.Rhs[0]]
					if tv.Value == nil {
						return true
					}
					if k, ok := intConst(constTerm(tv.Value)); !ok || k < 0 {
						return true
					}
					y, off, ok := bound(cond.Y, 0)
					if !ok {
						return true
					}
					// i < len(Y)+off with off <= 0, or i <= len(Y)+off with off <= -1: i stays below len(Y);
					// the loop is the range over Y exactly when it visits every index
					if (cond.Op == token.LSS && off == 0) || (cond.Op == token.LEQ && off == -1) {
						Y = y
					}
					if (cond.Op == token.LSS && off == -1) || (cond.Op == token.LEQ && off == -2) {
						// every index but the last
						if k, _ := intConst(constTerm(tv.Value)); k == 0 {
							Y = y
							butLast = true
						}
					}
				case post.Tok == token.DEC && cond.Op == token.GEQ:
					if tv := info.Types[cond.Y]; tv.Value == nil || tv.Value.String() != "0" {
						return true
					}
					if y, off, ok := bound(as.Rhs[0], 0); ok && off == -1 {
						Y = y
					}
				}
				if Y == nil {
					return true
				}
				root := rootIdent(Y)
				if root == nil {
					return true
				}
				ro := info.Uses[root]
				clean := true
				ast.Inspect(fst.Body, func(m ast.Node) bool {
					switch x := m.(type) {
					case *ast.AssignStmt:
						for _, l := range x.Lhs {
							if lid := rootIdent(l); lid != nil {
								if o := info.Uses[lid]; o != nil && (o == iv || o == ro) {
									clean = false
								}
							}
						}
					case *ast.IncDecStmt:
						if lid := rootIdent(x.X); lid != nil && (info.Uses[lid] == iv || info.Uses[lid] == ro) {
							clean = false
						}
					case *ast.UnaryExpr:
						if x.Op == token.AND {
							// the address of an element cannot change the length; the address of the
							// counter or of the collection itself could
							if _, isElem := ast.Unparen(x.X).(*ast.IndexExpr); !isElem {
								if lid := rootIdent(x.X); lid != nil && (info.Uses[lid] == iv || info.Uses[lid] == ro) {
									clean = false
								}
							}
						}
					}
					return clean
				})
				if clean {
					if butLast {
						p.forPatsButLast[iv] = Y
					} else {
						p.forPats[iv] = Y
					}
				}
				return true
			})
		}
	}
	return p.forPats[obj]
}

// counterLoopButLast: obj is the counter of `for i := 0; i < len(Y)-1; i++`
// (bound possibly held in a local defined once); returns Y.
func (p *Prog) counterLoopButLast(obj types.Object) ast.Expr {
	p.counterLoopBound(obj)
	return p.forPatsButLast[obj]
}

// pureChain: identifiers and field selections only.
func pureChain(e ast.Expr) bool {
	switch x := ast.Unparen(e).(type) {
	case *ast.Ident:
		return true
	case *ast.SelectorExpr:
		return pureChain(x.X)
	}
	return false
}

func rootIdent(e ast.Expr) *ast.Ident {
	for {
		switch x := ast.Unparen(e).(type) {
		case *ast.Ident:
			return x
		case *ast.SelectorExpr:
			e = x.X
		case *ast.IndexExpr:
			e = x.X
		case *ast.StarExpr:
			e = x.X
		case *ast.SliceExpr:
			e = x.X
		default:
			return nil
		}
	}
}

// quietFull builds (cached) the fully inlined product graph of a function
// without registering a truncation as an undecided obligation.
func (c *Check) quietFull(fs *FuncSrc) *PG {
	name := c.P.abbrev(fs.Obj.FullName())
	key := "full:" + name
	if pg, ok := c.graphs[key]; ok {
		return pg
	}
	if pg, ok := c.graphs[name]; ok && pg != nil {
		return pg
	}
	g := buildGraph(c.P, fs, c.depth, nil)
	pg := explore(g)
	if pg.Trunc {
		// second attempt: callees invoked from function literals (goroutine
		// bodies, callbacks) stay opaque; guards called directly are inlined
		ni := map[string]bool{}
		info := fs.Pkg.TypesInfo
		ast.Inspect(fs.Decl.Body, func(n ast.Node) bool {
			lit, ok := n.(*ast.FuncLit)
			if !ok {
				return true
			}
			ast.Inspect(lit.Body, func(m ast.Node) bool {
				if call, ok := m.(*ast.CallExpr); ok {
					if fn, ok := typeutil.Callee(info, call).(*types.Func); ok {
						ni[c.P.abbrev(fn.FullName())] = true
					}
				}
				return true
			})
			return false
		})
		g = buildGraph(c.P, fs, c.depth, ni)
		pg = explore(g)
	}
	c.graphs[key] = pg
	c.States += len(pg.States)
	c.Edges += pg.nedges
	for _, in := range g.Insts {
		if in.Fn != nil {
			c.Funcs[in.Name] = true
		}
	}
	return pg
}

func (sc *siteScan) apply(res map[*astSite]*siteRes) {
	for as, r := range res {
		as.seen = true
		if as.done {
			continue
		}
		if r.ok {
			as.done, as.how = true, r.how
		} else {
			as.detail = r.det
		}
	}
}

func (sc *siteScan) undone() map[*FuncSrc][]*astSite {
	out := map[*FuncSrc][]*astSite{}
	for _, s := range sc.order {
		if !s.done {
			out[s.fn] = append(out[s.fn], s)
		}
	}
	return out
}

// litParent finds the call whose argument the literal is.
func litParent(fs *FuncSrc, lit *ast.FuncLit) *ast.CallExpr {
	var out *ast.CallExpr
	ast.Inspect(fs.Decl.Body, func(n ast.Node) bool {
		if call, ok := n.(*ast.CallExpr); ok {
			for _, a := range call.Args {
				if ast.Unparen(a) == lit {
					out = call
				}
			}
		}
		return out == nil
	})
	return out
}

// syncMapStores: static key and value types of every store into the
// package-level sync.Map named global ("ncg/pkg.name").
func syncMapStores(c *Check, global string) (keys, vals []string, n int) {
	for _, fs := range c.P.productFuncs() {
		info := fs.Pkg.TypesInfo
		ast.Inspect(fs.Decl.Body, func(nd ast.Node) bool {
			call, ok := nd.(*ast.CallExpr)
			if !ok {
				return true
			}
			fn, ok := typeutil.Callee(info, call).(*types.Func)
			if !ok {
				return true
			}
			switch fn.FullName() {
			case "(*sync.Map).Store", "(*sync.Map).LoadOrStore", "(*sync.Map).Swap", "(*sync.Map).CompareAndSwap":
			default:
				return true
			}
			sel, ok := ast.Unparen(call.Fun).(*ast.SelectorExpr)
			if !ok {
				return true
			}
			id := rootIdent(sel.X)
			if id == nil {
				return true
			}
			v, ok := info.Uses[id].(*types.Var)
			if !ok || !isPkgLevel(v) || c.P.abbrev(v.Pkg().Path())+"."+v.Name() != global {
				return true
			}
			n++
			keys = append(keys, c.P.typeStr(info.TypeOf(call.Args[0])))
			for _, a := range call.Args[1:] {
				vals = append(vals, c.P.typeStr(info.TypeOf(a)))
			}
			return true
		})
	}
	return dedupe(sortedCopy(keys)), dedupe(sortedCopy(vals)), n
}

func checkC09(c *Check) {
	c.Explain = "C09: crash/hang freedom over all inputs is NOT decided for the decoders in the dependencies (encoding/json, cbor, go-cose, jwt, crypto/x509, x/crypto/ocsp, cryptobyte). Decided are the repository's own panic-capable and blocking constructs, each a necessary condition of the property: (1) a value returned together with an error is dereferenced only after that error was tested nil (or the value itself non-nil) on every path; (6) pointer fields an external successful parse may leave nil (RevocationList.Number, ocsp.Response.Certificate) are tested before use; (2) every index and slice expression of product code is discharged by a bounds rule (length guard, range key, for-loop counter, x[i+1] under i != len-1 or over x[:len-1], x[len-1] under non-empty, slices.Index result tested), if necessary in the context of all callers; every single-value type assertion is dominated by a successful comma-ok test of the same value or covered by the registry typing rule; interface-keyed map use is preceded by a type restriction; explicit panics are only in init, on a nil argument, or the re-raise of a forwarded goroutine panic; (3) every goroutine defers a recover that forwards the value and the spawner re-raises it; (4) every response body is read through io.LimitReader with a constant bound, requests are built only with NewRequestWithContext, and every context argument derives from the caller's context; (5) every non-range loop makes progress on each cycle (a tested variable is reassigned from a consuming call, or a consuming read on it succeeded)."
	c.Assume = append(c.Assume, "the heap object behind a pointer is not resized by another goroutine between a bounds guard and the access", "revocation.Validator implementations honour the documented contract only where the code does not re-check it")
	for k, v := range decodedStructFields(c) {
		optionalFields[k] = v
	}
	sc := censusSites(c)
	funcs := c.P.productFuncs()
	// pass 1: every product function as its own root, in-module callees opaque
	nunsup := 0
	for _, fs := range funcs {
		name := c.P.abbrev(fs.Obj.FullName())
		pg := c.skeleton(name)
		if pg == nil {
			continue
		}
		for _, n := range pg.Unsup {
			nunsup++
			c.undecided("engine", name+"|"+n.Note, "construct not understood: "+n.Note, c.P.pos(n.Pos))
		}
		sc.apply(sc.process(pg, true, nil))
		sc.loopProgress(fs, pg)
		sc.panicSites(fs, pg)
	}
	// literals that are not spliced into their function (callbacks)
	litSeen := map[*ast.FuncLit]bool{}
	for _, s := range sc.order {
		if s.seen || s.lit == nil || litSeen[s.lit] {
			continue
		}
		litSeen[s.lit] = true
		ni := map[string]bool{}
		for _, cal := range c.P.directCallees(s.fn) {
			ni[cal] = true
		}
		g := buildLitGraph(c.P, s.fn, s.lit, c.depth, ni)
		pg := explore(g)
		c.States += len(pg.States)
		sc.curLit, sc.curLitFn = s.lit, s.fn
		sc.apply(sc.process(pg, true, nil))
		sc.curLit, sc.curLitFn = nil, nil
	}
	// pass 2: the function with its callees inlined (callee postconditions)
	for fs, ss := range sc.undone() {
		pg := c.quietFull(fs)
		if pg.Trunc {
			continue
		}
		_ = ss
		sc.apply(sc.process(pg, false, func(as *astSite, st *Site) bool { return as.fn == fs && rootInst(st.Inst) }))
	}
	// pass 3: in the context of every caller (callee preconditions)
	for fs, ss := range sc.undone() {
		if fs.Obj.Exported() && !strings.Contains(fs.Pkg.PkgPath, "/internal/") {
			continue
		}
		name := c.P.abbrev(fs.Obj.FullName())
		sites := c.P.callSites(func(n string) bool { return n == name })
		uses := 0
		for _, f2 := range funcs {
			for id, o := range f2.Pkg.TypesInfo.Uses {
				if o == fs.Obj && id.Pos() >= f2.Decl.Pos() && id.End() <= f2.Decl.End() {
					uses++
				}
			}
		}
		if len(sites) == 0 || uses != len(sites) {
			continue
		}
		callers := map[*FuncSrc]bool{}
		for _, cs := range sites {
			callers[cs.Fn] = true
		}
		okAll := map[*astSite]bool{}
		hows := map[*astSite]string{}
		for _, s := range ss {
			okAll[s] = true
		}
		for g := range callers {
			pg := c.quietFull(g)
			res := map[*astSite]*siteRes{}
			if !pg.Trunc {
				res = sc.process(pg, false, func(as *astSite, st *Site) bool { return as.fn == fs && !rootInst(st.Inst) })
			}
			for _, s := range ss {
				r := res[s]
				if r == nil || !r.ok || r.n == 0 {
					okAll[s] = false
					if r != nil {
						s.detail = append([]string{"in the context of caller " + c.P.abbrev(g.Obj.FullName()) + ":"}, r.det...)
					}
				} else {
					hows[s] = r.how
				}
			}
		}
		for _, s := range ss {
			if okAll[s] {
				s.done, s.seen = true, true
				s.how = hows[s] + " (established by every caller: " + strconv.Itoa(len(callers)) + ")"
			}
		}
	}
	// pass 4: bounds checks the compiler's prove pass eliminated
	var left []*astSite
	for _, s := range sc.order {
		if !s.done && s.kind != "assert1" {
			left = append(left, s)
		}
	}
	if len(left) > 0 {
		if unproven, err := compilerUnprovenBounds(c); err == nil {
			for _, s := range left {
				if !unproven[c.P.pos(s.pos)] {
					s.done, s.how = true, "bounds check eliminated by the compiler's prove pass (-d=ssa/check_bce)"
				}
			}
		} else {
			c.Notes = append(c.Notes, "compiler bounds-check listing unavailable: "+err.Error())
		}
	}
	counts := map[string]int{}
	for _, s := range sc.order {
		counts[s.kind]++
		fn := c.P.abbrev(s.fn.Obj.FullName())
		what := map[string]string{"index": "index expression in bounds", "slice": "slice expression in bounds", "assert1": "single-value type assertion cannot fail"}[s.kind]
		det := s.detail
		if !s.seen && !s.done {
			det = append(det, "the construct was not reached by the analysis")
		}
		c.add("O-C09.2", s.kind+" "+types.ExprString(s.expr)+" in "+fn, what+": "+s.how, s.done, c.P.pos(s.pos), det...)
	}
	c.floor("index expressions in product code", 25, counts["index"])
	c.floor("slice expressions in product code", 1, counts["slice"])
	c.floor("single-value type assertions in product code", 3, counts["assert1"])
	// deref obligations
	var keys []string
	for k := range sc.derefs {
		keys = append(keys, k)
	}
	sort.Strings(keys)
	n1, n6 := 0, 0
	for _, k := range keys {
		ob := sc.derefs[k]
		if ob.rule == "O-C09.1" {
			n1++
		} else {
			n6++
		}
		c.add(ob.rule, ob.name+" in "+ob.fn, "dereference dominated by the test", ob.ok, ob.where, ob.detail...)
	}
	// the callee's side of O-C09.1 for functions of this module: whenever it returns a nil error, the
	// pointer its callers go on to dereference is not nil - not the nil literal, and an optional
	// parsed field only after it was tested
	var cnames []string
	for n := range sc.contracts {
		cnames = append(cnames, n)
	}
	sort.Strings(cnames)
	for _, n := range cnames {
		ri, ei := sc.contracts[n][0], sc.contracts[n][1]
		pg := c.pgOf(n)
		if pg == nil {
			continue
		}
		var det []string
		for _, rs := range pg.Returns() {
			if !retNilErr(rs, ei) || ri >= len(rs.Ret) {
				continue
			}
			v := rs.Ret[ri]
			T := v.T
			if v.N == -1 || T == nil {
				continue
			}
			switch {
			case v.N == 1 || (T.isConst() && T.Name == "nil"):
				det = append(det, c.P.pos(rs.Node.Pos)+": returns a nil pointer together with a nil error")
			case T.Op == "field" && optionalFields[T.Owner+"."+T.Name] != "":
				if okc, _ := c.cut(pg, []*PState{rs}, A("-IsNil("+T.Key()+")")); !okc {
					det = append(det, c.P.pos(rs.Node.Pos)+": returns the optional field "+T.Owner+"."+T.Name+" untested together with a nil error")
				}
			}
		}
		c.add("O-C09.1", "a nil error from "+shortCallee(n)+" comes with a usable pointer", "the callers dereference result "+strconv.Itoa(ri)+" once the error was tested: no return with a nil error hands back nil or an untested optional field", len(det) == 0, c.P.pos(pg.G.Root.Decl.Pos()), det...)
	}
	c.floor("dereferences of values returned with an error", 30, n1)
	c.floor("dereferences of optional parsed fields", 3, n6)
	c.Tables["optional_fields"] = optionalFields
	goroutineRecover(c)
	boundedReads(c)
	contextPlumbing(c)
	c.floor("non-range loops in product code", 3, sc.nloops)
	c.floor("explicit panic sites in product code", 5, sc.npanics)
	coseKeyRestriction(c, "O-C09.2")
	// the aggregator dereferences the elements of the pre-sized per-responder slice: every
	// iteration of the responder loop that goes on must have stored its slot (O-C04.4)
	c.floor("responder slot rules (shared with C04)", 1, shareRulesWhere(c, checkC04, []string{"O-C04.4"}, "O-C09.2", "responder results: ", func(n string) bool {
		return strings.Contains(n, "recorded in its slot")
	}))
	// a range-over-func iterator that calls yield again after it returned false makes the runtime
	// panic ("range function continued iteration ..."): the CRL entry iterator stops when told to (O-C10.6)
	c.floor("iterator protocol rules (shared with C10)", 1, shareRulesWhere(c, checkC10, []string{"O-C10.6"}, "O-C09.4", "entry iterator: ", func(n string) bool {
		return strings.Contains(n, "stops when told") || strings.Contains(n, "entry list")
	}))
	_ = fmt.Sprint
	_ = nunsup
}

// compilerUnprovenBounds lists the bounds checks left after the compiler's
// prove pass, keyed like Prog.pos.
func compilerUnprovenBounds(c *Check) (map[string]bool, error) {
	cmd := exec.Command("go", "build", "-gcflags=-d=ssa/check_bce/debug=1", "./...")
	cmd.Dir = c.P.Dir
	cmd.Env = append(os.Environ(), "GOFLAGS=-mod=mod", "GOPROXY=off", "GOSUMDB=off", "GOTOOLCHAIN=local", "GOWORK=off", "CGO_ENABLED=0")
	out, _ := cmd.CombinedOutput()
	res := map[string]bool{}
	n := 0
	for _, line := range strings.Split(string(out), "\n") {
		if i := strings.Index(line, ": Found Is"); i > 0 {
			res[strings.TrimPrefix(line[:i], "./")] = true
			n++
		}
	}
	if n == 0 {
		return nil, fmt.Errorf("no bounds-check diagnostics in compiler output")
	}
	return res, nil
}

// loopProgress: O-C09.5 for every non-range loop of fs.
func (sc *siteScan) loopProgress(fs *FuncSrc, pg *PG) {
	c := sc.c
	info := fs.Pkg.TypesInfo
	fors := map[token.Pos]*ast.ForStmt{}
	ast.Inspect(fs.Decl.Body, func(n ast.Node) bool {
		if f, ok := n.(*ast.ForStmt); ok {
			fors[f.Pos()] = f
		}
		return true
	})
	name := c.P.abbrev(fs.Obj.FullName())
	for _, H := range pg.G.Nodes {
		if H.Note != "forhead" {
			continue
		}
		fst := fors[H.Pos]
		if fst == nil {
			continue
		}
		heads := statesAt(pg, H)
		if len(heads) == 0 {
			continue
		}
		sc.nloops++
		construct := "loop " + types.ExprString(fst.Cond) + " in " + name
		if fst.Cond == nil {
			c.undecided("O-C09.5", "loop without condition in "+name, "no progress rule for a loop without a condition", c.P.pos(fst.Pos()))
			continue
		}
		cv := map[types.Object]bool{}
		ast.Inspect(fst.Cond, func(n ast.Node) bool {
			if id, ok := n.(*ast.Ident); ok {
				if v, ok := info.Uses[id].(*types.Var); ok && !isPkgLevel(v) && !v.IsField() {
					cv[v] = true
				}
			}
			return true
		})
		progress := func(l Label) bool {
			switch l.Kind {
			case "assign":
				if l.T == nil || l.T.V == nil || l.T.V.Obj == nil || !cv[l.T.V.Obj] {
					return false
				}
				// a PEM block read counts only if the remaining input is consumed too
				n := l.Node
				for _, src := range n.Src {
					if src != nil && src.Op == "res" && src.Args[0].Op == "call" && src.Args[0].Name == "encoding/pem.Decode" {
						call := src.Args[0]
						arg := call.Args[0]
						if arg.Op != "var" {
							return false
						}
						consumed := false
						for j, s2 := range n.Src {
							if s2 != nil && s2.Op == "res" && s2.Name == "1" && s2.Args[0] == call && j < len(n.Dst) && n.Dst[j] != nil && n.Dst[j].Obj == arg.V.Obj {
								consumed = true
							}
						}
						return consumed
					}
				}
				return true
			case "atom":
				if !l.Pol || l.Node == nil || l.Node.Cond == nil {
					return false
				}
				ct := l.Node.Cond
				if ct.Op == "call" && len(ct.Args) > 0 && (strings.HasPrefix(ct.Name, "(*golang.org/x/crypto/cryptobyte.String).Read") || strings.HasPrefix(ct.Name, "(*golang.org/x/crypto/cryptobyte.String).Skip")) {
					if r := ct.Args[0]; r.Op == "addrvar" && r.V != nil && r.V.Obj != nil && cv[r.V.Obj] {
						return true
					}
				}
			}
			return false
		}
		// a cycle head -> ... -> head without a progress label?
		prev := map[*PState]*PEdge{}
		var queue []*PState
		var hit *PEdge
		push := func(e *PEdge) {
			if hit != nil || e.has(progress) {
				return
			}
			if e.To.Node == H {
				hit = e
				return
			}
			if _, ok := prev[e.To]; ok {
				return
			}
			prev[e.To] = e
			queue = append(queue, e.To)
		}
		c.Searches++
		for _, h := range heads {
			for _, e := range h.Out {
				push(e)
			}
		}
		for len(queue) > 0 && hit == nil {
			s := queue[0]
			queue = queue[1:]
			for _, e := range s.Out {
				push(e)
			}
		}
		var det []string
		if hit != nil {
			path := []*PEdge{hit}
			for e := prev[hit.From]; e != nil; e = prev[e.From] {
				path = append([]*PEdge{e}, path...)
				if e.From.Node == H {
					break
				}
			}
			det = append([]string{"a cycle returns to the loop head without progress on a tested variable:"}, pg.describePath(path, 12)...)
		}
		c.add("O-C09.5", construct, "every cycle of the loop reassigns a variable tested in its condition (a PEM read only together with the remaining input) or passes a successful consuming read on it", hit == nil && len(cv) > 0, c.P.pos(fst.Pos()), det...)
	}
}

// panicSites: explicit panics are allowed only in init, on a nil argument, or
// as the re-raise of a value received from a channel.
func (sc *siteScan) panicSites(fs *FuncSrc, pg *PG) {
	c := sc.c
	name := c.P.abbrev(fs.Obj.FullName())
	byNode := map[*Node][]*PState{}
	var order []*Node
	for _, s := range pg.Panics() {
		if byNode[s.Node] == nil {
			order = append(order, s.Node)
		}
		byNode[s.Node] = append(byNode[s.Node], s)
	}
	// syntactic: panic(x) with x bound by a receive in a select/assignment
	recvBound := map[token.Pos]bool{}
	info := fs.Pkg.TypesInfo
	ast.Inspect(fs.Decl.Body, func(n ast.Node) bool {
		cc, ok := n.(*ast.CommClause)
		if !ok || cc.Comm == nil {
			return true
		}
		as, ok := cc.Comm.(*ast.AssignStmt)
		if !ok || len(as.Lhs) < 1 || len(as.Rhs) != 1 {
			return true
		}
		if u, ok := ast.Unparen(as.Rhs[0]).(*ast.UnaryExpr); !ok || u.Op != token.ARROW {
			return true
		}
		id, ok := as.Lhs[0].(*ast.Ident)
		if !ok {
			return true
		}
		obj := info.Defs[id]
		for _, st := range cc.Body {
			ast.Inspect(st, func(m ast.Node) bool {
				if call, ok := m.(*ast.CallExpr); ok && len(call.Args) == 1 {
					if fid, ok := call.Fun.(*ast.Ident); ok {
						if b, ok := info.Uses[fid].(*types.Builtin); ok && b.Name() == "panic" {
							if aid, ok := ast.Unparen(call.Args[0]).(*ast.Ident); ok && info.Uses[aid] == obj {
								recvBound[call.Pos()] = true
							}
						}
					}
				}
				return true
			})
		}
		return true
	})
	ast.Inspect(fs.Decl.Body, func(n ast.Node) bool {
		if call, ok := n.(*ast.CallExpr); ok && len(call.Args) == 1 {
			if fid, ok := call.Fun.(*ast.Ident); ok {
				if b, ok := info.Uses[fid].(*types.Builtin); ok && b.Name() == "panic" {
					if u, ok := ast.Unparen(call.Args[0]).(*ast.UnaryExpr); ok && u.Op == token.ARROW {
						recvBound[call.Pos()] = true
					}
				}
			}
		}
		return true
	})
	for _, n := range order {
		sc.npanics++
		where := c.P.pos(n.Pos)
		ok, how := false, ""
		switch {
		case fs.Obj.Name() == "init" && fs.Decl.Recv == nil:
			ok, how = true, "in init (runs once at program start, not on untrusted input)"
		case recvBound[n.Pos]:
			ok, how = true, "re-raise of a value received from a channel (forwarded goroutine panic, see O-C09.3/C17)"
		default:
			// nil-argument guard
			for i := range pg.G.Params {
				p := "p" + strconv.Itoa(i)
				if fs.Decl.Recv != nil {
					if i == 0 {
						p = "recv"
					} else {
						p = "p" + strconv.Itoa(i-1)
					}
				}
				if okc, _ := c.cut(pg, byNode[n], A("+IsNil("+p+")")); okc {
					ok, how = true, "reached only when argument "+p+" is nil (caller's programming error, documented)"
				}
			}
		}
		c.add("O-C09.2", "explicit panic in "+name, "explicit panic allowed only in init, on a nil argument, or as the re-raise of a forwarded goroutine panic: "+how, ok, where)
	}
}

// goroutineRecover: O-C09.3.
func goroutineRecover(c *Check) {
	n := 0
	for _, fs := range c.P.productFuncs() {
		info := fs.Pkg.TypesInfo
		name := c.P.abbrev(fs.Obj.FullName())
		ast.Inspect(fs.Decl.Body, func(nd ast.Node) bool {
			g, ok := nd.(*ast.GoStmt)
			if !ok {
				return true
			}
			n++
			where := c.P.pos(g.Pos())
			lit, ok := ast.Unparen(g.Call.Fun).(*ast.FuncLit)
			if !ok {
				c.add("O-C09.3", "goroutine in "+name, "the goroutine runs a literal that defers a recover", false, where, "go statement does not run a function literal")
				return true
			}
			var ch types.Object
			for _, st := range lit.Body.List {
				d, ok := st.(*ast.DeferStmt)
				if !ok {
					break
				}
				if o := deferredRecover(c.P, d, info); o != nil {
					ch = o
				}
			}
			c.add("O-C09.3", "goroutine in "+name+" recovers and forwards", "before any other statement the goroutine defers a literal that calls recover() and sends a non-nil value on a channel (a panic in the goroutine cannot kill the process)", ch != nil, where)
			if ch == nil {
				return true
			}
			// the spawner receives from that channel and re-raises
			reraise := false
			ast.Inspect(fs.Decl.Body, func(m ast.Node) bool {
				cc, ok := m.(*ast.CommClause)
				if !ok || cc.Comm == nil {
					return true
				}
				as, ok := cc.Comm.(*ast.AssignStmt)
				if !ok || len(as.Rhs) != 1 {
					return true
				}
				u, ok := ast.Unparen(as.Rhs[0]).(*ast.UnaryExpr)
				if !ok || u.Op != token.ARROW {
					return true
				}
				cid, ok := ast.Unparen(u.X).(*ast.Ident)
				if !ok || info.Uses[cid] != ch {
					return true
				}
				id, ok := as.Lhs[0].(*ast.Ident)
				if !ok {
					return true
				}
				obj := info.Defs[id]
				for _, st := range cc.Body {
					ast.Inspect(st, func(k ast.Node) bool {
						if call, ok := k.(*ast.CallExpr); ok && len(call.Args) == 1 {
							if fid, ok := call.Fun.(*ast.Ident); ok {
								if b, ok := info.Uses[fid].(*types.Builtin); ok && b.Name() == "panic" {
									if aid, ok := ast.Unparen(call.Args[0]).(*ast.Ident); ok && info.Uses[aid] == obj {
										reraise = true
									}
								}
							}
						}
						return true
					})
				}
				return true
			})
			if !reraise {
				// panic(<-ch) without a select
				ast.Inspect(fs.Decl.Body, func(m ast.Node) bool {
					if call, ok := m.(*ast.CallExpr); ok && len(call.Args) == 1 {
						if fid, ok := call.Fun.(*ast.Ident); ok {
							if b, ok := info.Uses[fid].(*types.Builtin); ok && b.Name() == "panic" {
								if u, ok := ast.Unparen(call.Args[0]).(*ast.UnaryExpr); ok && u.Op == token.ARROW {
									if cid, ok := ast.Unparen(u.X).(*ast.Ident); ok && info.Uses[cid] == ch {
										reraise = true
									}
								}
							}
						}
					}
					return true
				})
			}
			c.add("O-C09.3", "spawner "+name+" re-raises the forwarded panic", "the spawning function receives from the channel the goroutines forward to and panics with the received value on its own goroutine", reraise, where)
			return true
		})
	}
	c.floor("go statements in product code", 1, n)
}

// boundedReads: O-C09.4 (a).
func boundedReads(c *Check) {
	nread, nbody, nlimit := 0, 0, 0
	forbidden := map[string]bool{
		"net/http.NewRequest": true, "net/http.Get": true, "net/http.Post": true, "net/http.Head": true, "net/http.PostForm": true,
		"(*net/http.Client).Get": true, "(*net/http.Client).Post": true, "(*net/http.Client).Head": true, "(*net/http.Client).PostForm": true,
		"io/ioutil.ReadAll": true,
	}
	nreq := 0
	for _, fs := range c.P.productFuncs() {
		info := fs.Pkg.TypesInfo
		name := c.P.abbrev(fs.Obj.FullName())
		var stack []ast.Node
		ast.Inspect(fs.Decl.Body, func(nd ast.Node) bool {
			if nd == nil {
				stack = stack[:len(stack)-1]
				return true
			}
			stack = append(stack, nd)
			switch x := nd.(type) {
			case *ast.CallExpr:
				fn, ok := typeutil.Callee(info, x).(*types.Func)
				if !ok {
					return true
				}
				full := fn.FullName()
				if forbidden[full] {
					c.add("O-C09.4", "no "+full+" in "+name, "requests carry a context and bodies are read bounded", false, c.P.pos(x.Pos()), full+" is not allowed in product code")
				}
				if full == "net/http.NewRequestWithContext" {
					nreq++
				}
				if full == "io.LimitReader" {
					// the bound is a positive constant - written here, or handed in through a parameter
					// by every caller of this function
					nlimit++
					ok := false
					var det []string
					posConst := func(info *types.Info, e ast.Expr) bool {
						if tv := info.Types[e]; tv.Value != nil {
							if k, isInt := intConst(constTerm(tv.Value)); isInt && k > 0 {
								det = append(det, "bound: "+tv.Value.String()+" bytes")
								return true
							}
						}
						return false
					}
					if posConst(info, x.Args[1]) {
						ok = true
					} else if id, isID := ast.Unparen(x.Args[1]).(*ast.Ident); isID {
						pv, _ := info.Uses[id].(*types.Var)
						if pi := paramIndex(fs, pv); pv != nil && pi >= 0 && !assignsTo(fs, pv) {
							ncall := 0
							ok = true
							for _, g := range c.P.productFuncs() {
								ast.Inspect(g.Decl.Body, func(m ast.Node) bool {
									if call, isCall := m.(*ast.CallExpr); isCall {
										if typeutil.StaticCallee(g.Pkg.TypesInfo, call) == fs.Obj && pi < len(call.Args) {
											ncall++
											if !posConst(g.Pkg.TypesInfo, call.Args[pi]) {
												ok = false
											}
										}
									}
									return true
								})
							}
							if ncall == 0 {
								ok = false
							}
						}
					}
					c.add("O-C09.4", "io.LimitReader in "+name+" has a positive constant bound", "the bound is a positive constant (at the call, or at every call of the function that takes it as a parameter)", ok, c.P.pos(x.Pos()), det...)
				}
				if full == "io.ReadAll" {
					nread++
					ok := false
					if inner, isCall := ast.Unparen(x.Args[0]).(*ast.CallExpr); isCall {
						if f2, _ := typeutil.Callee(info, inner).(*types.Func); f2 != nil && f2.FullName() == "io.LimitReader" {
							ok = true
						}
					}
					c.add("O-C09.4", "io.ReadAll in "+name+" is bounded", "the reader is an io.LimitReader", ok, c.P.pos(x.Pos()))
				}
			case *ast.SelectorExpr:
				sel, ok := info.Selections[x]
				if !ok || sel.Kind() != types.FieldVal || sel.Obj().Name() != "Body" {
					return true
				}
				if c.P.typeStr(derefType(sel.Recv())) != "net/http.Response" {
					return true
				}
				nbody++
				ok = false
				if len(stack) >= 2 {
					switch p := stack[len(stack)-2].(type) {
					case *ast.SelectorExpr:
						if p.Sel.Name == "Close" {
							ok = true
						}
					case *ast.CallExpr:
						if f2, _ := typeutil.Callee(info, p).(*types.Func); f2 != nil && f2.FullName() == "io.LimitReader" && len(p.Args) > 0 && ast.Unparen(p.Args[0]) == x {
							ok = true
						}
					}
				}
				c.add("O-C09.4", "response body use in "+name, "an http.Response.Body is only closed or wrapped in io.LimitReader", ok, c.P.pos(x.Pos()))
			}
			return true
		})
	}
	_ = nread
	c.floor("io.LimitReader calls in product code", 2, nlimit)
	growNonNegative(c)
	c.floor("http.Response.Body uses in product code", 2, nbody)
	c.floor("http.NewRequestWithContext calls in product code", 2, nreq)
}

func derefType(t types.Type) types.Type {
	if p, ok := t.Underlying().(*types.Pointer); ok {
		return p.Elem()
	}
	return t
}

func isContextType(t types.Type) bool {
	n, ok := t.(*types.Named)
	return ok && n.Obj().Pkg() != nil && n.Obj().Pkg().Path() == "context" && n.Obj().Name() == "Context"
}

// contextPlumbing: O-C09.4 (b): every context argument derives from the
// caller's context.
func contextPlumbing(c *Check) {
	n := 0
	for _, fs := range c.P.productFuncs() {
		info := fs.Pkg.TypesInfo
		name := c.P.abbrev(fs.Obj.FullName())
		sig := fs.Obj.Type().(*types.Signature)
		hasCtx := false
		check := func(t types.Type) {
			if isContextType(t) {
				hasCtx = true
				return
			}
			ms := types.NewMethodSet(t)
			for i := 0; i < ms.Len(); i++ {
				if f, ok := ms.At(i).Obj().(*types.Func); ok && f.Name() == "Context" {
					if r := f.Type().(*types.Signature).Results(); r.Len() == 1 && isContextType(r.At(0).Type()) {
						hasCtx = true
					}
				}
			}
		}
		for i := 0; i < sig.Params().Len(); i++ {
			check(sig.Params().At(i).Type())
		}
		if sig.Recv() != nil {
			check(sig.Recv().Type())
		}
		var okExpr func(e ast.Expr, depth int) (bool, string)
		okExpr = func(e ast.Expr, depth int) (bool, string) {
			if depth > 6 {
				return false, "derivation too deep"
			}
			switch x := ast.Unparen(e).(type) {
			case *ast.Ident:
				v, ok := info.Uses[x].(*types.Var)
				if !ok {
					return false, "not a variable: " + x.Name
				}
				// a parameter of the function or of an enclosing literal
				isParam := false
				ast.Inspect(fs.Decl, func(m ast.Node) bool {
					var ft *ast.FuncType
					switch y := m.(type) {
					case *ast.FuncDecl:
						ft = y.Type
					case *ast.FuncLit:
						ft = y.Type
					}
					if ft != nil && ft.Params != nil {
						for _, f := range ft.Params.List {
							for _, nm := range f.Names {
								if info.Defs[nm] == v {
									isParam = true
								}
							}
						}
					}
					return !isParam
				})
				if isParam {
					return true, "parameter " + x.Name
				}
				// local: every assignment must be a derivation
				nas := 0
				good := true
				why := ""
				ast.Inspect(fs.Decl.Body, func(m ast.Node) bool {
					as, ok := m.(*ast.AssignStmt)
					if !ok {
						return true
					}
					for i, l := range as.Lhs {
						id, ok := l.(*ast.Ident)
						if !ok || (info.Defs[id] != v && info.Uses[id] != v) {
							continue
						}
						nas++
						var rhs ast.Expr
						if len(as.Rhs) == len(as.Lhs) {
							rhs = as.Rhs[i]
						} else if len(as.Rhs) == 1 && i == 0 {
							rhs = as.Rhs[0]
						}
						if rhs == nil {
							good, why = false, "assigned from a multi-value expression"
							continue
						}
						if ok2, w := okExpr(rhs, depth+1); !ok2 {
							good, why = false, w
						}
					}
					return true
				})
				if nas == 0 {
					return false, "variable " + x.Name + " is never assigned from a context derivation"
				}
				return good, why
			case *ast.CallExpr:
				fn, _ := typeutil.Callee(info, x).(*types.Func)
				if fn == nil {
					return false, "dynamic call"
				}
				switch full := fn.FullName(); {
				case full == "context.Background" || full == "context.TODO":
					if hasCtx {
						return false, full + "() although the function has a context at hand"
					}
					return true, "root context in a function without a context parameter"
				case strings.HasPrefix(full, "context.With"):
					return okExpr(x.Args[0], depth+1)
				case fn.Name() == "Context" && fn.Type().(*types.Signature).Recv() != nil:
					return true, "context carried by the request object"
				}
				return false, "context produced by " + fn.FullName()
			}
			return false, "unrecognised context expression " + exprString(e)
		}
		ast.Inspect(fs.Decl.Body, func(nd ast.Node) bool {
			call, ok := nd.(*ast.CallExpr)
			if !ok {
				return true
			}
			var csig *types.Signature
			cname := ""
			if fn, ok := typeutil.Callee(info, call).(*types.Func); ok {
				csig, _ = fn.Type().(*types.Signature)
				cname = c.P.abbrev(fn.FullName())
				if strings.HasPrefix(fn.FullName(), "context.With") {
					return true // checked through the variable it defines
				}
			} else if tv, ok := info.Types[call.Fun]; ok && !tv.IsType() {
				csig, _ = tv.Type.Underlying().(*types.Signature)
				cname = "dynamic " + exprString(call.Fun)
			}
			if csig == nil {
				return true
			}
			for i := 0; i < csig.Params().Len() && i < len(call.Args); i++ {
				if !isContextType(csig.Params().At(i).Type()) {
					continue
				}
				n++
				ok2, why := okExpr(call.Args[i], 0)
				c.add("O-C09.4", "context passed to "+cname+" in "+name, "the context argument derives from the caller's context (parameter, context.With* of it, the request's Context(), or a root context where the function has none): "+why, ok2, c.P.pos(call.Args[i].Pos()))
			}
			return true
		})
	}
	c.floor("context arguments in product code", 12, n)
}

// coseKeyRestriction: a caller-supplied interface value is used as a map key
// only after its dynamic type was restricted to hashable kinds (D6).
func coseKeyRestriction(c *Check, rule string) {
	for _, f := range discoverFormats(c) {
		if f.name != "COSE" {
			continue
		}
		w := findAttrWriter(c, f)
		if w == "" {
			c.undecided(rule, "COSE attribute writer", "no function in the signing call tree ranges over ExtendedSignedAttributes", "")
			return
		}
		pg := c.pgOf(w)
		if pg == nil {
			return
		}
		req := paramOfType(pg, "signature.SignRequest")
		X := req + ".ExtendedSignedAttributes"
		key := "re(" + X + ").Key"
		var tys []LP
		for _, t := range coseLabelTypes {
			tys = append(tys, A("+TypeIs("+key+", "+t+")"))
		}
		mapUse := LP{Desc: "map access or comparison with the key", F: func(l Label) bool {
			if l.Kind == "atom" && (strings.HasPrefix(l.Key, "Has(") || strings.HasPrefix(l.Key, "Eq(")) && strings.Contains(l.Key, key) {
				return true
			}
			return (l.Kind == "store" || l.Kind == "lstore") && strings.Contains(l.Key, "["+key+"]")
		}}
		c.within(pg, rule, "COSE: caller-supplied attribute key restricted before it is used as a map key", "an interface value from the request is hashed or compared only after its dynamic type was restricted to an integer kind or string (an unhashable key would panic)", X, AnyOf(tys...), mapUse)
	}
}

// producesHeaderMap: the in-module function returns (map[string]any, error)
// and builds the map from the protected-header struct (it mentions that struct
// type) - the producer of the JWS signed-attribute map, whatever its name.
func producesHeaderMap(c *Check, name string) bool {
	fs := c.P.fn(name)
	if fs == nil {
		return false
	}
	sig := fs.Obj.Type().(*types.Signature)
	if sig.Results().Len() != 2 || c.P.typeStr(sig.Results().At(0).Type()) != "map[string]interface{}" && c.P.typeStr(sig.Results().At(0).Type()) != "map[string]any" {
		return false
	}
	uses := false
	info := fs.Pkg.TypesInfo
	ast.Inspect(fs.Decl.Body, func(n ast.Node) bool {
		if cl, ok := n.(*ast.CompositeLit); ok {
			if t := info.TypeOf(cl); t != nil {
				for _, nm := range jsonNames(t) {
					if nm == "io.cncf.notary.signingScheme" {
						uses = true
					}
				}
			}
		}
		return !uses
	})
	return uses
}

// assignsTo: does the body of fs assign the variable o (or take its address)?
func assignsTo(fs *FuncSrc, o types.Object) bool {
	info := fs.Pkg.TypesInfo
	found := false
	ast.Inspect(fs.Decl.Body, func(n ast.Node) bool {
		switch x := n.(type) {
		case *ast.AssignStmt:
			for _, l := range x.Lhs {
				if id, ok := ast.Unparen(l).(*ast.Ident); ok && info.Uses[id] == o {
					found = true
				}
			}
		case *ast.IncDecStmt:
			if id, ok := ast.Unparen(x.X).(*ast.Ident); ok && info.Uses[id] == o {
				found = true
			}
		case *ast.UnaryExpr:
			if id, ok := ast.Unparen(x.X).(*ast.Ident); ok && x.Op == token.AND && info.Uses[id] == o {
				found = true
			}
		}
		return true
	})
	return found
}

// growNonNegative (O-C09.2): (*bytes.Buffer).Grow, (*strings.Builder).Grow and slices.Grow panic on a
// negative count. Every field or call result (other than len/cap) that the count is computed from
// was tested to be positive or non-negative on every path to the call (net/http reports an unknown
// Content-Length as -1). Parameters and constants are not decided here.
func growNonNegative(c *Check) {
	growers := map[string]int{"(*bytes.Buffer).Grow": 1, "(*strings.Builder).Grow": 1, "slices.Grow": 1}
	for _, fs := range c.P.productFuncs() {
		info := fs.Pkg.TypesInfo
		has := false
		ast.Inspect(fs.Decl.Body, func(n ast.Node) bool {
			if call, ok := n.(*ast.CallExpr); ok {
				if fn, _ := typeutil.Callee(info, call).(*types.Func); fn != nil {
					if _, g := growers[strings.TrimSuffix(fn.Origin().FullName(), "[...]")]; g {
						has = true
					}
				}
			}
			return true
		})
		if !has {
			continue
		}
		name := c.P.abbrev(fs.Obj.FullName())
		pg := c.pgOfNI(name)
		if pg == nil {
			continue
		}
		type site struct {
			key    string
			leaves map[string]bool
		}
		sites := map[string]*site{}
		for _, st := range pg.States {
			for _, e := range st.Out {
				for _, l := range e.Labels {
					if l.Kind != "call" || l.T == nil {
						continue
					}
					ai, g := growers[l.T.Name]
					if !g || ai >= len(l.T.Args) {
						continue
					}
					if sites[l.Key] == nil {
						sites[l.Key] = &site{key: l.Key, leaves: map[string]bool{}}
					}
					var walk func(t *Term)
					walk = func(t *Term) {
						if t == nil {
							return
						}
						switch t.Op {
						case "field":
							sites[l.Key].leaves[t.Key()] = true
							return
						case "res":
							sites[l.Key].leaves[t.Key()] = true
							return
						case "call":
							if t.Name == "len" || t.Name == "cap" {
								return
							}
							if t.Name != "min" && t.Name != "max" && !strings.HasPrefix(t.Name, "conv:") && len(t.Args) > 0 && t.Name != "int" && t.Name != "int64" {
								sites[l.Key].leaves[t.Key()] = true
								return
							}
						}
						for _, a := range t.Args {
							walk(a)
						}
					}
					walk(l.T.Args[ai])
				}
			}
		}
		for _, k := range sortedKeysOf(sites) {
			sv := sites[k]
			for _, leaf := range sortedKeys(sv.leaves) {
				lp := AnyOf(A("+Lt(0, "+leaf+")"), A("-Lt("+leaf+", 0)"), A("+Lt(-1, "+leaf+")"), A("-Lt("+leaf+", 1)"))
				c.mustPass(pg, "O-C09.2", "count of Grow in "+name+" is not negative ("+leaf+")", "calling Grow (panics on a negative count)", edgeSources(pg, CallKey(k)), lp)
			}
		}
	}
}

func sortedKeysOf[V any](m map[string]V) []string {
	var out []string
	for k := range m {
		out = append(out, k)
	}
	sort.Strings(out)
	return out
}
