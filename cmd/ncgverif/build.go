package main

// Builder: typed AST -> control-flow graph with atomic conditions, inlined
// in-module callees and explicit variable slots. Constructs the builder does not
// understand become NUnsupported nodes; a check that reaches one is UNDECIDED.

import (
	"fmt"
	"go/ast"
	"go/constant"
	"go/token"
	"go/types"
	"strconv"

	"golang.org/x/tools/go/types/typeutil"
)

type varKey struct {
	obj  types.Object
	inst int
}

type loopCtx struct {
	brk, cont *Node
	label     string // the label of the statement, if it has one
	loopID    int    // identity of a range loop (0 for other loops and for switch/select)
}

type Builder struct {
	P             *Prog
	forceMapChain bool // build the comparison chain even for a rule-owned table (lookup compared with a constant)
	forceMapValue *Term
	lastIter      map[types.Object]bool         // range keys of loops being built with the last iteration peeled off: are we in the peeled copy?
	lastIterOf    map[types.Object]types.Object // range key -> the slice variable ranged over
	lastIterProbe *[2]types.Object              // that constant
	G             *Graph
	cur           *Node
	inst          *Instance
	info          *types.Info
	vars          map[varKey]*Var
	loops         []loopCtx
	pending       []*Term
	maxDepth      int
	noInline      map[string]bool
	stack         []*types.Func
	loopSeq       int
	// fnBind: locals currently bound to one static function (the value variable
	// of an unrolled range over a table of functions)
	fnBind map[types.Object]*types.Func
	// litBind: function-typed parameters of the function being inlined that received a function
	// literal at this call (slices.IndexFunc(xs, func(x T) bool {..}))
	litBind map[types.Object][]*ast.FuncLit
	// litBindName: the closure term name ("#N") of the literal bound by litBind (the same source
	// literal is evaluated once per inline instance; this says which evaluation was passed)
	litBindName map[*ast.FuncLit]string
	// dispatchFns: named functions a dispatched call may also hold (a table that mixes literals
	// and named functions); consumed by dispatchLits
	dispatchFns []*types.Func
	// nextLabel: label of the statement being built (consumed by the loop /
	// switch context it pushes)
	nextLabel string
}

// buildGraph builds the inlined graph of a product function.
func buildGraph(p *Prog, fs *FuncSrc, maxDepth int, noInline map[string]bool) *Graph {
	g := &Graph{P: p, Root: fs, Lits: map[string]*LitInfo{}}
	b := &Builder{P: p, G: g, info: fs.Pkg.TypesInfo, vars: map[varKey]*Var{}, maxDepth: maxDepth, noInline: noInline}
	root := &Instance{ID: 0, Name: p.abbrev(fs.Obj.FullName()), Fn: fs.Obj}
	g.Insts = append(g.Insts, root)
	b.inst = root
	b.stack = []*types.Func{fs.Obj}
	g.Entry = b.newNode(NNop, fs.Decl.Pos())
	g.Entry.Note = "entry"
	g.Exit = b.newNode(NExit, fs.Decl.End())
	b.cur = g.Entry
	// parameters
	sig := fs.Obj.Type().(*types.Signature)
	if fs.Decl.Recv != nil && len(fs.Decl.Recv.List) > 0 {
		var v *Var
		if names := fs.Decl.Recv.List[0].Names; len(names) > 0 && names[0].Name != "_" {
			v = b.declVar(b.info.Defs[names[0]])
		} else {
			v = b.tempVar("recv", sig.Recv().Type())
		}
		g.Params = append(g.Params, v)
		n := b.newNode(NAssign, fs.Decl.Pos())
		n.Dst = []*Var{v}
		n.Src = []*Term{{Op: "param", Name: "recv"}}
		b.emit(n)
	}
	idx := 0
	for _, f := range fs.Decl.Type.Params.List {
		names := f.Names
		if len(names) == 0 {
			idx++
			continue
		}
		for _, nm := range names {
			if nm.Name == "_" {
				idx++
				continue
			}
			v := b.declVar(b.info.Defs[nm])
			g.Params = append(g.Params, v)
			n := b.newNode(NAssign, nm.Pos())
			n.Dst = []*Var{v}
			n.Src = []*Term{{Op: "param", Name: "p" + strconv.Itoa(idx)}}
			b.emit(n)
			idx++
		}
	}
	b.initNamedResults(fs.Decl.Type)
	b.stmt(fs.Decl.Body)
	if b.cur != nil {
		// falling off the end: implicit return (no results)
		n := b.newNode(NReturn, fs.Decl.End())
		b.emit(n)
		n.Succ = []*Node{g.Exit}
		b.cur = nil
	}
	return g
}

// buildLitGraph builds a graph for a function literal analysed as a root.
func buildLitGraph(p *Prog, fs *FuncSrc, lit *ast.FuncLit, maxDepth int, noInline map[string]bool) *Graph {
	g := &Graph{P: p, Root: fs, Lits: map[string]*LitInfo{}}
	b := &Builder{P: p, G: g, info: fs.Pkg.TypesInfo, vars: map[varKey]*Var{}, maxDepth: maxDepth, noInline: noInline}
	root := &Instance{ID: 0, Name: "lit:" + p.abbrev(fs.Obj.FullName())}
	g.Insts = append(g.Insts, root)
	b.inst = root
	b.stack = []*types.Func{fs.Obj}
	g.Entry = b.newNode(NNop, lit.Pos())
	g.Entry.Note = "entry"
	g.Exit = b.newNode(NExit, lit.End())
	b.cur = g.Entry
	idx := 0
	for _, f := range lit.Type.Params.List {
		for _, nm := range f.Names {
			if nm.Name == "_" {
				idx++
				continue
			}
			v := b.declVar(b.info.Defs[nm])
			g.Params = append(g.Params, v)
			n := b.newNode(NAssign, nm.Pos())
			n.Dst = []*Var{v}
			n.Src = []*Term{{Op: "param", Name: "p" + strconv.Itoa(idx)}}
			b.emit(n)
			idx++
		}
	}
	b.initNamedResults(lit.Type)
	b.stmt(lit.Body)
	if b.cur != nil {
		n := b.newNode(NReturn, lit.End())
		b.emit(n)
		n.Succ = []*Node{g.Exit}
		b.cur = nil
	}
	return g
}

func (b *Builder) newNode(k NodeKind, pos token.Pos) *Node {
	n := &Node{ID: len(b.G.Nodes), Kind: k, Pos: pos, Inst: b.inst, Info: b.info}
	b.G.Nodes = append(b.G.Nodes, n)
	return n
}

func (b *Builder) label() *Node { return b.newNode(NNop, token.NoPos) }

func (b *Builder) emit(n *Node) {
	if len(b.pending) > 0 {
		n.Calls = append(n.Calls, b.pending...)
		b.pending = nil
	}
	if b.cur != nil {
		b.cur.Succ = append(b.cur.Succ, n)
	}
	b.cur = n
}

func (b *Builder) flush(pos token.Pos) {
	if len(b.pending) > 0 {
		n := b.newNode(NCall, pos)
		b.emit(n)
	}
}

func (b *Builder) jump(l *Node) {
	b.flush(token.NoPos)
	if b.cur != nil {
		b.cur.Succ = append(b.cur.Succ, l)
	}
	b.cur = nil
}

func (b *Builder) start(l *Node) { b.cur = l }

func (b *Builder) unsupported(pos token.Pos, what string) {
	n := b.newNode(NUnsupported, pos)
	n.Note = what
	b.emit(n)
	b.G.Unsup = append(b.G.Unsup, fmt.Sprintf("%s: %s", b.P.pos(pos), what))
}

func (b *Builder) newVar(name string, obj types.Object, t types.Type) *Var {
	v := &Var{ID: len(b.G.Vars), Name: name, Obj: obj, Typ: t}
	b.G.Vars = append(b.G.Vars, v)
	return v
}

func (b *Builder) tempVar(name string, t types.Type) *Var { return b.newVar(name, nil, t) }

func (b *Builder) declVar(obj types.Object) *Var {
	if obj == nil {
		return b.tempVar("_", nil)
	}
	k := varKey{obj, b.inst.ID}
	if v, ok := b.vars[k]; ok {
		return v
	}
	v := b.newVar(obj.Name(), obj, obj.Type())
	b.vars[k] = v
	return v
}

func (b *Builder) useVar(obj types.Object) *Var {
	for i := b.inst; i != nil; i = i.Lexical {
		if v, ok := b.vars[varKey{obj, i.ID}]; ok {
			return v
		}
	}
	// free variable of a literal analysed as root, or not yet declared
	v := b.newVar(obj.Name(), obj, obj.Type())
	b.vars[varKey{obj, b.inst.ID}] = v
	return v
}

func varTerm(v *Var) *Term { return &Term{Op: "var", V: v} }

func (b *Builder) assignVar(v *Var, t *Term, pos token.Pos) {
	n := b.newNode(NAssign, pos)
	n.Dst = []*Var{v}
	n.Src = []*Term{t}
	b.emit(n)
}

// ---------------------------------------------------------------------------
// statements

func (b *Builder) stmts(list []ast.Stmt) {
	for _, s := range list {
		b.stmt(s)
	}
}

func (b *Builder) stmt(s ast.Stmt) {
	switch s := s.(type) {
	case nil:
	case *ast.BlockStmt:
		b.stmts(s.List)
	case *ast.EmptyStmt:
	case *ast.ExprStmt:
		b.exprStmt(s.X)
	case *ast.AssignStmt:
		b.assignStmt(s)
	case *ast.DeclStmt:
		b.declStmt(s)
	case *ast.IncDecStmt:
		one := konst("1")
		op := "+"
		if s.Tok == token.DEC {
			op = "-"
		}
		x := b.expr(s.X)
		b.assignTo(s.X, mk("bin", op, x, one), false, s.Pos())
	case *ast.IfStmt:
		b.stmt(s.Init)
		t, f, done := b.label(), b.label(), b.label()
		b.cond(s.Cond, t, f)
		b.start(t)
		b.stmt(s.Body)
		b.jump(done)
		b.start(f)
		b.stmt(s.Else)
		b.jump(done)
		b.start(done)
	case *ast.ForStmt:
		if rs, butLast := b.counterAsRange(s); rs != nil {
			if butLast {
				// range over Y[:len(Y)-1], the term the source form Y[:len(Y)-1] has
				y := b.expr(rs.X)
				x := mk("slice", "", y, nil, mk("bin", "-", mk("call", "len", y), konst("1")))
				b.rangeStmtX(rs, x)
			} else {
				b.rangeStmt(rs)
			}
			break
		}
		b.stmt(s.Init)
		head, body, done, post := b.label(), b.label(), b.label(), b.label()
		b.loopSeq++
		head.Note = "forhead"
		head.LoopID = b.loopSeq
		head.Pos = s.Pos()
		b.jump(head)
		b.start(head)
		if s.Cond != nil {
			b.cond(s.Cond, body, done)
		} else {
			b.jump(body)
		}
		b.loops = append(b.loops, loopCtx{brk: done, cont: post, label: b.takeLabel()})
		body.Note = "forbody"
		body.LoopID = head.LoopID
		b.start(body)
		b.stmt(s.Body)
		b.jump(post)
		b.start(post)
		b.stmt(s.Post)
		back := b.label()
		back.Note = "forback"
		back.LoopID = head.LoopID
		b.jump(back)
		b.start(back)
		b.jump(head)
		b.loops = b.loops[:len(b.loops)-1]
		b.start(done)
	case *ast.RangeStmt:
		if b.lastIterTest(s) {
			b.peelLastIteration(s)
			break
		}
		if _, ok := s.Value.(*ast.Ident); ok {
			if fns := b.funcTable(s); fns != nil {
				b.unrollFuncTable(s, fns)
				break
			}
		}
		b.rangeStmt(s)
	case *ast.SwitchStmt:
		b.switchStmt(s)
	case *ast.TypeSwitchStmt:
		b.typeSwitchStmt(s)
	case *ast.ReturnStmt:
		b.returnStmt(s)
	case *ast.BranchStmt:
		if s.Label != nil {
			var tgt *Node
			brkLoop := 0
			for i := len(b.loops) - 1; i >= 0; i-- {
				if b.loops[i].label == s.Label.Name {
					if s.Tok == token.BREAK {
						tgt = b.loops[i].brk
						brkLoop = b.loops[i].loopID
					} else if s.Tok == token.CONTINUE {
						tgt = b.loops[i].cont
					}
					break
				}
			}
			if tgt == nil {
				b.unsupported(s.Pos(), "labelled branch (goto or unknown label)")
				b.cur = nil
				return
			}
			n := b.newNode(NNop, s.Pos())
			n.Note = "break"
			n.LoopID = brkLoop // which range loop the break leaves (0: another kind of statement)
			if s.Tok == token.CONTINUE {
				n.Note = "continue"
			}
			b.emit(n)
			b.jump(tgt)
			return
		}
		switch s.Tok {
		case token.BREAK:
			if len(b.loops) == 0 {
				b.unsupported(s.Pos(), "break outside loop/switch")
				return
			}
			n := b.newNode(NNop, s.Pos())
			n.Note = "break"
			n.LoopID = b.loops[len(b.loops)-1].loopID
			b.emit(n)
			b.jump(b.loops[len(b.loops)-1].brk)
		case token.CONTINUE:
			var tgt *Node
			for i := len(b.loops) - 1; i >= 0; i-- {
				if b.loops[i].cont != nil {
					tgt = b.loops[i].cont
					break
				}
			}
			if tgt == nil {
				b.unsupported(s.Pos(), "continue outside loop")
				return
			}
			n := b.newNode(NNop, s.Pos())
			n.Note = "continue"
			b.emit(n)
			b.jump(tgt)
		default:
			b.unsupported(s.Pos(), "branch "+s.Tok.String())
			b.cur = nil
		}
	case *ast.GoStmt:
		b.goDefer(s.Call, NGo, s.Pos())
	case *ast.DeferStmt:
		b.goDefer(s.Call, NDefer, s.Pos())
	case *ast.SelectStmt:
		n := b.newNode(NSelect, s.Pos())
		b.emit(n)
		done := b.label()
		b.loops = append(b.loops, loopCtx{brk: done, label: b.takeLabel()})
		for _, c := range s.Body.List {
			cc := c.(*ast.CommClause)
			l := b.label()
			n.Succ = append(n.Succ, l)
			b.start(l)
			if cc.Comm == nil {
				m := b.newNode(NNop, cc.Pos())
				m.Note = "select-default"
				b.emit(m)
			} else {
				b.stmt(cc.Comm)
			}
			b.stmts(cc.Body)
			b.jump(done)
		}
		b.loops = b.loops[:len(b.loops)-1]
		b.start(done)
	case *ast.SendStmt:
		ch := b.expr(s.Chan)
		v := b.expr(s.Value)
		b.pending = append(b.pending, mk("call", "chansend", ch, v))
		b.flush(s.Pos())
	case *ast.LabeledStmt:
		switch s.Stmt.(type) {
		case *ast.ForStmt, *ast.RangeStmt, *ast.SwitchStmt, *ast.TypeSwitchStmt, *ast.SelectStmt:
			b.nextLabel = s.Label.Name
		default:
			// a label that only a goto could use
			b.unsupported(s.Pos(), "labelled statement")
		}
		b.stmt(s.Stmt)
		b.nextLabel = ""
	default:
		b.unsupported(s.Pos(), fmt.Sprintf("statement %T", s))
	}
}

func (b *Builder) exprStmt(e ast.Expr) {
	e = ast.Unparen(e)
	if call, ok := e.(*ast.CallExpr); ok {
		if id, ok := ast.Unparen(call.Fun).(*ast.Ident); ok {
			if bi, ok := b.info.Uses[id].(*types.Builtin); ok && bi.Name() == "panic" {
				arg := b.expr(call.Args[0])
				n := b.newNode(NPanic, call.Pos())
				n.Value = arg
				b.emit(n)
				b.cur = nil
				return
			}
		}
		b.callMulti(call, -1)
		b.flush(call.Pos())
		return
	}
	// e.g. <-ch
	b.expr(e)
	b.flush(e.Pos())
}

func (b *Builder) goDefer(call *ast.CallExpr, kind NodeKind, pos token.Pos) {
	if lit, ok := ast.Unparen(call.Fun).(*ast.FuncLit); ok {
		var args []*Term
		for _, a := range call.Args {
			args = append(args, b.expr(a))
		}
		n := b.newNode(kind, pos)
		n.Lit = lit
		b.emit(n)
		if kind == NGo {
			// the goroutine body is spliced in at the go statement
			b.inlineLit(lit, args, call.Pos(), 0)
			m := b.newNode(NNop, call.End())
			m.Note = "goend"
			b.emit(m)
		} else if b.isResultDefer(lit, call, pos) {
			// a deferred literal without parameters, registered unconditionally at the top level of
			// the function, that assigns a named result: it runs at every return that follows
			// (returnStmt splices it in after the results were stored into the named results)
			b.inst.resultDefers = append(b.inst.resultDefers, lit)
		} else {
			// deferred literal: not executed here; free variables it assigns become volatile
			b.markCaptured(lit)
		}
		return
	}
	// go f(x) / defer f(x): evaluate the operands now, record the call as an event
	save := b.pending
	b.pending = nil
	t := b.callTermOnly(call)
	b.pending = save
	n := b.newNode(kind, pos)
	b.emit(n)
	n.Calls = append(n.Calls, t)
}

// callTermOnly builds the call term without inlining and without recording a
// pending call event (the caller records it).
func (b *Builder) callTermOnly(call *ast.CallExpr) *Term {
	old := b.maxDepth
	b.maxDepth = -1
	ts := b.callMulti(call, -1)
	b.maxDepth = old
	var t *Term
	if len(b.pending) > 0 {
		t = b.pending[len(b.pending)-1]
		b.pending = b.pending[:len(b.pending)-1]
	} else if len(ts) > 0 {
		t = ts[0]
	} else {
		t = mk("call", "?")
	}
	return t
}

func (b *Builder) declStmt(s *ast.DeclStmt) {
	gd, ok := s.Decl.(*ast.GenDecl)
	if !ok || gd.Tok != token.VAR {
		return // const / type declarations have no effect
	}
	for _, sp := range gd.Specs {
		vs := sp.(*ast.ValueSpec)
		if len(vs.Values) == 0 {
			for _, nm := range vs.Names {
				if nm.Name == "_" {
					continue
				}
				obj := b.info.Defs[nm]
				v := b.declVar(obj)
				b.assignVar(v, b.zeroOf(obj.Type()), nm.Pos())
			}
			continue
		}
		if len(vs.Values) == 1 && len(vs.Names) > 1 {
			ts := b.multi(vs.Values[0], len(vs.Names))
			for i, nm := range vs.Names {
				if nm.Name == "_" {
					continue
				}
				b.assignVar(b.declVar(b.info.Defs[nm]), ts[i], nm.Pos())
			}
			continue
		}
		var ts []*Term
		for _, e := range vs.Values {
			ts = append(ts, b.expr(e))
		}
		for i, nm := range vs.Names {
			if nm.Name == "_" {
				continue
			}
			b.assignVar(b.declVar(b.info.Defs[nm]), ts[i], nm.Pos())
		}
	}
}

// initNamedResults declares the named results of the function being built with their zero values.
func (b *Builder) initNamedResults(ft *ast.FuncType) {
	if ft == nil || ft.Results == nil {
		return
	}
	for _, f := range ft.Results.List {
		for _, nm := range f.Names {
			if nm.Name == "_" {
				continue
			}
			if o := b.info.Defs[nm]; o != nil {
				b.assignVar(b.declVar(o), b.zeroOf(o.Type()), nm.Pos())
			}
		}
	}
}

// namedResults: the variables of the named results of the current function (nil if unnamed).
func (b *Builder) namedResults() []*Term {
	var ft *ast.FuncType
	switch {
	case b.inst.Lit != nil:
		ft = b.inst.Lit.Type
	case b.inst.Fn != nil:
		if fs := b.P.Funcs[b.inst.Fn.Origin()]; fs != nil {
			ft = fs.Decl.Type
		}
	}
	if ft == nil || ft.Results == nil {
		return nil
	}
	var out []*Term
	for _, f := range ft.Results.List {
		if len(f.Names) == 0 {
			return nil
		}
		for _, nm := range f.Names {
			if o := b.info.Defs[nm]; o != nil && nm.Name != "_" {
				out = append(out, varTerm(b.useVar(o)))
			} else {
				out = append(out, tZero)
			}
		}
	}
	return out
}

// funcTypeBody: the type and body of the function or literal being built.
func (b *Builder) funcTypeBody() (*ast.FuncType, *ast.BlockStmt) {
	switch {
	case b.inst.Lit != nil:
		return b.inst.Lit.Type, b.inst.Lit.Body
	case b.inst.Fn != nil:
		if fs := b.P.Funcs[b.inst.Fn.Origin()]; fs != nil {
			return fs.Decl.Type, fs.Decl.Body
		}
	}
	return nil, nil
}

// namedResultVars: the variables of the named results (nil entry for "_"; nil if unnamed).
func (b *Builder) namedResultVars() []*Var {
	ft, _ := b.funcTypeBody()
	if ft == nil || ft.Results == nil {
		return nil
	}
	var out []*Var
	for _, f := range ft.Results.List {
		if len(f.Names) == 0 {
			return nil
		}
		for _, nm := range f.Names {
			if o := b.info.Defs[nm]; o != nil && nm.Name != "_" {
				out = append(out, b.useVar(o))
			} else {
				out = append(out, nil)
			}
		}
	}
	return out
}

// isResultDefer: `defer func() { ... }()` written as a top-level statement of the current
// function's body (so it is registered on every path that reaches a later return) whose body
// assigns a named result of that function.
func (b *Builder) isResultDefer(lit *ast.FuncLit, call *ast.CallExpr, pos token.Pos) bool {
	if len(call.Args) > 0 || (lit.Type.Params != nil && len(lit.Type.Params.List) > 0) {
		return false
	}
	ft, body := b.funcTypeBody()
	if ft == nil || body == nil || ft.Results == nil {
		return false
	}
	top := false
	for _, st := range body.List {
		if ds, ok := st.(*ast.DeferStmt); ok && ds.Pos() == pos {
			top = true
		}
	}
	if !top {
		return false
	}
	results := map[types.Object]bool{}
	for _, f := range ft.Results.List {
		for _, nm := range f.Names {
			if o := b.info.Defs[nm]; o != nil && nm.Name != "_" {
				results[o] = true
			}
		}
	}
	if len(results) == 0 {
		return false
	}
	found := false
	ast.Inspect(lit.Body, func(n ast.Node) bool {
		switch x := n.(type) {
		case *ast.FuncLit:
			return false
		case *ast.AssignStmt:
			for _, l := range x.Lhs {
				if id, ok := ast.Unparen(l).(*ast.Ident); ok && results[b.info.Uses[id]] {
					found = true
				}
			}
		}
		return true
	})
	return found
}

func (b *Builder) zeroOf(t types.Type) *Term {
	if t == nil {
		return tZero
	}
	switch u := t.Underlying().(type) {
	case *types.Pointer, *types.Slice, *types.Map, *types.Chan, *types.Signature, *types.Interface:
		return tNil
	case *types.Basic:
		switch {
		case u.Info()&types.IsBoolean != 0:
			return tFalse
		case u.Info()&types.IsNumeric != 0:
			return konst("0")
		case u.Info()&types.IsString != 0:
			return konst(`""`)
		}
	case *types.Struct:
		return &Term{Op: "struct", Name: b.P.typeStr(t), Args: []*Term{tZero}}
	}
	return tZero
}

func (b *Builder) assignStmt(s *ast.AssignStmt) {
	define := s.Tok == token.DEFINE
	if s.Tok != token.ASSIGN && s.Tok != token.DEFINE {
		// op-assign
		op := s.Tok.String()
		op = op[:len(op)-1]
		x := b.expr(s.Lhs[0])
		y := b.expr(s.Rhs[0])
		b.assignTo(s.Lhs[0], mk("bin", op, x, y), false, s.Pos())
		return
	}
	if len(s.Rhs) == 1 && len(s.Lhs) > 1 {
		ts := b.multi(s.Rhs[0], len(s.Lhs))
		b.assignMany(s.Lhs, ts, define, s.Pos())
		return
	}
	var ts []*Term
	for _, e := range s.Rhs {
		ts = append(ts, b.expr(e))
	}
	b.assignMany(s.Lhs, ts, define, s.Pos())
}

func (b *Builder) assignMany(lhs []ast.Expr, ts []*Term, define bool, pos token.Pos) {
	if len(lhs) == 1 {
		b.assignTo(lhs[0], ts[0], define, pos)
		return
	}
	// parallel assignment: route through temps when a later rhs could read an earlier lhs
	allIdent := true
	for _, l := range lhs {
		if _, ok := l.(*ast.Ident); !ok {
			allIdent = false
		}
	}
	if allIdent {
		n := b.newNode(NAssign, pos)
		for i, l := range lhs {
			id := l.(*ast.Ident)
			if id.Name == "_" {
				continue
			}
			v := b.lhsVar(id, define)
			if v == nil {
				// package-level variable: separate store
				continue
			}
			n.Dst = append(n.Dst, v)
			n.Src = append(n.Src, ts[i])
		}
		b.emit(n)
		for i, l := range lhs {
			id := l.(*ast.Ident)
			if id.Name != "_" && b.lhsVar(id, define) == nil {
				b.assignTo(l, ts[i], define, pos)
			}
		}
		return
	}
	for i, l := range lhs {
		b.assignTo(l, ts[i], define, pos)
	}
}

// lhsVar returns the local variable slot for an identifier on the left of an
// assignment, or nil for a package-level variable.
func (b *Builder) lhsVar(id *ast.Ident, define bool) *Var {
	if define {
		if obj := b.info.Defs[id]; obj != nil {
			return b.declVar(obj)
		}
	}
	obj := b.info.Uses[id]
	if obj == nil {
		obj = b.info.Defs[id]
	}
	if v, ok := obj.(*types.Var); ok {
		if v.Pkg() != nil && v.Parent() == v.Pkg().Scope() {
			return nil
		}
		return b.useVar(v)
	}
	return b.tempVar(id.Name, nil)
}

func (b *Builder) assignTo(lhs ast.Expr, t *Term, define bool, pos token.Pos) {
	lhs = ast.Unparen(lhs)
	switch l := lhs.(type) {
	case *ast.Ident:
		if l.Name == "_" {
			b.flush(pos)
			return
		}
		v := b.lhsVar(l, define)
		if v == nil {
			n := b.newNode(NStore, pos)
			n.Target = b.expr(l)
			n.Value = t
			b.emit(n)
			return
		}
		b.assignVar(v, t, pos)
	case *ast.SelectorExpr, *ast.IndexExpr, *ast.StarExpr:
		n := b.newNode(NStore, pos)
		n.Target = b.expr(lhs)
		n.Value = t
		b.emit(n)
	default:
		b.unsupported(pos, fmt.Sprintf("assignment target %T", lhs))
	}
}

func (b *Builder) returnStmt(s *ast.ReturnStmt) {
	var ts []*Term
	nres := 0
	if b.inst.Fn != nil {
		nres = b.inst.Fn.Type().(*types.Signature).Results().Len()
	} else {
		nres = len(b.inst.Results)
	}
	if len(s.Results) == 0 && nres > 0 {
		// a bare return of a function with named results returns their current values
		ts = b.namedResults()
	} else if len(s.Results) == 1 && nres > 1 {
		ts = b.multi(s.Results[0], nres)
	} else {
		for _, e := range s.Results {
			ts = append(ts, b.expr(e))
		}
	}
	if len(b.inst.resultDefers) > 0 {
		if named := b.namedResultVars(); named != nil && len(named) == len(ts) {
			if len(s.Results) > 0 {
				n := b.newNode(NAssign, s.Pos())
				n.Note = "results"
				for i, v := range named {
					if v != nil && ts[i] != nil {
						n.Dst = append(n.Dst, v)
						n.Src = append(n.Src, ts[i])
					}
				}
				b.emit(n)
			}
			for i := len(b.inst.resultDefers) - 1; i >= 0; i-- {
				b.inlineLit(b.inst.resultDefers[i], nil, s.Pos(), 0)
			}
			for i, v := range named {
				if v != nil {
					ts[i] = varTerm(v)
				}
			}
		}
	}
	if b.inst.Parent == nil {
		// a returned error of unknown nil-ness is split into its two cases, so
		// that "returns nil error" is an edge like any other test
		if b.inst.Fn != nil {
			res := b.inst.Fn.Type().(*types.Signature).Results()
			for i := 0; i < res.Len() && i < len(ts); i++ {
				if !isErrorType(res.At(i).Type()) || ts[i] == nil || ts[i].isConst() {
					continue
				}
				rv := b.tempVar("rerr", res.At(i).Type())
				b.assignVar(rv, ts[i], s.Pos())
				ts[i] = varTerm(rv)
				join := b.label()
				br := b.newNode(NBranch, s.Pos())
				br.Cond = mk("bin", "==", varTerm(rv), tNil)
				br.Note = "retsplit"
				b.emit(br)
				br.Succ = []*Node{join, join}
				b.start(join)
			}
		}
		n := b.newNode(NReturn, s.Pos())
		n.Results = ts
		b.emit(n)
		n.Succ = []*Node{b.G.Exit}
		b.cur = nil
		return
	}
	if len(ts) > 0 && len(ts) == len(b.inst.Results) {
		n := b.newNode(NAssign, s.Pos())
		n.Note = "ret"
		n.Dst = append(n.Dst, b.inst.Results...)
		n.Src = ts
		b.emit(n)
	} else {
		n := b.newNode(NNop, s.Pos())
		n.Note = "ret"
		b.emit(n)
	}
	b.jump(b.inst.exit)
}

func isErrorType(t types.Type) bool {
	n, ok := t.(*types.Named)
	return ok && n.Obj().Pkg() == nil && n.Obj().Name() == "error"
}

func (b *Builder) rangeStmt(s *ast.RangeStmt) {
	// a local list grown by append in earlier loops has one term per history
	// (empty, last grown by this loop, by that loop); ranging over it is one
	// loop all the same: the operand is named after the variable
	if id, ok := ast.Unparen(s.X).(*ast.Ident); ok {
		if o, ok := b.info.Uses[id].(*types.Var); ok && !isPkgLevel(o) && !o.IsField() && b.grownInLoop(o) {
			b.expr(s.X)
			b.rangeStmtX(s, &Term{Op: "opaque", Name: "?grown:" + o.Name(), Pos: s.X.Pos()})
			return
		}
	}
	b.rangeStmtX(s, b.expr(s.X))
}

var grownCache = map[types.Object]bool{}

// grownInLoop: the local slice variable is assigned append(itself, ...) inside
// a loop of the function that declares it.
func (b *Builder) grownInLoop(o *types.Var) bool {
	if r, ok := grownCache[o]; ok {
		return r
	}
	res := false
	if _, isSlice := o.Type().Underlying().(*types.Slice); isSlice && o.Pkg() != nil {
		if pk := b.P.All[o.Pkg().Path()]; pk != nil {
			for _, f := range pk.Syntax {
				if o.Pos() < f.Pos() || o.Pos() >= f.End() {
					continue
				}
				var loops []ast.Node
				ast.Inspect(f, func(n ast.Node) bool {
					switch x := n.(type) {
					case *ast.ForStmt, *ast.RangeStmt:
						loops = append(loops, x)
					case *ast.AssignStmt:
						if len(x.Lhs) != 1 || len(x.Rhs) != 1 {
							return true
						}
						lid, ok := ast.Unparen(x.Lhs[0]).(*ast.Ident)
						if !ok || (pk.TypesInfo.Uses[lid] != o && pk.TypesInfo.Defs[lid] != o) {
							return true
						}
						call, ok := ast.Unparen(x.Rhs[0]).(*ast.CallExpr)
						if !ok || len(call.Args) < 2 {
							return true
						}
						if fid, ok := call.Fun.(*ast.Ident); !ok || fid.Name != "append" {
							return true
						}
						if aid, ok := ast.Unparen(call.Args[0]).(*ast.Ident); !ok || pk.TypesInfo.Uses[aid] != o {
							return true
						}
						for _, l := range loops {
							if l.Pos() <= x.Pos() && x.End() <= l.End() {
								res = true
							}
						}
						// a list of lists extended under a condition (one more list if there is one) has
						// one term per path all the same
						if sl, ok := o.Type().Underlying().(*types.Slice); ok {
							switch types.Unalias(sl.Elem()).Underlying().(type) {
							case *types.Slice:
								res = true
							}
						}
					}
					return true
				})
			}
		}
	}
	grownCache[o] = res
	return res
}

// isLastIterCmp: e compares the key of a range loop `for i, _ := range Y` (Y a plain variable)
// with len(Y)-1. Returns the key's object.
func (b *Builder) isLastIterCmp(e *ast.BinaryExpr) (types.Object, bool) {
	for _, pr := range [][2]ast.Expr{{e.X, e.Y}, {e.Y, e.X}} {
		id, ok := ast.Unparen(pr[0]).(*ast.Ident)
		if !ok {
			continue
		}
		obj := b.info.Uses[id]
		if obj == nil {
			continue
		}
		sub, ok := ast.Unparen(pr[1]).(*ast.BinaryExpr)
		if !ok || sub.Op != token.SUB {
			continue
		}
		if tv, ok := b.info.Types[sub.Y]; !ok || tv.Value == nil || tv.Value.ExactString() != "1" {
			continue
		}
		call, ok := ast.Unparen(sub.X).(*ast.CallExpr)
		if !ok || len(call.Args) != 1 {
			continue
		}
		if fid, ok := call.Fun.(*ast.Ident); !ok || fid.Name != "len" {
			continue
		} else if _, isB := b.info.Uses[fid].(*types.Builtin); !isB {
			continue
		}
		yid, ok := ast.Unparen(call.Args[0]).(*ast.Ident)
		if !ok {
			continue
		}
		if want, ok := b.lastIterOf[obj]; ok && b.info.Uses[yid] == want {
			return obj, true
		}
		if b.lastIterProbe != nil && obj == b.lastIterProbe[0] && b.info.Uses[yid] == b.lastIterProbe[1] {
			return obj, true
		}
	}
	return nil, false
}

// lastIterTest: `for i, x := range Y` over a local slice variable Y that the body does not assign,
// whose body compares i with len(Y)-1 and assigns neither i nor x: the loop over the whole list
// with a special case for the last element, which is the loop over Y[:len(Y)-1] followed by the
// body for the last element.
func (b *Builder) lastIterTest(s *ast.RangeStmt) bool {
	if s.Tok != token.DEFINE || s.Key == nil {
		return false
	}
	kid, ok := s.Key.(*ast.Ident)
	if !ok || kid.Name == "_" {
		return false
	}
	yid, ok := ast.Unparen(s.X).(*ast.Ident)
	if !ok {
		return false
	}
	yobj, ok := b.info.Uses[yid].(*types.Var)
	if !ok || isPkgLevel(yobj) {
		return false
	}
	if _, isSlice := yobj.Type().Underlying().(*types.Slice); !isSlice {
		return false
	}
	kobj := b.info.Defs[kid]
	if kobj == nil {
		return false
	}
	var vobj types.Object
	if vid, ok := s.Value.(*ast.Ident); ok && vid.Name != "_" {
		vobj = b.info.Defs[vid]
	}
	// only launch loops (a go statement in the body): the fan-out rules are phrased over the loop
	// over the elements that get a goroutine; the chain walks of C03/C14, which also single out
	// the last element, have their own two forms
	found, bad, launches := false, false, false
	b.lastIterProbe = &[2]types.Object{kobj, yobj}
	ast.Inspect(s.Body, func(n ast.Node) bool {
		switch x := n.(type) {
		case *ast.GoStmt:
			launches = true
		case *ast.BinaryExpr:
			if x.Op == token.EQL || x.Op == token.NEQ {
				if _, ok := b.isLastIterCmp(x); ok {
					found = true
				}
			}
		case *ast.AssignStmt:
			for _, l := range x.Lhs {
				if id, ok := ast.Unparen(l).(*ast.Ident); ok {
					if o := b.info.Uses[id]; o != nil && (o == kobj || o == yobj || (vobj != nil && o == vobj)) {
						bad = true
					}
				}
			}
		case *ast.IncDecStmt:
			if id, ok := ast.Unparen(x.X).(*ast.Ident); ok {
				if o := b.info.Uses[id]; o != nil && (o == kobj || (vobj != nil && o == vobj)) {
					bad = true
				}
			}
		case *ast.UnaryExpr:
			if x.Op == token.AND {
				if id, ok := ast.Unparen(x.X).(*ast.Ident); ok {
					if o := b.info.Uses[id]; o != nil && (o == kobj || o == yobj) {
						bad = true
					}
				}
			}
		}
		return true
	})
	b.lastIterProbe = nil
	return found && launches && !bad
}

func (b *Builder) peelLastIteration(s *ast.RangeStmt) {
	kid := s.Key.(*ast.Ident)
	kobj := b.info.Defs[kid]
	yobj := b.info.Uses[ast.Unparen(s.X).(*ast.Ident)]
	if b.lastIter == nil {
		b.lastIter, b.lastIterOf = map[types.Object]bool{}, map[types.Object]types.Object{}
	}
	b.lastIterOf[kobj] = yobj
	y := b.expr(s.X)
	last := mk("bin", "-", mk("call", "len", y), konst("1"))
	// every element but the last
	b.lastIter[kobj] = false
	b.rangeStmtX(s, mk("slice", "", y, nil, last))
	// the last element, if there is one
	b.lastIter[kobj] = true
	run, done := b.label(), b.label()
	n := b.newNode(NBranch, s.Pos())
	n.Cond = mk("bin", "!=", mk("call", "len", y), konst("0"))
	n.Note = "peeled last iteration"
	b.emit(n)
	n.Succ = []*Node{run, done}
	b.cur = nil
	b.start(run)
	b.assignVar(b.lhsVar(kid, true), last, s.Pos())
	if vid, ok := s.Value.(*ast.Ident); ok && vid.Name != "_" {
		b.assignVar(b.lhsVar(vid, true), mk("index", "", y, last), s.Pos())
	}
	b.loops = append(b.loops, loopCtx{brk: done, cont: done, label: b.takeLabel()})
	b.stmt(s.Body)
	b.jump(done)
	b.loops = b.loops[:len(b.loops)-1]
	b.start(done)
	delete(b.lastIter, kobj)
	delete(b.lastIterOf, kobj)
}

// rangeStmtX: the range loop s over the collection term x.
func (b *Builder) rangeStmtX(s *ast.RangeStmt, x *Term) {
	xt := b.tempVar("rng", nil)
	b.assignVar(xt, x, s.Pos())
	isFunc := false
	if tv, ok := b.info.Types[s.X]; ok {
		if _, ok := tv.Type.Underlying().(*types.Signature); ok {
			isFunc = true
		}
	}
	getVar := func(e ast.Expr) *Var {
		if e == nil {
			return nil
		}
		id, ok := ast.Unparen(e).(*ast.Ident)
		if !ok {
			b.unsupported(e.Pos(), "range variable is not an identifier")
			return nil
		}
		if id.Name == "_" {
			return nil
		}
		return b.lhsVar(id, s.Tok == token.DEFINE)
	}
	kv, vv := getVar(s.Key), getVar(s.Value)
	if isFunc && s.Value == nil {
		// single-variable range over func: the variable is the yielded element
		kv, vv = nil, kv
	}
	b.loopSeq++
	h1 := b.newNode(NRange, s.Pos())
	h2 := b.newNode(NRange, s.Pos())
	iv := b.tempVar("ridx", nil)
	iv.Pinned = true
	iv.Captured = true
	for _, h := range []*Node{h1, h2} {
		h.X = varTerm(xt)
		h.KeyVar, h.ValVar = kv, vv
		h.LoopID = b.loopSeq
		h.IdxVar = iv
	}
	h1.First = true
	h1.Twin, h2.Twin = h2, h1
	body, done := b.label(), b.label()
	b.emit(h1)
	h1.Succ = []*Node{body, done}
	h2.Succ = []*Node{body, done}
	b.loops = append(b.loops, loopCtx{brk: done, cont: h2, label: b.takeLabel(), loopID: b.loopSeq})
	b.start(body)
	b.stmt(s.Body)
	b.jump(h2)
	b.loops = b.loops[:len(b.loops)-1]
	b.start(done)
}

func (b *Builder) switchStmt(s *ast.SwitchStmt) {
	b.stmt(s.Init)
	var tag *Term
	if s.Tag != nil {
		tv := b.tempVar("tag", nil)
		b.assignVar(tv, b.expr(s.Tag), s.Tag.Pos())
		tag = varTerm(tv)
	}
	done := b.label()
	b.loops = append(b.loops, loopCtx{brk: done, label: b.takeLabel()})
	type clause struct {
		l  *Node
		cc *ast.CaseClause
	}
	var clauses []clause
	var def *clause
	for _, c := range s.Body.List {
		cc := c.(*ast.CaseClause)
		cl := clause{l: b.label(), cc: cc}
		if cc.List == nil {
			d := cl
			def = &d
			clauses = append(clauses, cl)
			continue
		}
		for _, e := range cc.List {
			nxt := b.label()
			if tag != nil {
				y := b.expr(e)
				n := b.newNode(NBranch, e.Pos())
				n.Cond = mk("bin", "==", tag, y)
				b.emit(n)
				n.Succ = []*Node{cl.l, nxt}
				b.cur = nil
			} else {
				b.cond(e, cl.l, nxt)
			}
			b.start(nxt)
		}
		clauses = append(clauses, cl)
	}
	if def != nil {
		b.jump(def.l)
	} else {
		b.jump(done)
	}
	for _, cl := range clauses {
		b.start(cl.l)
		for _, st := range cl.cc.Body {
			if br, ok := st.(*ast.BranchStmt); ok && br.Tok == token.FALLTHROUGH {
				b.unsupported(br.Pos(), "fallthrough")
				continue
			}
			b.stmt(st)
		}
		b.jump(done)
	}
	b.loops = b.loops[:len(b.loops)-1]
	b.start(done)
}

func (b *Builder) typeSwitchStmt(s *ast.TypeSwitchStmt) {
	b.stmt(s.Init)
	var xe ast.Expr
	switch a := s.Assign.(type) {
	case *ast.AssignStmt:
		xe = a.Rhs[0].(*ast.TypeAssertExpr).X
	case *ast.ExprStmt:
		xe = a.X.(*ast.TypeAssertExpr).X
	}
	xv := b.tempVar("tsw", nil)
	b.assignVar(xv, b.expr(xe), s.Pos())
	x := varTerm(xv)
	done := b.label()
	b.loops = append(b.loops, loopCtx{brk: done, label: b.takeLabel()})
	type clause struct {
		l  *Node
		cc *ast.CaseClause
	}
	var clauses []clause
	var def *clause
	for _, c := range s.Body.List {
		cc := c.(*ast.CaseClause)
		cl := clause{l: b.label(), cc: cc}
		if cc.List == nil {
			d := cl
			def = &d
			clauses = append(clauses, cl)
			continue
		}
		for _, e := range cc.List {
			nxt := b.label()
			n := b.newNode(NBranch, e.Pos())
			if tv, ok := b.info.Types[e]; ok && tv.IsNil() {
				n.Cond = mk("bin", "==", x, tNil)
			} else {
				n.Cond = &Term{Op: "typeis", Name: b.P.typeStr(b.info.TypeOf(e)), Args: []*Term{x}}
				if types.IsInterface(b.info.TypeOf(e)) {
					n.Cond.Fields = []string{"iface"}
				}
			}
			b.emit(n)
			n.Succ = []*Node{cl.l, nxt}
			b.start(nxt)
		}
		clauses = append(clauses, cl)
	}
	if def != nil {
		b.jump(def.l)
	} else {
		b.jump(done)
	}
	for _, cl := range clauses {
		b.start(cl.l)
		if obj := b.info.Implicits[cl.cc]; obj != nil {
			b.assignVar(b.declVar(obj), x, cl.cc.Pos())
		}
		b.stmts(cl.cc.Body)
		b.jump(done)
	}
	b.loops = b.loops[:len(b.loops)-1]
	b.start(done)
}

// cond lowers a boolean expression into branches with atomic conditions.
func (b *Builder) cond(e ast.Expr, t, f *Node) {
	e = ast.Unparen(e)
	if be, ok := e.(*ast.BinaryExpr); ok && len(b.lastIter) > 0 && (be.Op == token.EQL || be.Op == token.NEQ) {
		if obj, ok := b.isLastIterCmp(be); ok {
			if inLast, known := b.lastIter[obj]; known {
				if inLast == (be.Op == token.EQL) {
					b.jump(t)
				} else {
					b.jump(f)
				}
				return
			}
		}
	}
	if tv, ok := b.info.Types[e]; ok && tv.Value != nil && tv.Value.Kind() == constant.Bool {
		if constant.BoolVal(tv.Value) {
			b.jump(t)
		} else {
			b.jump(f)
		}
		return
	}
	switch x := e.(type) {
	case *ast.CallExpr:
		// slices.Equal(a, []T{c0, ..}) against a literal of a few constants is the length test
		// and the element tests written out
		if a, elts := b.sliceEqualLiteral(x); a != nil {
			at := b.expr(a)
			conds := []*Term{mk("bin", "==", mk("call", "len", at), konst(strconv.Itoa(len(elts))))}
			for i, el := range elts {
				conds = append(conds, mk("bin", "==", mk("index", "", at, konst(strconv.Itoa(i))), b.expr(el)))
			}
			for i, ct := range conds {
				n := b.newNode(NBranch, x.Pos())
				n.Cond = ct
				b.emit(n)
				next := t
				if i < len(conds)-1 {
					next = b.label()
				}
				n.Succ = []*Node{next, f}
				b.cur = nil
				if i < len(conds)-1 {
					b.start(next)
				}
			}
			return
		}
	case *ast.BinaryExpr:
		switch x.Op {
		case token.LAND:
			mid := b.label()
			b.cond(x.X, mid, f)
			b.start(mid)
			b.cond(x.Y, t, f)
			return
		case token.LOR:
			mid := b.label()
			b.cond(x.X, t, mid)
			b.start(mid)
			b.cond(x.Y, t, f)
			return
		}
	case *ast.UnaryExpr:
		if x.Op == token.NOT {
			b.cond(x.X, f, t)
			return
		}
	}
	term := b.leaf(e)
	n := b.newNode(NBranch, e.Pos())
	n.Cond = term
	b.emit(n)
	n.Succ = []*Node{t, f}
	b.cur = nil
}

// sliceEqualLiteral: call is slices.Equal with exactly one operand a composite literal of one to
// four constant elements; returns the other operand and the elements.
func (b *Builder) sliceEqualLiteral(call *ast.CallExpr) (ast.Expr, []ast.Expr) {
	fn, _ := typeutil.Callee(b.info, call).(*types.Func)
	if fn == nil || fn.Pkg() == nil || fn.Pkg().Path() != "slices" || fn.Name() != "Equal" || len(call.Args) != 2 {
		return nil, nil
	}
	for i := 0; i < 2; i++ {
		cl, ok := ast.Unparen(call.Args[i]).(*ast.CompositeLit)
		if !ok || len(cl.Elts) == 0 || len(cl.Elts) > 4 {
			continue
		}
		if _, other := ast.Unparen(call.Args[1-i]).(*ast.CompositeLit); other {
			return nil, nil
		}
		allConst := true
		for _, el := range cl.Elts {
			if _, kv := el.(*ast.KeyValueExpr); kv {
				allConst = false
				break
			}
			if tv, ok := b.info.Types[el]; !ok || tv.Value == nil {
				allConst = false
			}
		}
		if allConst {
			return call.Args[1-i], cl.Elts
		}
	}
	return nil, nil
}

// leaf evaluates an atomic condition without lowering a top-level comparison.
func (b *Builder) leaf(e ast.Expr) *Term {
	e = ast.Unparen(e)
	if x, ok := e.(*ast.BinaryExpr); ok {
		switch x.Op {
		case token.EQL, token.NEQ, token.LSS, token.LEQ, token.GTR, token.GEQ:
			// a lookup in one of the rule-owned constant tables compared with a constant is a
			// test on the key (the rows with that value), whatever form the rules keep the table in
			if x.Op == token.EQL || x.Op == token.NEQ {
				lk := func(a, c ast.Expr) *Term {
					ix, ok := ast.Unparen(a).(*ast.IndexExpr)
					if !ok {
						return nil
					}
					if tv, ok := b.info.Types[c]; !ok || tv.Value == nil {
						return nil
					}
					b.forceMapChain, b.forceMapValue = true, constTerm(b.info.Types[c].Value)
					ts := b.constScalarMapLookup(ix, false)
					b.forceMapChain, b.forceMapValue = false, nil
					if len(ts) == 0 {
						return nil
					}
					return ts[0]
				}
				if l := lk(x.X, x.Y); l != nil {
					return mk("bin", x.Op.String(), l, b.expr(x.Y))
				}
				if r := lk(x.Y, x.X); r != nil {
					return mk("bin", x.Op.String(), b.expr(x.X), r)
				}
			}
			l := b.expr(x.X)
			r := b.expr(x.Y)
			return mk("bin", x.Op.String(), l, r)
		}
	}
	return b.expr(e)
}

// ---------------------------------------------------------------------------
// inlining

func (b *Builder) onStack(fn *types.Func) bool {
	for _, f := range b.stack {
		if f == fn {
			return true
		}
	}
	return false
}

func (b *Builder) inlineFunc(fs *FuncSrc, recv *Term, args []*Term, pos token.Pos) []*Term {
	sig := fs.Obj.Type().(*types.Signature)
	inst := &Instance{ID: len(b.G.Insts), Name: b.P.abbrev(fs.Obj.FullName()), Fn: fs.Obj, Parent: b.inst, Depth: b.inst.Depth + 1, CallPos: pos, Args: args}
	b.G.Insts = append(b.G.Insts, inst)
	saveInst, saveInfo, saveLoops := b.inst, b.info, b.loops
	b.inst, b.info, b.loops = inst, fs.Pkg.TypesInfo, nil
	b.stack = append(b.stack, fs.Obj)
	inst.exit = b.label()
	for i := 0; i < sig.Results().Len(); i++ {
		inst.Results = append(inst.Results, b.tempVar("ret"+strconv.Itoa(i), sig.Results().At(i).Type()))
	}
	n := b.newNode(NAssign, pos)
	n.Note = "enter " + inst.Name
	if fs.Decl.Recv != nil && len(fs.Decl.Recv.List) > 0 && recv != nil {
		if names := fs.Decl.Recv.List[0].Names; len(names) > 0 && names[0].Name != "_" {
			n.Dst = append(n.Dst, b.declVar(b.info.Defs[names[0]]))
			n.Src = append(n.Src, recv)
		}
	}
	idx := 0
	for _, f := range fs.Decl.Type.Params.List {
		names := f.Names
		if len(names) == 0 {
			idx++
			continue
		}
		for _, nm := range names {
			if nm.Name != "_" && idx < len(args) {
				n.Dst = append(n.Dst, b.declVar(b.info.Defs[nm]))
				n.Src = append(n.Src, args[idx])
			}
			idx++
		}
	}
	b.emit(n)
	b.initNamedResults(fs.Decl.Type)
	b.stmt(fs.Decl.Body)
	b.jump(inst.exit)
	b.start(inst.exit)
	m := b.newNode(NNop, pos)
	m.Note = "leave " + inst.Name
	b.emit(m)
	b.stack = b.stack[:len(b.stack)-1]
	var out []*Term
	for _, r := range inst.Results {
		out = append(out, varTerm(r))
	}
	b.inst, b.info, b.loops = saveInst, saveInfo, saveLoops
	m.Inst = saveInst
	return out
}

func (b *Builder) inlineLit(lit *ast.FuncLit, args []*Term, pos token.Pos, nres int) []*Term {
	inst := &Instance{ID: len(b.G.Insts), Name: "lit", Parent: b.inst, Lexical: b.inst, Depth: b.inst.Depth, CallPos: pos, Lit: lit}
	// a literal handed to another function (slices.IndexFunc(xs, func..)) and called from there:
	// its free variables and its type information are those of the place that wrote it
	saveInfo := b.info
	if nm, ok := b.litBindName[lit]; ok {
		if li := b.G.Lits[nm]; li != nil && li.Inst != nil && li.Info != nil {
			inst.Lexical = li.Inst
			b.info = li.Info
		}
	}
	defer func() { b.info = saveInfo }()
	b.G.Insts = append(b.G.Insts, inst)
	saveInst, saveLoops := b.inst, b.loops
	b.inst, b.loops = inst, nil
	inst.exit = b.label()
	if lit.Type.Results != nil {
		for _, f := range lit.Type.Results.List {
			k := len(f.Names)
			if k == 0 {
				k = 1
			}
			for i := 0; i < k; i++ {
				inst.Results = append(inst.Results, b.tempVar("ret", nil))
			}
		}
	}
	n := b.newNode(NAssign, pos)
	n.Note = "enter lit"
	idx := 0
	for _, f := range lit.Type.Params.List {
		for _, nm := range f.Names {
			if nm.Name != "_" && idx < len(args) {
				n.Dst = append(n.Dst, b.declVar(b.info.Defs[nm]))
				n.Src = append(n.Src, args[idx])
			}
			idx++
		}
	}
	b.emit(n)
	b.initNamedResults(lit.Type)
	b.stmt(lit.Body)
	b.jump(inst.exit)
	b.start(inst.exit)
	var out []*Term
	for _, r := range inst.Results {
		out = append(out, varTerm(r))
	}
	b.inst, b.loops = saveInst, saveLoops
	return out
}

// markCaptured pins the enclosing function's variables used by a literal that
// is not spliced in; those it assigns become volatile (unknown at every read).
func (b *Builder) markCaptured(lit *ast.FuncLit) {
	assigned := map[types.Object]bool{}
	ast.Inspect(lit.Body, func(n ast.Node) bool {
		switch x := n.(type) {
		case *ast.AssignStmt:
			for _, l := range x.Lhs {
				if id, ok := ast.Unparen(l).(*ast.Ident); ok {
					if o := b.info.Uses[id]; o != nil {
						assigned[o] = true
					}
				}
			}
		case *ast.IncDecStmt:
			if id, ok := ast.Unparen(x.X).(*ast.Ident); ok {
				if o := b.info.Uses[id]; o != nil {
					assigned[o] = true
				}
			}
		case *ast.UnaryExpr:
			if x.Op == token.AND {
				if id, ok := ast.Unparen(x.X).(*ast.Ident); ok {
					if o := b.info.Uses[id]; o != nil {
						assigned[o] = true
					}
				}
			}
		}
		return true
	})
	ast.Inspect(lit.Body, func(n ast.Node) bool {
		id, ok := n.(*ast.Ident)
		if !ok {
			return true
		}
		o, ok := b.info.Uses[id].(*types.Var)
		if !ok || o.IsField() || (o.Pkg() != nil && o.Parent() == o.Pkg().Scope()) {
			return true
		}
		if o.Pos() >= lit.Pos() && o.Pos() <= lit.End() {
			return true // declared inside the literal
		}
		v := b.useVar(o)
		v.Pinned = true
		v.Captured = true
		if assigned[o] {
			v.Name = "vol:" + v.Name
		}
		return true
	})
}

func isVolatile(v *Var) bool { return len(v.Name) > 4 && v.Name[:4] == "vol:" }

// staticCallee resolves the callee object of a call (nil for dynamic calls).
func (b *Builder) staticCallee(call *ast.CallExpr) types.Object {
	if id, ok := ast.Unparen(call.Fun).(*ast.Ident); ok && b.fnBind != nil {
		if fn := b.fnBind[b.info.Uses[id]]; fn != nil {
			return fn
		}
	}
	return typeutil.Callee(b.info, call)
}

// funcTable: the range is over a table of package-level functions - a composite
// literal, or a local defined once as one and only read. Returns the functions
// in order.
func (b *Builder) funcTable(s *ast.RangeStmt) []*types.Func {
	if s.Value == nil || s.Tok != token.DEFINE {
		return nil
	}
	if s.Key != nil {
		if id, ok := s.Key.(*ast.Ident); !ok || id.Name != "_" {
			return nil
		}
	}
	x := ast.Unparen(s.X)
	pkgInfo := b.info
	if id, ok := x.(*ast.Ident); ok {
		if v, isVar := b.info.Uses[id].(*types.Var); isVar && isPkgLevel(v) {
			// a never-written package-level table of functions of the same package
			pk := b.P.All[v.Pkg().Path()]
			if pk == nil || pk.TypesInfo != b.info || !b.P.neverWritten(v) {
				return nil
			}
			init := findInit(pk.Syntax, pk.TypesInfo, v)
			if init == nil {
				return nil
			}
			x = ast.Unparen(init)
			id = nil
		}
		_ = pkgInfo
		if id == nil {
			goto table
		}
		v, isVar := b.info.Uses[id].(*types.Var)
		if !isVar || isPkgLevel(v) || b.inst.Fn == nil {
			return nil
		}
		fs := b.P.Funcs[b.inst.Fn.Origin()]
		if fs == nil {
			return nil
		}
		var def ast.Expr
		ndef, bad := 0, false
		ast.Inspect(fs.Decl.Body, func(m ast.Node) bool {
			switch y := m.(type) {
			case *ast.AssignStmt:
				for i, l := range y.Lhs {
					if lid := rootIdent(l); lid != nil && (b.info.Defs[lid] == v || b.info.Uses[lid] == v) {
						if _, plain := l.(*ast.Ident); !plain || len(y.Rhs) != len(y.Lhs) {
							bad = true
							continue
						}
						ndef++
						def = y.Rhs[i]
					}
				}
			case *ast.ValueSpec:
				for i, nm := range y.Names {
					if b.info.Defs[nm] == v {
						ndef++
						if i < len(y.Values) {
							def = y.Values[i]
						}
					}
				}
			case *ast.UnaryExpr:
				if lid := rootIdent(y.X); y.Op == token.AND && lid != nil && b.info.Uses[lid] == v {
					bad = true
				}
			}
			return true
		})
		if ndef != 1 || bad || def == nil {
			return nil
		}
		x = ast.Unparen(def)
	}
table:
	cl, ok := x.(*ast.CompositeLit)
	if !ok || len(cl.Elts) == 0 {
		return nil
	}
	var out []*types.Func
	for _, e := range cl.Elts {
		var obj types.Object
		switch y := ast.Unparen(e).(type) {
		case *ast.Ident:
			obj = b.info.Uses[y]
		case *ast.SelectorExpr:
			if _, isSel := b.info.Selections[y]; !isSel {
				obj = b.info.Uses[y.Sel]
			}
		}
		fn, ok := obj.(*types.Func)
		if !ok || fn.Type().(*types.Signature).Recv() != nil {
			return nil
		}
		out = append(out, fn)
	}
	return out
}

// unrollFuncTable builds `for _, f := range table { body }` as one copy of the
// body per table row, with calls through f resolved to that row's function.
func (b *Builder) unrollFuncTable(s *ast.RangeStmt, fns []*types.Func) {
	id := s.Value.(*ast.Ident)
	obj := b.info.Defs[id]
	if b.fnBind == nil {
		b.fnBind = map[types.Object]*types.Func{}
	}
	done := b.label()
	for _, fn := range fns {
		next := b.label()
		if id.Name != "_" {
			v := b.lhsVar(id, true)
			b.assignVar(v, &Term{Op: "fn", Name: b.P.abbrev(fn.FullName())}, s.Pos())
		}
		b.fnBind[obj] = fn
		b.loops = append(b.loops, loopCtx{brk: done, cont: next, label: b.takeLabel()})
		b.stmt(s.Body)
		b.loops = b.loops[:len(b.loops)-1]
		b.jump(next)
		b.start(next)
	}
	delete(b.fnBind, obj)
	b.jump(done)
	b.start(done)
}

// counterAsRange: `for i := 0; i < len(Y); i++ { body }` where the body assigns
// neither i nor the root of Y is the range loop `for i := range Y { body }`.
func (b *Builder) counterAsRange(s *ast.ForStmt) (*ast.RangeStmt, bool) {
	as, ok := s.Init.(*ast.AssignStmt)
	if !ok || as.Tok != token.DEFINE || len(as.Lhs) != 1 || len(as.Rhs) != 1 {
		return nil, false
	}
	id, ok := as.Lhs[0].(*ast.Ident)
	if !ok {
		return nil, false
	}
	if tv := b.info.Types[as.Rhs[0]]; tv.Value == nil || tv.Value.String() != "0" {
		return nil, false
	}
	post, ok := s.Post.(*ast.IncDecStmt)
	if !ok || post.Tok != token.INC {
		return nil, false
	}
	butLast := false
	y := b.P.counterLoopBound(b.info.Defs[id])
	if y == nil {
		if y = b.P.counterLoopButLast(b.info.Defs[id]); y == nil {
			return nil, false
		}
		butLast = true
	}
	switch b.info.TypeOf(y).Underlying().(type) {
	case *types.Slice, *types.Array:
	default:
		return nil, false
	}
	return &ast.RangeStmt{For: s.For, Key: id, Tok: token.DEFINE, X: y, Body: s.Body}, butLast
}

func (b *Builder) takeLabel() string {
	l := b.nextLabel
	b.nextLabel = ""
	return l
}
