package main

// C20: typestate of an envelope object (wrapper Raw + inner message).

import (
	"go/ast"
	"go/types"
	"sort"
	"strings"
)

// formats: the two inner envelope types, discovered from the exported
// NewEnvelope constructors.
type format struct {
	name, pkg, typ string // typ: e.g. "*ncg/signature/jws.envelope"
}

func discoverFormats(c *Check) []format {
	var out []format
	for _, f := range []struct{ name, pkg string }{{"JWS", "ncg/signature/jws"}, {"COSE", "ncg/signature/cose"}} {
		pg := c.pgOf(f.pkg + ".NewEnvelope")
		if pg == nil {
			continue
		}
		typ := ""
		fresh := true
		for _, s := range pg.Returns() {
			t := s.Ret[0].T
			if t.Op == "addr" && t.Args[0].Op == "struct" && t.Args[0].Name == "ncg/signature/internal/base.Envelope" {
				in := structGet(t.Args[0], "Envelope")
				if dt, ok := dynType(in); ok {
					typ = dt
				}
				if raw := structGet(t.Args[0], "Raw"); raw != nil && raw != tZero && raw.Key() != "nil" {
					fresh = false
				}
				if in != nil && in.Op == "addr" && in.Args[0].Op == "struct" && len(in.Args[0].Fields) > 0 {
					fresh = false
				}
			} else {
				fresh = false
			}
		}
		if c.Prop != "C20" {
			if typ != "" {
				out = append(out, format{f.name, f.pkg, typ})
			} else {
				c.undecided("anchor", f.name+" envelope type", "NewEnvelope does not return a base.Envelope wrapping a format envelope", c.P.pos(pg.G.Root.Decl.Pos()))
			}
			continue
		}
		c.add("O-C20.4", f.name+": NewEnvelope returns an empty wrapper", "NewEnvelope returns a fresh base.Envelope with an empty inner envelope and no Raw (so the object reports that no signature is present)", typ != "" && fresh, c.P.pos(pg.G.Root.Decl.Pos()))
		if typ != "" {
			out = append(out, format{f.name, f.pkg, typ})
		}
	}
	return out
}

func (f format) method(m string) string { return "(" + f.typ + ")." + m }

// skeleton builds the graph of a function with all its direct in-module
// callees left opaque.
// signSkeleton: the skeleton of a format's Sign. When the COSE Sign builds its message in a
// single-purpose helper (everything up to the encoding moved out of Sign), that helper is kept
// inlined: the rules speak about the steps, not about which of the two functions holds them.
func (c *Check) signSkeleton(f format) *PG {
	sign := f.method("Sign")
	if f.name != "COSE" {
		return c.skeleton(sign)
	}
	const anchor = "github.com/veraison/go-cose.NewSign1Message"
	holder := map[*FuncSrc]bool{}
	for _, s := range c.P.callSites(func(n string) bool { return n == anchor }) {
		holder[s.Fn] = true
	}
	fs := c.P.fn(sign)
	if fs == nil || holder[fs] {
		return c.skeleton(sign)
	}
	var keep []string
	for h := range holder {
		// a direct callee of Sign that holds the anchor
		for _, t := range c.callTree([]string{sign}) {
			if t == h {
				keep = append(keep, c.P.abbrev(h.Obj.FullName()))
			}
		}
	}
	sort.Strings(keep)
	return c.skeleton(sign, keep...)
}

func (c *Check) skeleton(name string, keep ...string) *PG {
	fs := c.P.fn(name)
	if fs == nil {
		c.undecided("anchor", name, "function not found", "")
		return nil
	}
	var ni []string
	isKept := func(cal string) bool {
		for _, x := range keep {
			if x == cal {
				return true
			}
		}
		return false
	}
	seen := map[string]bool{}
	addCallees := func(f *FuncSrc) {
		for _, cal := range c.P.directCallees(f) {
			if !isKept(cal) && !seen[cal] {
				seen[cal] = true
				ni = append(ni, cal)
			}
		}
	}
	addCallees(fs)
	// the callees of a kept (inlined) helper stay opaque as well
	for _, k := range keep {
		if kf := c.P.fn(k); kf != nil {
			addCallees(kf)
		}
	}
	sort.Strings(ni)
	return c.pgOfNI(name, ni...)
}

func checkC20(c *Check) {
	c.Explain = "C20: typestate over the wrapper's Raw and the inner message. (1) In each format's Sign the only store to the inner message is not followed by any failing return, and the stored object is the one whose encoding is returned. (2) In the wrapper's Sign nothing is stored before the format-level Sign succeeded; every failure after it clears Raw (the object then reports 'no signature' instead of exposing the failed request); success stores the produced bytes, returns them, and nothing overwrites them. (3) Verify/Content of the wrapper and of both formats write nothing reachable from their receiver and no package-level variable; external callees that receive the inner message are in a reviewed read-only table. (4) Verify/Content report SignatureNotFoundError exactly for an empty Raw and before touching the inner envelope; Raw is written only by the wrapper's Sign and in the two ParseEnvelope literals (together with the inner message decoded from the same slice); NewEnvelope leaves both empty; the registry is written only from init. Not decided: caller mutation of returned slices."
	c.Assume = append(c.Assume, "(*cose.Sign1Message).Verify, ProtectedHeader.Critical/Algorithm, x509.ParseCertificate and the decoders do not modify their receiver/arguments (reviewed read-only table)")
	fmts := discoverFormats(c)
	c.floor("envelope formats", 2, len(fmts))
	// (2)
	wrapperSignRules(c, false, true)
	// the request is canonicalised before it is validated and signed: otherwise a request whose
	// times collapse to one second is signed and the object then refuses its own content
	truncationRules(c, "O-C20.2")
	// (4) wrapper reads
	for _, m := range []struct{ fn, inner string }{{baseVerify, "Verify"}, {baseContent, "Content"}} {
		stateRules(c, m.fn, m.inner)
	}
	// (1) inner Sign commits last
	for _, f := range fmts {
		pg := c.signSkeleton(f)
		if pg == nil {
			continue
		}
		isBase := LP{Desc: "store to the inner message", F: func(l Label) bool {
			return (l.Kind == "store" || l.Kind == "lstore") && l.Key == "recv.base"
		}}
		nst := len(distinctEdgeNodes(pg, isBase))
		c.add("O-C20.1", f.name+": one commit of the inner message", "the format-level Sign stores the inner message exactly once", nst == 1, c.P.pos(pg.G.Root.Decl.Pos()))
		fails := returnsWhere(pg, func(s *PState) bool { return !retNilErr(s, 1) })
		ok := returnsWhere(pg, func(s *PState) bool { return retNilErr(s, 1) })
		c.noPathFrom(pg, "O-C20.1", f.name+": no failure after the commit", "after the inner message was replaced the format-level Sign cannot fail any more", isBase, fails, nil)
		c.mustPass(pg, "O-C20.1", f.name+": success commits", "returning the encoded envelope", ok, isBase)
		// the stored object is the encoded one
		stored := ""
		for _, s := range pg.States {
			for _, e := range s.Out {
				for _, l := range e.Labels {
					if isBase.F(l) {
						stored = l.T2.Key()
					}
				}
			}
		}
		good := len(ok) > 0 && stored != ""
		for _, s := range ok {
			k := retKey(s, 0)
			if !(strings.HasPrefix(k, "encoding/json.Marshal("+stored+")#0") || strings.HasPrefix(k, "(*github.com/veraison/go-cose.Sign1Message).MarshalCBOR("+stored+")#0")) {
				good = false
			}
		}
		var cdet []string
		if !good {
			cdet = append(cdet, "stored: "+stored)
			for _, s := range ok {
				cdet = append(cdet, "returned: "+retKey(s, 0))
			}
		}
		c.add("O-C20.1", f.name+": the committed message is the encoded one", "the bytes returned are the encoding of exactly the object stored as inner message", good, posOf(pg, ok), cdet...)
		// nothing else of the receiver is written
		var other []string
		for _, s := range pg.States {
			for _, e := range s.Out {
				for _, l := range e.Labels {
					if (l.Kind == "store" || l.Kind == "lstore") && strings.HasPrefix(l.Key, "recv.") && l.Key != "recv.base" {
						other = append(other, l.Key)
					}
				}
			}
		}
		c.add("O-C20.1", f.name+": Sign writes nothing else of the receiver", "the format-level Sign stores only the inner message field", len(other) == 0, "", other...)
	}
	// (3) purity of the read methods: effect scan over their in-module call trees
	var roots []string
	for _, f := range fmts {
		roots = append(roots, f.method("Verify"), f.method("Content"))
	}
	roots = append(roots, baseVerify, baseContent)
	bad, nf := effectScan(c, roots, map[string]bool{
		"(*github.com/veraison/go-cose.Sign1Message).Verify":      true,
		"(github.com/veraison/go-cose.ProtectedHeader).Critical":  true,
		"(github.com/veraison/go-cose.ProtectedHeader).Algorithm": true,
	})
	c.add("O-C20.3", "read methods are pure", "Verify/Content of the wrapper and of both formats, with everything they call in the module, assign nothing reachable from a receiver, no package-level variable, and write through a pointer parameter only when every caller passes the address of one of its own locals; the inner message is handed only to read-only library functions", len(bad) == 0, "", bad...)
	c.floor("functions in the read call trees", 15, nf)
	for _, m := range []string{baseVerify, baseContent} {
		if pg := c.pgOfNI(m, csValidator); pg != nil {
			var bad []string
			for _, s := range pg.States {
				for _, e := range s.Out {
					for _, l := range e.Labels {
						if (l.Kind == "store" || l.Kind == "lstore") && (strings.HasPrefix(l.Key, "recv") || (l.T != nil && rootIsGlobal(l.T))) {
							bad = append(bad, c.P.pos(l.Node.Pos)+": writes "+l.Key)
						}
					}
				}
			}
			c.add("O-C20.3", m+" is pure", "the wrapper's read method writes nothing", len(bad) == 0, "", bad...)
		}
	}
	// (4) who writes Raw / the registry
	rawWriters(c, fmts)
}

func rootIsGlobal(t *Term) bool {
	for t != nil {
		switch t.Op {
		case "global":
			return true
		case "field", "index", "deref", "slice":
			t = t.Args[0]
			continue
		}
		return false
	}
	return false
}

// stateRules: O-C20.4 on a wrapper read method.
func stateRules(c *Check, fn, innerMethod string) {
	pg := c.pgOfNI(fn, csValidator)
	if pg == nil {
		return
	}
	inner := "(ncg/signature.Envelope)." + innerMethod + "(recv.Envelope)"
	nf := returnsWhere(pg, func(s *PState) bool { return retHasType(s, 1, "ncg/signature.SignatureNotFoundError") })
	c.floor(fn+" not-found returns", 1, len(nf))
	c.mustPass(pg, "O-C20.4", innerMethod+": no-signature error only for empty Raw", "SignatureNotFoundError", nf, A("+Empty(recv.Raw)"))
	c.noPathFrom(pg, "O-C20.4", innerMethod+": empty Raw always reports no signature", "with an empty Raw nothing but SignatureNotFoundError is returned and the inner envelope is not touched", A("+Empty(recv.Raw)"), append(returnsWhere(pg, func(s *PState) bool { return !retHasType(s, 1, "ncg/signature.SignatureNotFoundError") }), edgeSources(pg, CallKey(inner))...), nil)
	c.mustPass(pg, "O-C20.4", innerMethod+": Raw tested before the inner envelope is used", "calling the inner "+innerMethod, edgeSources(pg, CallKey(inner)), A("-Empty(recv.Raw)"))
}

func rawWriters(c *Check, fmts []format) {
	// syntactic census: assignments to Raw and composite literals with a Raw key
	var bad []string
	nlit, nassign := 0, 0
	for _, fs := range c.P.productFuncs() {
		info := fs.Pkg.TypesInfo
		name := c.P.abbrev(fs.Obj.FullName())
		ast.Inspect(fs.Decl.Body, func(n ast.Node) bool {
			switch x := n.(type) {
			case *ast.AssignStmt:
				for _, l := range x.Lhs {
					if se, ok := ast.Unparen(l).(*ast.SelectorExpr); ok && se.Sel.Name == "Raw" {
						if s, ok := info.Selections[se]; ok && strings.HasSuffix(c.P.typeStr(s.Recv()), "signature/internal/base.Envelope") {
							nassign++
							if name != baseSign {
								bad = append(bad, c.P.pos(x.Pos())+": Raw assigned in "+name)
							}
						}
					}
				}
			case *ast.CompositeLit:
				t := info.TypeOf(x)
				if t == nil || c.P.typeStr(t) != "ncg/signature/internal/base.Envelope" {
					return true
				}
				for _, el := range x.Elts {
					if kv, ok := el.(*ast.KeyValueExpr); ok {
						if id, ok := kv.Key.(*ast.Ident); ok && id.Name == "Raw" {
							nlit++
							if !strings.HasSuffix(name, ".ParseEnvelope") {
								bad = append(bad, c.P.pos(x.Pos())+": literal with Raw in "+name)
							}
						}
					}
				}
			}
			return true
		})
	}
	c.add("O-C20.4", "Raw is written only by Sign and ParseEnvelope", "the wrapper's Raw is assigned only in the wrapper's Sign and set in the ParseEnvelope literals", len(bad) == 0 && nlit >= 1 && nassign >= 1, "", bad...)
	for _, f := range fmts {
		pg := c.pgOf(f.pkg + ".ParseEnvelope")
		if pg == nil {
			continue
		}
		ok := returnsWhere(pg, func(s *PState) bool { return retNilErr(s, 1) })
		good := len(ok) > 0
		for _, s := range ok {
			t := s.Ret[0].T
			if t.Op != "addr" || t.Args[0].Op != "struct" {
				good = false
				continue
			}
			raw := structGet(t.Args[0], "Raw")
			in := structGet(t.Args[0], "Envelope")
			if raw == nil || raw.Key() != "p0" || in == nil {
				good = false
				continue
			}
			ik := in.Key()
			// the inner message is what a decoder left after reading exactly p0
			if !(strings.Contains(ik, "encoding/json.Unmarshal(p0, ") || strings.Contains(ik, ".UnmarshalCBOR(&$[github.com/veraison/go-cose.Sign1Message], p0)")) {
				good = false
			}
			if dt, k := dynType(in); !k || dt != f.typ {
				good = false
			}
		}
		c.add("O-C20.4", f.name+": parsed wrapper holds Raw and the message decoded from the same bytes", "ParseEnvelope returns Raw = the argument and an inner message decoded from that same argument", good, posOf(pg, ok))
		c.mustPass(pg, "O-C20.4", f.name+": ParseEnvelope succeeds only if decoding succeeded", "returning a parsed envelope", ok, AnyOf(AG("+IsNil(encoding/json.Unmarshal(p0, *))"), AG("+IsNil((*github.com/veraison/go-cose.Sign1Message).UnmarshalCBOR(*, p0))")))
	}
	// registry written only from init
	var regBad []string
	nreg := 0
	for _, s := range c.P.callSites(func(n string) bool { return n == "ncg/signature.RegisterEnvelopeType" || n == "(*sync.Map).Store" }) {
		caller := s.Fn.Obj.Name()
		switch s.Callee {
		case "ncg/signature.RegisterEnvelopeType":
			nreg++
			if caller != "init" {
				regBad = append(regBad, c.P.pos(s.Call.Pos())+": RegisterEnvelopeType called from "+caller)
			}
		case "(*sync.Map).Store":
			if c.P.abbrev(s.Fn.Obj.FullName()) != "ncg/signature.RegisterEnvelopeType" && strings.HasPrefix(s.Fn.Pkg.PkgPath, c.P.ModPath+"/signature") {
				regBad = append(regBad, c.P.pos(s.Call.Pos())+": sync.Map.Store in "+caller)
			}
		}
	}
	c.add("O-C20.4", "envelope registry written only during init", "the media-type registry is written only by RegisterEnvelopeType, which product code calls only from init", len(regBad) == 0 && nreg == 2, "", regBad...)
	_ = types.Typ
}
