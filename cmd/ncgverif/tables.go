package main

// T: constant tables extracted from the typed syntax tree.

import (
	"go/ast"
	"go/constant"
	"go/types"
	"reflect"
	"sort"
	"strings"

	"golang.org/x/tools/go/packages"
)

// globalInit finds a package-level variable by abbreviated name
// ("ncg/pkg.name") and returns its object, initialiser and package.
func (c *Check) globalInit(name string) (*types.Var, ast.Expr, *packages.Package) {
	i := strings.LastIndex(name, ".")
	if i < 0 {
		return nil, nil, nil
	}
	pkgPath := strings.Replace(name[:i], "ncg", c.P.ModPath, 1)
	pk := c.P.All[pkgPath]
	if pk == nil {
		return nil, nil, nil
	}
	v, _ := pk.Types.Scope().Lookup(name[i+1:]).(*types.Var)
	if v == nil {
		return nil, nil, pk
	}
	return v, findInit(pk.Syntax, pk.TypesInfo, v), pk
}

// constOf evaluates an expression to a printable constant: constants directly,
// package-level variables with a constant-valued initialiser (one hop, e.g.
// ps256 = jwt.SigningMethodPS256.Name is NOT constant and yields "").
func constOf(pk *packages.Package, e ast.Expr) string {
	if tv, ok := pk.TypesInfo.Types[e]; ok && tv.Value != nil {
		return constString(tv.Value)
	}
	return ""
}

func constString(v constant.Value) string {
	switch v.Kind() {
	case constant.String:
		return constant.StringVal(v)
	default:
		return v.ExactString()
	}
}

// constList: the constant elements of a slice/array composite literal ("" for
// non-constant elements).
func constList(pk *packages.Package, init ast.Expr) []string {
	cl, ok := ast.Unparen(init).(*ast.CompositeLit)
	if !ok {
		return nil
	}
	var out []string
	for _, e := range cl.Elts {
		if kv, ok := e.(*ast.KeyValueExpr); ok {
			e = kv.Value
		}
		out = append(out, constOf(pk, e))
	}
	return out
}

// constMap: constant key -> constant value of a map composite literal.
func constMap(pk *packages.Package, init ast.Expr) map[string]string {
	cl, ok := ast.Unparen(init).(*ast.CompositeLit)
	if !ok {
		return nil
	}
	out := map[string]string{}
	for _, e := range cl.Elts {
		kv, ok := e.(*ast.KeyValueExpr)
		if !ok {
			return nil
		}
		out[constOf(pk, kv.Key)] = constOf(pk, kv.Value)
	}
	return out
}

// jsonNames: the JSON member names of a struct type (tag name, or field name);
// fields tagged "-" are skipped.
func jsonNames(t types.Type) []string {
	st, ok := t.Underlying().(*types.Struct)
	if !ok {
		return nil
	}
	var out []string
	for i := 0; i < st.NumFields(); i++ {
		tag := reflect.StructTag(st.Tag(i)).Get("json")
		name := strings.Split(tag, ",")[0]
		if name == "-" {
			continue
		}
		if name == "" {
			name = st.Field(i).Name()
		}
		out = append(out, name)
	}
	sort.Strings(out)
	return out
}

func sortedCopy(ss []string) []string {
	out := append([]string{}, ss...)
	sort.Strings(out)
	return out
}

func sameSet(a, b []string) bool {
	a, b = sortedCopy(a), sortedCopy(b)
	if len(a) != len(b) {
		return false
	}
	for i := range a {
		if a[i] != b[i] {
			return false
		}
	}
	return true
}

// globalsOfType lists package-level variables of a package whose type string
// (module path abbreviated) equals typ.
func (c *Check) globalsOfType(pkgPath, typ string) []string {
	pk := c.P.All[strings.Replace(pkgPath, "ncg", c.P.ModPath, 1)]
	if pk == nil {
		return nil
	}
	var out []string
	sc := pk.Types.Scope()
	for _, n := range sc.Names() {
		if v, ok := sc.Lookup(n).(*types.Var); ok {
			ts := c.P.typeStr(v.Type())
			us := c.P.typeStr(unaliasDeep(v.Type()))
			if ts == typ || us == typ {
				out = append(out, pkgPath+"."+n)
			}
		}
	}
	return out
}

// unaliasDeep removes type aliases inside map/slice/pointer types.
func unaliasDeep(t types.Type) types.Type {
	switch x := t.(type) {
	case *types.Alias:
		return unaliasDeep(types.Unalias(x))
	case *types.Map:
		return types.NewMap(unaliasDeep(x.Key()), unaliasDeep(x.Elem()))
	case *types.Slice:
		return types.NewSlice(unaliasDeep(x.Elem()))
	case *types.Pointer:
		return types.NewPointer(unaliasDeep(x.Elem()))
	}
	return t
}
