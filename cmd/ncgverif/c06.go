package main

// C06: fail-closed structure of the revocation packages.

import (
	"fmt"
	"go/ast"
	"go/constant"
	"go/token"
	"go/types"
	"strings"

	"golang.org/x/tools/go/types/typeutil"
)

// collectGood walks a term and records the source positions of verdict
// literals of class OK / NonRevokable.
func collectGood(t *Term, into map[token.Pos]int) {
	t.walk(func(x *Term) {
		if x.Op == "struct" && x.Pos.IsValid() {
			if cl, ok := resultClass(x); ok && (cl == resOK || cl == resNonRevokable) {
				into[x.Pos] = cl
			}
		}
	})
}

func checkC06(c *Check) {
	c.Explain = "C06: fail-closed decomposition over the five revocation packages. (1) Closed set of 'good' verdicts: every composite literal / NewServerResult call that can carry OK or NonRevokable is enumerated from the syntax tree and must be one of the sites whose guards are proven on every path: CRL OK (all distribution points exhausted, every gate passed, every failure edge can only reach Unknown/Revoked), scan OK (after exhaustion), the OCSP wrapper's OK/NonRevokable returns (nil error / NoServerError only), NoServerError and the not-supported literals only for a certificate without URLs of that method, the validator's NonRevokable only with neither method, root slots; verdict fields are never assigned outside literals; non-constant verdicts only in the OCSP aggregate. (2) Every call returning an error in these packages has it consumed: no blank assignment, no dropped result; the only deferred error-returning calls are the two Body.Close. (3) CRL download and OCSP request helper succeed only on a good transfer (status 200, capped body, parse). (4) Each per-certificate goroutine writes only its own slot; options are passed by value; no shared state. Transport behaviour under real faults, timing and cancellation races are not decided."
	c.Assume = append(c.Assume, "net/http reports transport faults as errors")
	covered := map[token.Pos]int{}
	// (a) CRL root
	if pg := c.pgOf(crlRoot); pg != nil {
		t := crlRootTerms()
		byClass := func(k int) []*PState {
			return returnsWhere(pg, func(s *PState) bool {
				cl, ok := resultClass(s.Ret[0].T)
				return ok && cl == k
			})
		}
		okRets, nonrev := byClass(resOK), byClass(resNonRevokable)
		c.floor("C06 CRL OK returns", 1, len(okRets))
		c.mustPass(pg, "O-C06.1", "CRL OK: every distribution point consulted", "the CRL OK verdict", okRets, RangeDone(t.dps))
		c.onlyAfterExhaustion(pg, "O-C06.1", "CRL OK: not from inside the loop", "the CRL OK verdict", t.dps, okRets)
		c.mustPass(pg, "O-C06.1", "CRL OK: a fetcher exists", "the CRL OK verdict", okRets, A("-IsNil(p3.Fetcher)"))
		c.mustPass(pg, "O-C06.1", "CRL OK: at least one distribution point", "the CRL OK verdict", okRets, A("-Empty("+t.dps+")"))
		for _, g := range []req{
			{"download succeeded", A("+IsNil(" + t.ferr + ")")},
			{"base CRL signed by the issuer", A("+IsNil((*crypto/x509.RevocationList).CheckSignatureFrom(" + t.base + ", p2))")},
			{"base CRL current", A("-TLt(" + t.base + ".NextUpdate, time.Now())")},
			{"delta CRL absent or signed by the issuer", AnyOf(A("+IsNil("+t.delta+")"), A("+IsNil((*crypto/x509.RevocationList).CheckSignatureFrom("+t.delta+", p2))"))},
			{"delta CRL absent or current", AnyOf(A("+IsNil("+t.delta+")"), A("-TLt("+t.delta+".NextUpdate, time.Now())"))},
		} {
			c.perIteration(pg, "O-C06.1", "CRL OK: each point: "+g.name, "a distribution point lets the loop go on only if "+g.name, t.dps, g.lp)
		}
		for _, f := range []string{
			"-IsNil(" + t.ferr + ")",
			"-IsNil((*crypto/x509.RevocationList).CheckSignatureFrom(" + t.base + ", p2))",
			"-IsNil((*crypto/x509.RevocationList).CheckSignatureFrom(" + t.delta + ", p2))",
			"+TLt(" + t.base + ".NextUpdate, time.Now())",
			"+TLt(" + t.delta + ".NextUpdate, time.Now())",
			"+IsNil(p3.Fetcher)",
		} {
			c.noPathFrom(pg, "O-C06.1", "CRL fault is final "+f, "after the fault "+f+" neither OK nor NonRevokable is reachable", A(f), append(append([]*PState{}, okRets...), nonrev...), nil)
		}
		c.mustPass(pg, "O-C06.1", "CRL NonRevokable only without distribution points", "the CRL NonRevokable verdict", nonrev, AnyOf(A("+Empty("+t.dps+")"), A("+IsNil(p1)")))
		for _, s := range append(append([]*PState{}, okRets...), nonrev...) {
			collectGood(s.Ret[0].T, covered)
		}
		// scan function OK literal (after exhaustion) is nested in the OK verdict's list: covered by the walk above
		for _, s := range pg.States {
			for _, e := range s.Out {
				for _, l := range e.Labels {
					if l.Kind == "assign" && l.T2 != nil {
						collectGood(l.T2, covered)
					}
				}
			}
		}
		// the scan's OK server result
		_, inst, _ := findScanLoop(pg)
		if inst != nil {
			if sc := rootOfInst(inst); sc != nil && sc.Fn != nil {
				if spg := c.pgOf(sc.Name); spg != nil {
					E, _, _ := findScanLoop(spg)
					ok := returnsWhere(spg, func(s *PState) bool {
						cl, k := resultClass(s.Ret[0].T)
						return k && cl == resOK
					})
					c.onlyAfterExhaustion(spg, "O-C06.1", "scan OK only after all entries", "the scan's OK verdict", E, ok)
					top := E
					if o := scanOuterLoop(spg, E); o != "" {
						// nested form (C10): the scan is over when the loop over the entry lists is
						top = o
						c.onlyAfterExhaustion(spg, "O-C06.1", "scan OK only after all entry lists", "the scan's OK verdict", o, ok)
					}
					c.mustPass(spg, "O-C06.1", "scan OK only after exhaustion", "the scan's OK verdict", ok, RangeDone(top))
				}
			}
		}
	}
	// (b) OCSP wrapper and per-server graph
	sites := c.P.callSites(func(n string) bool { return n == "golang.org/x/crypto/ocsp.ParseResponseForCert" })
	if len(sites) == 1 {
		H := c.P.abbrev(sites[0].Fn.Obj.FullName())
		if h2 := ocspExchangeHelper(c); h2 != nil {
			H = c.P.abbrev(h2.Obj.FullName())
		}
		if spg := c.pgOfNI(ocspRoot, H); spg != nil {
			xerr := H + "(p0, p1, p2, re(p1.OCSPServer), p3)#1"
			inf := AnyOf(A("+TypeIs("+xerr+", ncg/revocation/internal/ocsp.RevokedError)"), A("+TypeIs("+xerr+", ncg/revocation/internal/ocsp.NoServerError)"))
			spg.Infeasible = &inf // discharged under C04 (helper error types); re-checked below
			hpg := c.pgOf(H)
			if hpg != nil {
				okT := true
				for _, o := range errorOrigins(hpg, 1) {
					dt, k := dynType(o.Term)
					if !k || dt == "ncg/revocation/internal/ocsp.RevokedError" || dt == "ncg/revocation/internal/ocsp.NoServerError" || dt == "nil" {
						okT = false
					}
				}
				c.add("O-C06.1", "request helper errors never carry a verdict", "no error of the OCSP request helper is a RevokedError or NoServerError", okT, c.P.pos(hpg.G.Root.Decl.Pos()))
				hok := returnsWhere(hpg, func(s *PState) bool { return retNilErr(s, 1) })
				for _, g := range []req{
					{"transport succeeded", AG("+IsNil((*net/http.Client).Do(p4.HTTPClient, *)#1)")},
					{"HTTP status is 200", AG("+Eq((*net/http.Client).Do(p4.HTTPClient, *)#0.StatusCode, 200)")},
					{"body read without error under the cap", AG("+IsNil(io.ReadAll(io.LimitReader(*.Body, 20480))#1)")},
					{"response parsed for (cert, issuer)", AG("+IsNil(golang.org/x/crypto/ocsp.ParseResponseForCert(*, p1, p2)#1)")},
				} {
					c.mustPass(hpg, "O-C06.3", "OCSP helper: "+g.name, "the OCSP request helper succeeds", hok, g.lp)
				}
			}
			// every good-class term in the per-server graph
			var goodStates []*PState
			nonRevGuard := AnyOf(A("+Empty(p1.OCSPServer)"), A("+IsNil(p1)"))
			visit := func(t *Term, s *PState, where string) {
				found := map[token.Pos]int{}
				collectGood(t, found)
				for p, cl := range found {
					covered[p] = cl
					if cl == resNonRevokable {
						ok, path := c.cut(spg, []*PState{s}, nonRevGuard)
						var det []string
						if !ok {
							det = spg.describePath(path, 20)
						}
						c.add("O-C06.1", "OCSP NonRevokable only without responders", "an OCSP NonRevokable verdict or server result exists only for a certificate that names no responder", ok, where, det...)
					} else {
						goodStates = append(goodStates, s)
					}
				}
			}
			for _, s := range spg.Returns() {
				if _, ok := c.search(spg, []*PState{spg.Entry}, inSet([]*PState{s}), nil); ok {
					visit(s.Ret[0].T, s, c.P.pos(s.Node.Pos))
				}
			}
			for _, s := range spg.States {
				for _, e := range s.Out {
					for _, l := range e.Labels {
						if (l.Kind == "store" || l.Kind == "lstore" || l.Kind == "assign") && l.T2 != nil {
							if _, ok := c.search(spg, []*PState{spg.Entry}, inSet([]*PState{s}), nil); ok {
								visit(l.T2, s, c.P.pos(l.Node.Pos))
							}
						}
					}
				}
			}
			X := H + "(p0, p1, p2, re(p1.OCSPServer), p3)"
			c.mustPass(spg, "O-C06.1", "OCSP OK: request helper succeeded", "an OCSP OK verdict or server result", goodStates, A("+IsNil("+X+"#1)"))
			c.mustPass(spg, "O-C06.1", "OCSP OK: URL parsed", "an OCSP OK verdict or server result", goodStates, A("+IsNil(net/url.Parse(re(p1.OCSPServer))#1)"))
			c.mustPass(spg, "O-C06.1", "OCSP OK: scheme http", "an OCSP OK verdict or server result", goodStates, A(`+EqFold("http", net/url.Parse(re(p1.OCSPServer))#0.Scheme)`))
			c.mustPass(spg, "O-C06.1", "OCSP OK: response current", "an OCSP OK verdict or server result", goodStates, A("-TLt("+X+"#0.NextUpdate, time.Now())"))
			c.floor("OCSP good-class states", 1, len(goodStates))
			for _, f := range []string{"-IsNil(" + X + "#1)", "-IsNil(net/url.Parse(re(p1.OCSPServer))#1)", `-EqFold("http", net/url.Parse(re(p1.OCSPServer))#0.Scheme)`, "+TLt(" + X + "#0.NextUpdate, time.Now())"} {
				// within the same server: block at the next iteration
				c.noPathFrom(spg, "O-C06.1", "OCSP fault is final for its server "+f, "after the fault "+f+" this server's result is neither OK nor NonRevokable", A(f), goodStates, ptr(RangeNext("p1.OCSPServer")))
			}
		}
	}
	// (c) fan-out entry points: NonRevokable literals
	fn := validatorMethod(c)
	if fn != "" {
		for name, v := range map[string]*valTerms{"validator": fanoutGraph(c, fn, "p1.CertChain", "p0", "recv.certChainPurpose"), "standalone OCSP": fanoutGraph(c, standalone, "p0.CertChain", "", "p0.CertChainPurpose")} {
			if v == nil {
				continue
			}
			slot := v.R + "[" + v.i + "]"
			rootSlot := v.R + "[(len(" + v.chain + ") - 1)]"
			for _, s := range v.pg.States {
				for _, e := range s.Out {
					for _, l := range e.Labels {
						if (l.Kind == "store" || l.Kind == "lstore") && l.T2 != nil {
							found := map[token.Pos]int{}
							collectGood(l.T2, found)
							if len(found) == 0 {
								continue
							}
							switch l.Key {
							case rootSlot:
								for p, cl := range found {
									covered[p] = cl
								}
							case slot:
								ok1, _ := c.cut(v.pg, []*PState{s}, A("-Empty("+v.chain+")"))
								// guarded inside the iteration by "no responders" and "no distribution points"
								g1 := c.within(v.pg, "O-C06.1", name+": NonRevokable literal only without responders", "the NonRevokable literal is stored only for a certificate without OCSP responders", v.L, AnyOf(A("+Empty("+v.cert+".OCSPServer)"), A("+IsNil("+v.cert+")")), LP{Desc: "store literal", F: func(x Label) bool { return x.Node == l.Node && (x.Kind == "store" || x.Kind == "lstore") }})
								g2 := c.within(v.pg, "O-C06.1", name+": NonRevokable literal only without distribution points", "the NonRevokable literal is stored only for a certificate without CRL distribution points", v.L, AnyOf(A("+Empty("+v.cert+".CRLDistributionPoints)"), A("+IsNil("+v.cert+")")), LP{Desc: "store literal", F: func(x Label) bool { return x.Node == l.Node && (x.Kind == "store" || x.Kind == "lstore") }})
								if ok1 && g1 && g2 {
									for p, cl := range found {
										if cl == resNonRevokable {
											covered[p] = cl
										}
									}
								}
							}
						}
					}
				}
			}
			goStructure(c, v, name)
		}
	}
	// AST census of good-verdict constructors in the revocation packages
	nsites, ngood := 0, 0
	for _, fs := range c.P.productFuncs() {
		rel := strings.TrimPrefix(fs.Pkg.PkgPath, c.P.ModPath)
		if !strings.HasPrefix(rel, "/revocation") {
			continue
		}
		info := fs.Pkg.TypesInfo
		ast.Inspect(fs.Decl.Body, func(n ast.Node) bool {
			switch x := n.(type) {
			case *ast.CompositeLit:
				t := info.TypeOf(x)
				if t == nil {
					return true
				}
				if p, ok := t.Underlying().(*types.Pointer); ok {
					t = p.Elem()
				}
				ts := c.P.typeStr(t)
				if ts != "ncg/revocation/result.ServerResult" && ts != "ncg/revocation/result.CertRevocationResult" {
					return true
				}
				if rel == "/revocation/result" {
					return true // the plain constructor, checked separately
				}
				nsites++
				for _, el := range x.Elts {
					kv, ok := el.(*ast.KeyValueExpr)
					if !ok {
						c.add("O-C06.1", "verdict literals use field names", "a verdict literal names its fields", false, c.P.pos(x.Pos()))
						continue
					}
					if id, ok := kv.Key.(*ast.Ident); !ok || id.Name != "Result" {
						continue
					}
					tv := info.Types[kv.Value]
					if tv.Value == nil {
						// a verdict held in a local that is a constant on every path (decided on the graph)
						if vals, allConst := litResultConsts(c, fs, x.Pos()); allConst && len(vals) > 0 {
							for _, v := range vals {
								if v == resOK || v == resNonRevokable {
									ngood++
									_, ok := covered[x.Pos()]
									c.add("O-C06.1", fmt.Sprintf("good verdict literal is a guarded site (%s)", strings.TrimPrefix(rel, "/")), "every literal that carries OK or NonRevokable is one of the sites whose guards are proven", ok, c.P.pos(x.Pos()))
								}
							}
							continue
						}
						// non-constant verdict: only the OCSP aggregate form X[len(X)-1].Result
						c.add("O-C06.1", "non-constant verdict is the OCSP aggregate's", "a verdict that is not a constant is the last server result's verdict of the same list (whose entries are all Unknown, C04/C12)", isLastElemResult(kv.Value), c.P.pos(kv.Value.Pos()))
						continue
					}
					v, _ := constant.Int64Val(tv.Value)
					if v == resOK || v == resNonRevokable {
						ngood++
						_, ok := covered[x.Pos()]
						c.add("O-C06.1", fmt.Sprintf("good verdict literal is a guarded site (%s)", strings.TrimPrefix(rel, "/")), "every literal that carries OK or NonRevokable is one of the sites whose guards are proven", ok, c.P.pos(x.Pos()))
					}
				}
			case *ast.CallExpr:
				if fn, ok := typeutil.Callee(info, x).(*types.Func); ok && strings.HasSuffix(fn.FullName(), "revocation/result.NewServerResult") {
					nsites++
					tv := info.Types[x.Args[0]]
					if tv.Value == nil {
						// a verdict computed into a local first: constant on every path of the graph?
						vals, allConst := callArgConsts(c, fs, "ncg/revocation/result.NewServerResult", 0)
						if allConst && len(vals) > 0 {
							for _, v := range vals {
								if v == resOK || v == resNonRevokable {
									ngood++
									c.add("O-C06.1", "good NewServerResult call is in the wrapper", "NewServerResult(OK/NonRevokable) is called only inside the error->verdict wrapper, under its nil / NoServerError guard (C04 wrapper table)", isInWrapper(c, fs), c.P.pos(x.Pos()))
								}
							}
							return true
						}
						c.add("O-C06.1", "NewServerResult verdict is constant", "NewServerResult is called with a constant verdict", false, c.P.pos(x.Pos()))
						return true
					}
					v, _ := constant.Int64Val(tv.Value)
					if v == resOK || v == resNonRevokable {
						ngood++
						// covered through the wrapper's table (guards on nil / NoServerError)
						c.add("O-C06.1", "good NewServerResult call is in the wrapper", "NewServerResult(OK/NonRevokable) is called only inside the error->verdict wrapper, under its nil / NoServerError guard (C04 wrapper table)", isInWrapper(c, fs), c.P.pos(x.Pos()))
					}
				}
			case *ast.AssignStmt:
				for _, l := range x.Lhs {
					if se, ok := ast.Unparen(l).(*ast.SelectorExpr); ok && se.Sel.Name == "Result" {
						if s, ok := info.Selections[se]; ok && s.Kind() == types.FieldVal {
							rt := c.P.typeStr(s.Recv())
							if strings.Contains(rt, "revocation/result.") {
								c.add("O-C06.1", "verdict fields are never assigned", "no assignment to the Result field of a verdict outside a literal (a verdict, once Unknown, cannot be upgraded)", false, c.P.pos(x.Pos()))
							}
						}
					}
				}
			}
			return true
		})
	}
	c.floor("verdict constructor sites", 15, nsites)
	c.floor("good verdict constructor sites", 8, ngood)
	c.add("O-C06.1", "no verdict field assignment", "no statement assigns a Result field of a verdict in the revocation packages", true, "")
	// the result package itself: NewServerResult builds the literal from its arguments
	if npg := c.pgOf("ncg/revocation/result.NewServerResult"); npg != nil {
		good := false
		for _, s := range npg.Returns() {
			good = retKey(s, 0) == "&{ncg/revocation/result.ServerResult Error:p2 Result:p0 Server:p1}"
		}
		c.add("O-C06.1", "NewServerResult is a plain constructor", "NewServerResult(r, s, e) returns &ServerResult{Result: r, Server: s, Error: e}", good, c.P.pos(npg.G.Root.Decl.Pos()))
	}
	errorDiscipline(c)
	downloadRules(c, "O-C06.3")
	fetcherDeltaRules(c)
	checkNoSharedState(c, "O-C06.4")
	// what counts as an answer from an OCSP responder at all: 200, not an OCSP error body,
	// verified by ParseResponseForCert for (cert, issuer), signed by an authorised responder (O-C04.3)
	c.floor("OCSP exchange rules (shared with C04)", 10, shareRules(c, checkC04, []string{"O-C04.2", "O-C04.3"}, "O-C06.1", "OCSP answer: "))
}

func isLastElemResult(e ast.Expr) bool {
	se, ok := ast.Unparen(e).(*ast.SelectorExpr)
	if !ok || se.Sel.Name != "Result" {
		return false
	}
	ix, ok := ast.Unparen(se.X).(*ast.IndexExpr)
	if !ok {
		return false
	}
	be, ok := ast.Unparen(ix.Index).(*ast.BinaryExpr)
	if !ok || be.Op != token.SUB {
		return false
	}
	call, ok := be.X.(*ast.CallExpr)
	if !ok || len(call.Args) != 1 {
		return false
	}
	if id, ok := call.Fun.(*ast.Ident); !ok || id.Name != "len" {
		return false
	}
	a, ok1 := ast.Unparen(call.Args[0]).(*ast.Ident)
	b, ok2 := ast.Unparen(ix.X).(*ast.Ident)
	lit, ok3 := be.Y.(*ast.BasicLit)
	return ok1 && ok2 && ok3 && a.Name == b.Name && lit.Value == "1"
}

// isInWrapper: the function has the wrapper's shape (string, error) -> *ServerResult
// and switches on the dynamic type of its error parameter.
func isInWrapper(c *Check, fs *FuncSrc) bool {
	sig := fs.Obj.Type().(*types.Signature)
	if sig.Params().Len() != 2 || sig.Results().Len() != 1 || !isErrorType(sig.Params().At(1).Type()) {
		return false
	}
	has := false
	ast.Inspect(fs.Decl.Body, func(n ast.Node) bool {
		if _, ok := n.(*ast.TypeSwitchStmt); ok {
			has = true
		}
		return true
	})
	return has
}

// errorDiscipline: O-C06.2.
func errorDiscipline(c *Check) {
	ncalls, ndefer := 0, 0
	var bad, deferred []string
	returnsError := func(info *types.Info, call *ast.CallExpr) (bool, int) {
		t := info.TypeOf(call)
		switch tt := t.(type) {
		case *types.Tuple:
			for i := 0; i < tt.Len(); i++ {
				if isErrorType(tt.At(i).Type()) {
					return true, i
				}
			}
		default:
			if t != nil && isErrorType(t) {
				return true, 0
			}
		}
		return false, -1
	}
	for _, fs := range c.P.productFuncs() {
		rel := strings.TrimPrefix(fs.Pkg.PkgPath, c.P.ModPath)
		if !strings.HasPrefix(rel, "/revocation") {
			continue
		}
		info := fs.Pkg.TypesInfo
		ast.Inspect(fs.Decl.Body, func(n ast.Node) bool {
			switch x := n.(type) {
			case *ast.ExprStmt:
				if call, ok := ast.Unparen(x.X).(*ast.CallExpr); ok {
					if re, _ := returnsError(info, call); re {
						bad = append(bad, c.P.pos(call.Pos())+": result of "+exprString(call.Fun)+" dropped")
					}
				}
			case *ast.DeferStmt:
				if re, _ := returnsError(info, x.Call); re {
					ndefer++
					name := ""
					if fn, ok := typeutil.Callee(info, x.Call).(*types.Func); ok {
						name = fn.FullName()
					}
					if name != "(io.Closer).Close" {
						bad = append(bad, c.P.pos(x.Pos())+": deferred call of "+name+" drops an error")
					} else {
						deferred = append(deferred, c.P.pos(x.Pos()))
					}
				}
			case *ast.GoStmt:
				if re, _ := returnsError(info, x.Call); re {
					bad = append(bad, c.P.pos(x.Pos())+": go statement drops an error")
				}
			case *ast.AssignStmt:
				if len(x.Rhs) == 1 {
					if call, ok := ast.Unparen(x.Rhs[0]).(*ast.CallExpr); ok {
						if re, idx := returnsError(info, call); re {
							ncalls++
							if idx < len(x.Lhs) {
								if id, ok := x.Lhs[idx].(*ast.Ident); ok && id.Name == "_" {
									bad = append(bad, c.P.pos(call.Pos())+": error of "+exprString(call.Fun)+" assigned to _")
								}
							}
						}
					}
				}
				// `_ = err`
				for i, l := range x.Lhs {
					if id, ok := l.(*ast.Ident); ok && id.Name == "_" && i < len(x.Rhs) {
						if t := info.TypeOf(x.Rhs[i]); t != nil && isErrorType(t) {
							bad = append(bad, c.P.pos(x.Pos())+": error value discarded with _ =")
						}
					}
				}
			}
			return true
		})
	}
	c.add("O-C06.2", "no error is dropped or blank-assigned", "in the revocation packages every call that returns an error has that result bound to a variable (tested by the guard rules), never dropped or assigned to _; the only deferred error-returning calls are Body.Close after the body was read", len(bad) == 0, "", bad...)
	c.add("O-C06.2", "deferred Close exceptions", "exactly the two deferred response-body Close calls drop an error (frozen exception: the result is irrelevant after the capped read)", ndefer == 2 && len(deferred) == 2, "", deferred...)
	c.floor("error-returning calls bound to variables", 15, ncalls)
}

func exprString(e ast.Expr) string {
	switch x := e.(type) {
	case *ast.Ident:
		return x.Name
	case *ast.SelectorExpr:
		return exprString(x.X) + "." + x.Sel.Name
	case *ast.CallExpr:
		return exprString(x.Fun) + "(..)"
	}
	return fmt.Sprintf("%T", e)
}

// fetcherDeltaRules re-evaluates the delta-CRL rules of the fetcher (O-C18.4)
// under C06: a fault (also a cancellation) while downloading an advertised
// delta CRL must surface as an error, never as a bundle without the delta - the
// checker would then read the stale base CRL as the whole truth and say OK.
func fetcherDeltaRules(c *Check) {
	sub := newCheck(c.Prop, c.P, c.Tier)
	sub.depth = c.depth
	checkC18(sub)
	n := 0
	for _, o := range sub.Obls {
		if o.Rule == "O-C18.4" || (!o.OK && (o.Rule == "anchor" || o.Rule == "engine")) {
			n++
			ob := c.add("O-C06.6", "fetcher: "+strings.TrimPrefix(o.Key, o.Rule+"|"), o.Desc, o.OK, o.Where, o.Detail...)
			ob.Undecided = o.Undecided
		}
	}
	c.Searches += sub.Searches
	c.States += sub.States
	c.floor("fetcher delta-CRL rules (shared with C18)", 8, n)
}

// litResultConsts resolves the Result field of the verdict literal at pos on
// the graph of its function: the distinct constant values it takes, and
// whether it is a constant in every product state that builds the literal.
func litResultConsts(c *Check, fs *FuncSrc, pos token.Pos) (vals []int64, allConst bool) {
	pg := c.quietFull(fs)
	if pg == nil || pg.Trunc {
		return nil, false
	}
	seen := map[int64]bool{}
	allConst = true
	n := 0
	visit := func(t *Term) {
		if t == nil {
			return
		}
		t.walk(func(x *Term) {
			if x.Op != "struct" || x.Pos != pos {
				return
			}
			n++
			r := structGet(x, "Result")
			if k, ok := intConst(r); ok {
				seen[k] = true
			} else {
				allConst = false
			}
		})
	}
	for _, s := range pg.States {
		for _, v := range s.Ret {
			visit(v.T)
		}
		for _, e := range s.Out {
			for _, l := range e.Labels {
				if l.Kind == "store" || l.Kind == "lstore" || l.Kind == "assign" {
					visit(l.T2)
				}
			}
		}
	}
	for k := range seen {
		vals = append(vals, k)
	}
	return vals, allConst && n > 0
}

// callArgConsts: on the graph of fs with the callee left opaque, the distinct
// constant values argument idx of every call of callee takes, and whether it is
// a constant at every such call.
func callArgConsts(c *Check, fs *FuncSrc, callee string, idx int) (vals []int64, allConst bool) {
	pg := c.pgOfNI(c.P.abbrev(fs.Obj.FullName()), callee)
	if pg == nil || pg.Trunc {
		return nil, false
	}
	seen := map[int64]bool{}
	allConst = true
	n := 0
	for _, s := range pg.States {
		for _, e := range s.Out {
			for _, l := range e.Labels {
				if l.Kind == "call" && l.T != nil && l.T.Name == callee && idx < len(l.T.Args) {
					n++
					if k, ok := intConst(l.T.Args[idx]); ok {
						seen[k] = true
					} else {
						allConst = false
					}
				}
			}
		}
	}
	for k := range seen {
		vals = append(vals, k)
	}
	return vals, allConst && n > 0
}
