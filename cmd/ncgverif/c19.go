package main

import "strings"

// retIs: the idx-th result of a return state has the given term key.
func retKey(s *PState, idx int) string {
	if idx < 0 {
		idx = len(s.Ret) + idx
	}
	if idx < 0 || idx >= len(s.Ret) || s.Ret[idx].T == nil {
		return ""
	}
	return s.Ret[idx].T.Key()
}

func retHasType(s *PState, idx int, typ string) bool {
	k := retKey(s, idx)
	return strings.HasPrefix(k, "&{"+typ+" ") || strings.HasPrefix(k, "&{"+typ+"}") || strings.HasPrefix(k, "{"+typ+" ") || strings.HasPrefix(k, "{"+typ+"}")
}

func checkC19(c *Check) {
	c.Explain = "C19: signature.VerifyAuthenticity and SignerInfo.AuthenticSigningTime are small closed functions; decided on every path: (1) empty trust list / nil signer info return an InvalidArgumentError before anything else and only then; (2) a certificate is returned only on the true edge of (*x509.Certificate).Equal between an element of the signer's chain and an element of the trust list, the returned value is the trust-list element, the error is nil; (3) the scan is chain-major (for each chain certificate every trust entry is compared), returns at the first hit, and the not-trusted error is returned only after both scans were exhausted with every comparison false; (4) the authentic signing time is returned exactly under scheme signingAuthority with a non-zero time, and every error of that helper is guarded by the negation of one of the two. Trusted: Certificate.Equal compares raw bytes."
	c.Assume = append(c.Assume, "(*x509.Certificate).Equal is byte equality of the raw certificates (crypto/x509)")
	const fn = "ncg/signature.VerifyAuthenticity"
	pg := c.pgOf(fn)
	if pg == nil {
		return
	}
	chain := "p0.CertificateChain"
	eq := "CertEq(re(" + chain + "), re(p1))"
	rets := pg.Returns()
	argErr := returnsWhere(pg, func(s *PState) bool { return retHasType(s, 1, "ncg/signature.InvalidArgumentError") })
	success := returnsWhere(pg, func(s *PState) bool { return retNilErr(s, 1) })
	notTrusted := returnsWhere(pg, func(s *PState) bool { return retHasType(s, 1, "ncg/signature.SignatureAuthenticityError") })
	other := returnsWhere(pg, func(s *PState) bool {
		return !retNilErr(s, 1) && !retHasType(s, 1, "ncg/signature.InvalidArgumentError") && !retHasType(s, 1, "ncg/signature.SignatureAuthenticityError")
	})
	c.floor("VerifyAuthenticity returns", 2, len(distinctNodes(rets)))
	c.add("O-C19.1", "closed error set", "every failing return is an InvalidArgumentError or a SignatureAuthenticityError", len(other) == 0, posOf(pg, other))
	// O-C19.1 argument errors, two-sided
	c.mustPass(pg, "O-C19.1", "argument error only for bad arguments", "an InvalidArgumentError return", argErr, AnyOf(A("+Empty(p1)"), A("+IsNil(p0)")))
	for _, a := range []string{"+Empty(p1)", "+IsNil(p0)"} {
		nonArg := returnsWhere(pg, func(s *PState) bool { return !retHasType(s, 1, "ncg/signature.InvalidArgumentError") })
		c.noPathFrom(pg, "O-C19.1", "bad argument always an argument error "+a, "after "+a+" only an InvalidArgumentError can be returned", A(a), nonArg, nil)
		c.mustPass(pg, "O-C19.1", "argument tested first "+a, "no scan before the argument test: the test "+a[1:]+" edge", edgeSourcesOrTargets(pg, A(a)), AnyOf(A(a)))
	}
	// the argument tests precede any loop
	loopStates := append(edgeTargets(pg, RangeNext(chain)), edgeTargets(pg, RangeNext("p1"))...)
	c.mustPass(pg, "O-C19.1", "nil signer info tested before use", "entering a scan", loopStates, A("-IsNil(p0)"))
	c.mustPass(pg, "O-C19.1", "empty trust list tested before use", "entering a scan", loopStates, A("-Empty(p1)"))
	for _, r := range argErr {
		if k := retKey(r, 0); k != "nil" {
			c.add("O-C19.1", "argument error returns no certificate", "argument error returns a nil certificate", false, pg.G.P.pos(r.Node.Pos), "returned: "+k)
		}
	}
	// O-C19.2 exact match
	c.floor("VerifyAuthenticity success returns", 1, len(success))
	c.mustPass(pg, "O-C19.2", "trust only by Certificate.Equal", "a certificate is returned", success, A("+"+eq))
	okVal := true
	var bad []string
	for _, r := range success {
		if retKey(r, 0) != "re(p1)" {
			okVal = false
			bad = append(bad, "returned value is "+retKey(r, 0)+" (expected the trust-list element re(p1))")
		}
	}
	c.add("O-C19.2", "returned certificate is the trust-list entry", "the certificate returned on success is the trust-list element that compared equal", okVal && len(success) > 0, posOf(pg, success), bad...)
	// no other condition than the expected ones may decide anything
	allowed := map[string]bool{"Empty(p1)": true, "IsNil(p0)": true, eq: true}
	var extra []string
	for _, a := range pg.AtomSet() {
		if !allowed[a[1:]] {
			extra = append(extra, a)
		}
	}
	c.add("O-C19.2", "no condition on certificate fields", "no condition of the function inspects a field of a certificate (subject, key, serial, issuer) or anything but the two argument tests and Certificate.Equal", len(extra) == 0, "", extra...)
	// O-C19.3 order and completeness
	c.perIteration(pg, "O-C19.3", "every trust entry compared", "each trust-list entry is compared (false edge) before the next", "p1", A("-"+eq))
	c.perIteration(pg, "O-C19.3", "chain-major order", "for each chain certificate the whole trust list is scanned before the next chain certificate", chain, RangeDone("p1"))
	c.noPathFrom(pg, "O-C19.3", "first hit returns", "after a match no further element is examined", A("+"+eq), append(edgeSources(pg, RangeNext("p1")), append(edgeSources(pg, RangeNext(chain)), notTrusted...)...), nil)
	// O-C19.4 not trusted only after exhaustion
	c.floor("VerifyAuthenticity not-trusted returns", 1, len(notTrusted))
	c.mustPass(pg, "O-C19.4", "not trusted only after full scan", "the authenticity error", notTrusted, RangeDone(chain))
	c.onlyAfterExhaustion(pg, "O-C19.4", "no early not-trusted (chain)", "the authenticity error", chain, notTrusted)
	c.onlyAfterExhaustion(pg, "O-C19.4", "no early not-trusted (trust list)", "the authenticity error", "p1", notTrusted)
	for _, r := range notTrusted {
		if k := retKey(r, 0); k != "nil" {
			c.add("O-C19.4", "not trusted returns no certificate", "the authenticity error comes with a nil certificate", false, pg.G.P.pos(r.Node.Pos), "returned: "+k)
		}
	}

	// O-C19.5 authentic signing time
	const fn2 = "(*ncg/signature.SignerInfo).AuthenticSigningTime"
	pg2 := c.pgOf(fn2)
	if pg2 == nil {
		return
	}
	sa := `Eq("notary.x509.signingAuthority", recv.SignedAttributes.SigningScheme)`
	tz := "TZero(recv.SignedAttributes.SigningTime)"
	ok2 := returnsWhere(pg2, func(s *PState) bool { return retNilErr(s, 1) })
	c.floor("AuthenticSigningTime success returns", 1, len(ok2))
	c.mustPass(pg2, "O-C19.5", "scheme is signingAuthority", "an authentic signing time is returned", ok2, A("+"+sa))
	c.mustPass(pg2, "O-C19.5", "time is non-zero", "an authentic signing time is returned", ok2, A("-"+tz))
	good := len(ok2) > 0
	var badv []string
	for _, r := range ok2 {
		if retKey(r, 0) != "recv.SignedAttributes.SigningTime" {
			good = false
			badv = append(badv, "returned "+retKey(r, 0))
		}
	}
	c.add("O-C19.5", "returns the signing time field", "the value returned is SignedAttributes.SigningTime", good, posOf(pg2, ok2), badv...)
	c.justify(pg2, "O-C19.5.B", errorOrigins(pg2, 1), []Viol{
		{Name: "scheme is not signingAuthority", All: []LP{A("-" + sa)}},
		{Name: "signing time is zero", All: []LP{A("+" + sa), A("+" + tz)}},
	}, originName)
}

func posOf(pg *PG, ss []*PState) string {
	if len(ss) == 0 {
		return ""
	}
	return pg.G.P.pos(ss[0].Node.Pos)
}

// edgeSourcesOrTargets: the source states of edges satisfying lp (the branch itself).
func edgeSourcesOrTargets(pg *PG, lp LP) []*PState { return edgeTargets(pg, lp) }
