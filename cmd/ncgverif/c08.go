package main

// C08: three structural necessary conditions of "sign then verify returns what
// was asked". Round-trip equality itself is a statement about values and is
// not decided.

import (
	"go/ast"
	"go/types"
	"sort"
	"strings"

	"golang.org/x/tools/go/types/typeutil"
)

func checkC08(c *Check) {
	c.Explain = "C08: round-trip equality over all requests is NOT decided (it is a statement about values through the libraries' encoders/decoders). Decided are three necessary conditions: (1) no lossy numeric decode of the payload on the signing path: bytes derived from SignRequest.Payload.Content never reach json.Unmarshal, and reach a json.Decoder only if UseNumber() was called on that decoder before Decode; COSE stores the payload bytes verbatim; (2) external signers receive exactly the to-be-signed bytes: the JWS remote signing method passes its signingString parameter (converted to bytes, nothing else) to Signer.Sign and returns the result encoded with base64.RawURLEncoding; every base64 use of the jws package is RawURLEncoding (writer/reader agreement); the COSE remote signer forwards its payload parameter unchanged and returns the signature unchanged; (3) writer/reader label agreement: the JWS writer fills the fields of the same header struct type the reader copies from (scheme-dependent time field under the scheme's own guard, expiry only when non-zero); the COSE writer's constant labels equal the labels the reader consumes and the time label comes from the same scheme->label map object; truncation to time.Second is stored into the request before validation and before the format-level Sign (C16.1); the value returned by Sign is the value stored in Raw (C20.2). Not decided: value equality after encode/decode."
	fmts := discoverFormats(c)
	for _, f := range fmts {
		pg := c.signSkeleton(f)
		if pg == nil {
			continue
		}
		switch f.name {
		case "JWS":
			// (1) payload-derived calls in the skeleton
			n := 0
			for _, s := range pg.States {
				for _, e := range s.Out {
					for _, l := range e.Labels {
						if l.Kind != "call" || l.T == nil || !strings.Contains(l.Key, "p0.Payload.Content") {
							continue
						}
						// only direct consumers: an argument IS the payload content
						direct := -1
						for i, a := range l.T.Args {
							if a.Key() == "p0.Payload.Content" {
								direct = i
							}
						}
						if direct < 0 {
							continue
						}
						n++
						where := c.P.pos(l.Node.Pos)
						switch {
						case l.T.Name == "encoding/json.Unmarshal":
							c.add("O-C08.1", "JWS payload is not decoded through float64", "the request payload is not passed to json.Unmarshal (numbers would become float64 and lose precision before being signed)", false, where, l.Key)
						case strings.HasPrefix(l.T.Name, "ncg/"):
							lossyDecodeRule(c, l.T.Name, direct, where)
						default:
							c.add("O-C08.1", "JWS payload consumer is known", "the request payload is handed only to a decoder checked for exact numbers", false, where, l.Key)
						}
					}
				}
			}
			c.floor("JWS payload consumers on the signing path", 1, n)
		case "COSE":
			msg := "github.com/veraison/go-cose.NewSign1Message()"
			ok := returnsWhere(pg, func(s *PState) bool { return retNilErr(s, 1) })
			c.mustPass(pg, "O-C08.1", "COSE payload stored verbatim", "returning the envelope", ok, isStoreOf(msg+".Payload", func(k string) bool { return k == "p0.Payload.Content" }))
			c.mustPass(pg, "O-C08.3", "COSE content type stored under label 3", "returning the envelope", ok, isStoreOf(msg+".Headers.Protected[3]", func(k string) bool { return k == "p0.Payload.ContentType" }))
		}
	}
	truncationRules(c, "O-C08.3")
	chainWriterRules(c)
	// a valid request is signed: the JWS payload check refuses exactly what is not one JSON object
	// (null, trailing data) - in particular white space after the value is fine (O-C16.2)
	c.floor("payload acceptance rules (shared with C16)", 2, shareRules(c, checkC16, []string{"O-C16.2"}, "O-C08.1", "payload: "))
	// COSE: the certificate chain of an external signer is only known after it has signed
	for _, f := range fmts {
		if f.name != "COSE" {
			continue
		}
		if pg := c.signSkeleton(f); pg != nil {
			var writers []*PState
			for _, s := range pg.States {
				for _, e := range s.Out {
					for _, l := range e.Labels {
						if l.Kind == "call" && l.T != nil && strings.HasPrefix(l.T.Name, "ncg/signature/cose.") {
							if wf := c.P.fn(l.T.Name); wf != nil && writesLabel33(wf) {
								writers = append(writers, s)
							}
						}
					}
				}
			}
			c.floor("COSE x5chain writer calls in Sign", 1, len(writers))
			c.mustPass(pg, "O-C08.3", "COSE: x5chain written after the message was signed", "writing the unprotected headers (the chain of an external signer exists only after Signer.Sign returned)", writers, AG("+IsNil((*github.com/veraison/go-cose.Sign1Message).Sign(**))"))
		}
	}
	// every extended attribute travels with its key, value and criticality: the
	// writer marks exactly the flagged keys (O-C13.6), the reader accepts a
	// critical label iff the attribute is present (O-C13.4) and returns key,
	// value and criticality of every surviving header (O-C13.3)
	c.floor("attribute round-trip rules (shared with C13)", 10, shareRules(c, checkC13, []string{"O-C13.3", "O-C13.4", "O-C13.6"}, "O-C08.5", "attributes: "))
	opaquePayloadOnVerify(c, fmts)
	// (2) external signers
	remoteSigners(c)
	base64Agreement(c)
	// (3) label agreement
	for _, f := range fmts {
		w := findAttrWriter(c, f)
		if w == "" {
			continue
		}
		pg := c.pgOf(w)
		if pg == nil {
			continue
		}
		req := paramOfType(pg, "signature.SignRequest")
		ok := returnsWhere(pg, func(s *PState) bool { return retNilErr(s, -1) })
		switch f.name {
		case "JWS":
			// the header literal handed to json.Marshal
			var lits []*Term
			for _, s := range pg.States {
				for _, e := range s.Out {
					for _, l := range e.Labels {
						if l.Kind == "call" && l.T != nil && l.T.Name == "encoding/json.Marshal" && len(l.T.Args) == 1 && l.T.Args[0].Op == "struct" {
							lits = append(lits, l.T.Args[0])
						}
					}
				}
			}
			c.floor("JWS protected header literals", 2, len(lits))
			good := len(lits) > 0
			var det []string
			var hdrType string
			for _, t := range lits {
				hdrType = t.Name
				want := map[string]string{"ContentType": req + ".Payload.ContentType", "SigningScheme": req + ".SigningScheme"}
				for fld, src := range want {
					if v := structGet(t, fld); v == nil || v.Key() != src {
						good = false
						det = append(det, fld+" is not "+src)
					}
				}
				st, at, ex := structGet(t, "SigningTime"), structGet(t, "AuthenticSigningTime"), structGet(t, "Expiry")
				for _, x := range []*Term{st, at} {
					if x != nil && x != tZero && x.Key() != "nil" && x.Key() != "&"+req+".SigningTime" {
						good = false
						det = append(det, "time field is "+x.Key())
					}
				}
				if st != nil && st != tZero && at != nil && at != tZero && st.Key() != "nil" && at.Key() != "nil" {
					good = false
					det = append(det, "both time fields are written")
				}
				if ex != nil && ex != tZero && ex.Key() != "nil" && ex.Key() != "&"+req+".Expiry" {
					good = false
					det = append(det, "expiry is "+ex.Key())
				}
			}
			c.add("O-C08.3", "JWS writer fills the header fields from the matching request fields", "content type, scheme, the scheme's time field and expiry of the protected-header struct are written from the corresponding request fields", good, "", dedupe(sortedCopy(det))...)
			// scheme guards: SigningTime only under x509, AuthenticSigningTime only under SA, Expiry only when non-zero
			marshalWith := func(field string) LP {
				return LP{Desc: "header with " + field, F: func(l Label) bool {
					if l.Kind != "call" || l.T == nil || l.T.Name != "encoding/json.Marshal" || len(l.T.Args) != 1 || l.T.Args[0].Op != "struct" {
						return false
					}
					v := structGet(l.T.Args[0], field)
					return v != nil && v != tZero && v.Key() != "nil"
				}}
			}
			c.mustPass(pg, "O-C08.3", "JWS signingTime header written only under notary.x509", "encoding a header with SigningTime", edgeSources(pg, marshalWith("SigningTime")), A("+Eq("+schemeX+", "+req+".SigningScheme)"))
			c.mustPass(pg, "O-C08.3", "JWS authenticSigningTime header written only under signingAuthority", "encoding a header with AuthenticSigningTime", edgeSources(pg, marshalWith("AuthenticSigningTime")), A("+Eq("+schemeSA+", "+req+".SigningScheme)"))
			c.mustPass(pg, "O-C08.3", "JWS expiry header written only for a non-zero expiry", "encoding a header with Expiry", edgeSources(pg, marshalWith("Expiry")), A("-TZero("+req+".Expiry)"))
			c.mustPass(pg, "O-C08.3", "JWS expiry header always written for a non-zero expiry", "building the protected header", ok, AnyOf(A("+TZero("+req+".Expiry)"), marshalWith("Expiry")))
			// the reader decodes into the same struct type
			sameType := false
			if cpg := c.pgOf(f.method("Content")); cpg != nil {
				t := jwsNames(c)
				for _, s := range cpg.States {
					for _, e := range s.Out {
						for _, l := range e.Labels {
							if l.Kind == "call" && l.Key == t.dec && l.T != nil && len(l.T.Args) == 2 && l.T.Args[1].V != nil {
								sameType = c.P.typeStr(l.T.Args[1].V.Typ) == hdrType
							}
						}
					}
				}
			}
			c.add("O-C08.3", "JWS reader and writer share the header struct", "the protected header is encoded from and decoded into the same struct type, so every field travels under one JSON name", sameType, "", "writer type: "+hdrType)
		case "COSE":
			t := coseNames(c)
			prot := paramOfType(pg, "go-cose.ProtectedHeader")
			if prot == "" {
				prot = "p1"
			}
			extraLabels := map[string]bool{}
			want := []struct {
				key, val, what string
				guard          *LP
			}{
				{prot + "[" + hScheme + "]", req + ".SigningScheme", "signing scheme", nil},
				{prot + "[" + t.labelMap + "[" + req + ".SigningScheme]]", "(github.com/fxamacker/cbor/v2.EncMode).Marshal(" + t.enc + ", " + req + ".SigningTime)#0", "signing time under the scheme's label", nil},
				{prot + "[" + hExpiry + "]", "(github.com/fxamacker/cbor/v2.EncMode).Marshal(" + t.enc + ", " + req + ".Expiry)#0", "expiry", ptr(A("-TZero(" + req + ".Expiry)"))},
			}
			rows := constMapRows(c.P, t.labelMap)
			for wi, w := range want {
				st := isStoreOf(w.key, func(k string) bool { return k == w.val })
				if wi == 1 && len(rows) > 0 && len(edgeSources(pg, st)) == 0 {
					// the writer does not index the table but compares the scheme with its keys one by
					// one: row by row, a path for that scheme stores the time under the row's label,
					// and a row's label is written only for that row's scheme
					for ri, r := range rows {
						under := isStoreOf(prot+"["+r[1]+"]", func(k string) bool { return k == w.val })
						alts := []LP{under, A("-Eq(" + r[0] + ", " + req + ".SigningScheme)")}
						for oi, o := range rows {
							if oi != ri {
								alts = append(alts, A("+Eq("+o[0]+", "+req+".SigningScheme)"))
							}
						}
						c.mustPass(pg, "O-C08.3", "COSE writer stores the "+w.what+" under the reader's label (scheme "+r[0]+")", "building the protected header", ok, AnyOf(alts...))
						c.mustPass(pg, "O-C08.3", "COSE time label "+r[1]+" written only under scheme "+r[0], "writing the time header "+r[1], edgeSources(pg, isStoreOf(prot+"["+r[1]+"]", nil)), A("+Eq("+r[0]+", "+req+".SigningScheme)"))
						extraLabels[strings.Trim(r[1], "\"")] = true
					}
					continue
				}
				lp := st
				if w.guard != nil {
					lp = AnyOf(A("+TZero("+req+".Expiry)"), st)
					c.mustPass(pg, "O-C08.3", "COSE "+w.what+" written only when requested", "writing the "+w.what+" header", edgeSources(pg, st), *w.guard)
				}
				c.mustPass(pg, "O-C08.3", "COSE writer stores the "+w.what+" under the reader's label", "building the protected header", ok, lp)
			}
			// every constant label written is one the reader consumes, and the other way round (except alg via SetAlgorithm and cty in Sign)
			written := map[string]bool{}
			for _, s := range pg.States {
				for _, e := range s.Out {
					for _, l := range e.Labels {
						if (l.Kind == "store" || l.Kind == "lstore") && l.T != nil && l.T.Op == "index" && l.T.Args[0].Key() == prot && l.T.Args[1].isConst() {
							written[l.T.Args[1].Name] = true
						}
					}
				}
			}
			var wl []string
			for k := range written {
				wl = append(wl, k)
			}
			c.Tables["cose_constant_labels_written"] = sortedCopy(wl)
			okW := written[hScheme] && written[hExpiry] && written["2"]
			for k := range written {
				if k != hScheme && k != hExpiry && k != "2" && !extraLabels[strings.Trim(k, "\"")] {
					okW = false
				}
			}
			c.add("O-C08.3", "COSE writer's constant labels", "the header generator writes exactly the constant labels signingScheme, expiry and crit (the time label comes from the scheme->label map, alg and content type are set by Sign)", okW, "", strings.Join(sortedCopy(wl), ","))
		}
	}
}

// lossyDecodeRule: the in-module function fn receives the payload as its
// argument idx; it must not json.Unmarshal it and must call UseNumber on every
// decoder built from it before Decode.
func lossyDecodeRule(c *Check, fn string, idx int, where string) {
	pg := c.pgOf(fn)
	if pg == nil {
		return
	}
	p := "p" + string(rune('0'+idx))
	var bad []string
	ndec := 0
	for _, s := range pg.States {
		for _, e := range s.Out {
			for _, l := range e.Labels {
				if l.Kind != "call" || l.T == nil {
					continue
				}
				switch l.T.Name {
				case "encoding/json.Unmarshal":
					if strings.Contains(l.T.Args[0].Key(), p) {
						bad = append(bad, c.P.pos(l.Node.Pos)+": json.Unmarshal of the payload")
					}
				case "(*encoding/json.Decoder).Decode":
					dec := l.T.Args[0].Key()
					if !strings.Contains(dec, p) {
						continue
					}
					ndec++
					okU, _ := c.cut(pg, []*PState{s}, CallKey("(*encoding/json.Decoder).UseNumber("+dec+")"))
					if !okU {
						bad = append(bad, c.P.pos(l.Node.Pos)+": Decode without a preceding UseNumber() on the same decoder")
					}
					if dec != "encoding/json.NewDecoder(bytes.NewReader("+p+"))" {
						bad = append(bad, c.P.pos(l.Node.Pos)+": decoder is "+dec)
					}
				}
			}
		}
	}
	c.add("O-C08.1", "JWS payload decoded with exact numbers", "the payload decoder has UseNumber() set before Decode and the payload never goes through json.Unmarshal (so integers beyond 2^53 and large exponents are re-encoded verbatim)", len(bad) == 0 && ndec >= 1, where, bad...)
}

// remoteSigners: O-C08.2 on the two adapters that call signature.Signer.Sign.
func remoteSigners(c *Check) {
	sites := c.P.callSites(func(n string) bool { return n == "(ncg/signature.Signer).Sign" })
	c.CallSites += len(sites)
	c.add("O-C08.2", "external signer call sites", "signature.Signer.Sign is invoked at exactly two places (the JWS and the COSE remote adapters)", len(sites) == 2, "")
	for _, s := range sites {
		fn := c.P.abbrev(s.Fn.Obj.FullName())
		pg := c.pgOf(fn)
		if pg == nil {
			continue
		}
		var call *Term
		for _, st := range pg.States {
			for _, e := range st.Out {
				for _, l := range e.Labels {
					if l.Kind == "call" && l.T != nil && l.T.Name == "(ncg/signature.Signer).Sign" {
						call = l.T
					}
				}
			}
		}
		if call == nil {
			continue
		}
		ok := returnsWhere(pg, func(s *PState) bool { return retNilErr(s, 1) })
		switch {
		case strings.Contains(fn, "/jws."):
			c.add("O-C08.2", "JWS: external signer gets exactly the signing string", "Signer.Sign receives the byte conversion of the signingString parameter and nothing else", call.Args[1].Key() == "p0", c.P.pos(s.Call.Pos()), "argument: "+call.Args[1].Key())
			good := len(ok) > 0
			for _, r := range ok {
				if retKey(r, 0) != "(*encoding/base64.Encoding).EncodeToString(encoding/base64.RawURLEncoding, "+call.Key()+"#0)" {
					good = false
				}
			}
			c.add("O-C08.2", "JWS: external signature returned base64url-encoded, untransformed", "the signature string is RawURLEncoding of exactly the bytes the signer returned", good, posOf(pg, ok))
		default:
			c.add("O-C08.2", "COSE: external signer gets exactly the to-be-signed bytes", "Signer.Sign receives the payload parameter of the cose.Signer adapter unchanged", call.Args[1].Key() == "p1", c.P.pos(s.Call.Pos()), "argument: "+call.Args[1].Key())
			good := len(ok) > 0
			for _, r := range ok {
				if retKey(r, 0) != call.Key()+"#0" {
					good = false
				}
			}
			c.add("O-C08.2", "COSE: external signature returned unchanged", "the adapter returns exactly the bytes the signer returned", good, posOf(pg, ok))
		}
		c.mustPass(pg, "O-C08.2", fn[strings.LastIndex(fn, "/")+1:]+": signer error propagates", "returning a signature", ok, A("+IsNil("+call.Key()+"#2)"))
	}
}

// base64Agreement: every base64 encode/decode in the jws package uses
// base64.RawURLEncoding.
func base64Agreement(c *Check) {
	n := 0
	var bad []string
	for _, fs := range c.P.productFuncs() {
		if !strings.HasSuffix(fs.Pkg.PkgPath, "/signature/jws") {
			continue
		}
		info := fs.Pkg.TypesInfo
		ast.Inspect(fs.Decl.Body, func(nd ast.Node) bool {
			call, ok := nd.(*ast.CallExpr)
			if !ok {
				return true
			}
			fn, ok := typeutil.Callee(info, call).(*types.Func)
			if !ok || fn.Pkg() == nil || fn.Pkg().Path() != "encoding/base64" {
				return true
			}
			n++
			se, ok := ast.Unparen(call.Fun).(*ast.SelectorExpr)
			if !ok {
				return true
			}
			recv, ok := ast.Unparen(se.X).(*ast.SelectorExpr)
			if !ok || recv.Sel.Name != "RawURLEncoding" {
				bad = append(bad, c.P.pos(call.Pos())+": "+exprString(se.X)+"."+se.Sel.Name)
			}
			return true
		})
	}
	c.add("O-C08.2", "JWS base64 encoding agreement", "every base64 encode/decode of the jws package uses base64.RawURLEncoding (what the writer encodes the reader decodes)", len(bad) == 0 && n >= 4, "", bad...)
	c.floor("base64 uses in the jws package", 4, n)
}

// truncationRules: the request's times are truncated to whole seconds before
// anything is validated and before the format-level Sign sees them.
func truncationRules(c *Check, rule string) {
	pg := c.pgOfNI(baseSign, csValidator)
	if pg == nil {
		return
	}
	ok := returnsWhere(pg, func(s *PState) bool { return retNilErr(s, 1) })
	anyAtom := LP{Desc: "any test", F: func(l Label) bool { return l.Kind == "atom" }}
	M := CallKey("(ncg/signature.Envelope).Sign(recv.Envelope, p0)")
	for _, f := range []string{"p0.SigningTime", "p0.Expiry"} {
		tr := isStoreOf(f, func(k string) bool { return k == "(time.Time).Truncate("+f+", 1000000000)" })
		c.mustPass(pg, rule, "Sign: "+f+" truncated to whole seconds", "the wrapper's Sign returns an envelope", ok, tr)
		c.mustPass(pg, rule, "Sign: "+f+" truncated before anything is validated", "testing any condition of the request (validation must see the times that will be encoded: two instants inside one second would pass validation and encode as equal)", edgeSources(pg, anyAtom), tr)
		c.mustPass(pg, rule, "Sign: "+f+" truncated before the format encodes it", "calling the format-level Sign", edgeSources(pg, M), tr)
		c.noPathFrom(pg, rule, "Sign: "+f+" not rewritten after truncation", "after truncation the field is not stored again before the envelope is returned", tr, edgeSources(pg, LP{Desc: "another store to " + f, F: func(l Label) bool {
			return (l.Kind == "store" || l.Kind == "lstore") && l.Key == f && !tr.F(l)
		}}), nil)
	}
}

// opaquePayloadOnVerify: JWS verification must treat the signed payload as
// opaque bytes: the JWT parser is built with claims validation switched off
// (a payload member named exp/nbf/iat is data, not a token lifetime).
func opaquePayloadOnVerify(c *Check, fmts []format) {
	const jwtPkg = "github.com/golang-jwt/jwt/v4"
	for _, f := range fmts {
		if f.name != "JWS" {
			continue
		}
		pg := c.pgOfNI(f.method("Verify"), f.method("Content"))
		if pg == nil {
			continue
		}
		n := 0
		for _, s := range pg.States {
			for _, e := range s.Out {
				for _, l := range e.Labels {
					if l.Kind != "call" || l.T == nil {
						continue
					}
					if l.T.Name == jwtPkg+".Parse" || l.T.Name == jwtPkg+".ParseWithClaims" {
						// the package-level form: the options follow the key function
						n++
						where := c.P.pos(l.Node.Pos)
						has := map[string]bool{}
						for _, a := range l.T.Args {
							has[strings.TrimPrefix(a.Name, jwtPkg+".")] = true
						}
						c.add("O-C08.4", "JWS verification does not interpret the payload as JWT claims", "the JWT parse call of Verify passes WithoutClaimsValidation (otherwise a signed payload with a member exp/nbf/iat fails to verify)", has["WithoutClaimsValidation"], where, "call: "+l.T.Key())
						c.add("O-C08.4", "JWS verification decodes payload numbers losslessly", "the JWT parse call of Verify passes WithJSONNumber (otherwise a signed payload holding a number beyond float64, e.g. 1e400, fails to verify although Sign accepted it)", has["WithJSONNumber"], where, "call: "+l.T.Key())
						continue
					}
					if !strings.HasPrefix(l.T.Name, "(*"+jwtPkg+".Parser).Parse") {
						continue
					}
					n++
					where := c.P.pos(l.Node.Pos)
					parser := l.T.Args[0]
					switch {
					case parser.Name == jwtPkg+".NewParser":
						has := map[string]bool{}
						for _, a := range parser.Args {
							has[strings.TrimPrefix(a.Name, jwtPkg+".")] = true
						}
						c.add("O-C08.4", "JWS verification does not interpret the payload as JWT claims", "the JWT parser used by Verify is built with WithoutClaimsValidation (otherwise a signed payload with a member exp/nbf/iat fails to verify)", has["WithoutClaimsValidation"], where, "parser: "+parser.Key())
						c.add("O-C08.4", "JWS verification decodes payload numbers losslessly", "the JWT parser used by Verify is built with WithJSONNumber (otherwise a signed payload holding a number beyond float64, e.g. 1e400, fails to verify although Sign accepted it)", has["WithJSONNumber"], where, "parser: "+parser.Key())
					case parser.Op == "addr" && len(parser.Args) == 1 && parser.Args[0].Op == "struct":
						v := structGet(parser.Args[0], "SkipClaimsValidation")
						c.add("O-C08.4", "JWS verification does not interpret the payload as JWT claims", "the JWT parser used by Verify has SkipClaimsValidation set", v != nil && v.Key() == "true", where, "parser: "+parser.Key())
						un := structGet(parser.Args[0], "UseJSONNumber")
						c.add("O-C08.4", "JWS verification decodes payload numbers losslessly", "the JWT parser used by Verify has UseJSONNumber set", un != nil && un.Key() == "true", where, "parser: "+parser.Key())
					default:
						c.undecided("O-C08.4", "JWS verification does not interpret the payload as JWT claims", "the JWT parser's construction is not recognised: "+parser.Key(), where)
					}
				}
			}
		}
		c.floor("JWT parse calls in JWS Verify", 1, n)
	}
}

// chainWriterRules: O-C08.3 for the certificate chain. The writer stores the
// signer's chain complete, in order and in the one form the reader decodes (a
// list with one raw certificate per element, also for a chain of one).
func chainWriterRules(c *Check) {
	rawCopy := func(pg *PG, list, chain string) {
		slot := list + "[rk(" + chain + ")]"
		good := false
		var det []string
		for _, s := range pg.States {
			for _, e := range s.Out {
				for _, l := range e.Labels {
					if (l.Kind == "store" || l.Kind == "lstore") && strings.HasPrefix(l.Key, list+"[") {
						if l.Key == slot && l.T2 != nil && l.T2.Key() == "re("+chain+").Raw" {
							good = true
						} else {
							det = append(det, c.P.pos(l.Node.Pos)+": "+l.String())
						}
					}
				}
			}
		}
		c.add("O-C08.3", shortCallee(pg.G.Insts[0].Name)+": element i of the written chain is certificate i's raw bytes", "the only stores into the written list put re(chain).Raw at the range key of the chain", good && len(det) == 0, "", det...)
		c.perIteration(pg, "O-C08.3", shortCallee(pg.G.Insts[0].Name)+": every certificate of the chain is written", "each certificate's raw bytes are stored at its own index", chain, StoreTo(slot))
	}
	// COSE: the function that stores under label 33 (x5chain)
	ncose := 0
	for _, fs := range c.P.productFuncs() {
		if !strings.HasSuffix(fs.Pkg.PkgPath, "/signature/cose") {
			continue
		}
		name := c.P.abbrev(fs.Obj.FullName())
		writes := false
		ast.Inspect(fs.Decl.Body, func(n ast.Node) bool {
			if as, ok := n.(*ast.AssignStmt); ok {
				for _, l := range as.Lhs {
					if ix, ok := ast.Unparen(l).(*ast.IndexExpr); ok {
						if tv := fs.Pkg.TypesInfo.Types[ix.Index]; tv.Value != nil && tv.Value.String() == "33" {
							writes = true
						}
					}
				}
			}
			return true
		})
		if !writes {
			continue
		}
		pg := c.skeleton(name)
		if pg == nil {
			continue
		}
		ncose++
		var vals []string
		var chain string
		for _, s := range pg.States {
			for _, e := range s.Out {
				for _, l := range e.Labels {
					if (l.Kind == "store" || l.Kind == "lstore") && strings.HasSuffix(l.Key, "[33]") && l.T2 != nil {
						vals = append(vals, l.T2.Key())
						if t := l.T2; t.Op == "call" && t.Name == "make" && len(t.Args) >= 2 && isLen(t.Args[1]) {
							chain = t.Args[1].Args[0].Key()
						}
					}
				}
			}
		}
		vals = dedupe(sortedCopy(vals))
		list := "make([]any, len(" + chain + "))"
		okForm := len(vals) == 1 && chain != "" && vals[0] == list && strings.Contains(chain, "CertificateChain(")
		c.add("O-C08.3", "COSE: x5chain is always written as the list of the signer's chain", "every store under label 33 writes one value: a []any with one element per certificate of signer.CertificateChain() (also for a chain of one, which the reader only decodes in this form)", okForm, c.P.pos(fs.Decl.Pos()), vals...)
		if okForm {
			var target string
			for _, s := range pg.States {
				for _, e := range s.Out {
					for _, l := range e.Labels {
						if (l.Kind == "store" || l.Kind == "lstore") && strings.HasSuffix(l.Key, "[33]") {
							target = l.Key
						}
					}
				}
			}
			c.mustPass(pg, "O-C08.3", "COSE: x5chain written on every path", "the unprotected header generator returns", pg.Returns(), StoreTo(target))
			rawCopy(pg, list, chain)
		}
	}
	c.floor("COSE x5chain writers", 1, ncose)
	// JWS: generateJWS returns an envelope whose Header.CertChain is the list of raw certificates
	for _, fs := range c.P.productFuncs() {
		if !strings.HasSuffix(fs.Pkg.PkgPath, "/signature/jws") {
			continue
		}
		sig := fs.Obj.Type().(*types.Signature)
		if sig.Results().Len() != 2 || !strings.HasSuffix(c.P.typeStr(sig.Results().At(0).Type()), "jwsEnvelope") {
			continue
		}
		name := c.P.abbrev(fs.Obj.FullName())
		pg := c.skeleton(name)
		if pg == nil {
			continue
		}
		ok := returnsWhere(pg, func(s *PState) bool { return retNilErr(s, 1) })
		chainParam := paramOfType(pg, "[]*crypto/x509.Certificate")
		good := len(ok) > 0 && chainParam != ""
		list := "make([][]byte, len(" + chainParam + "))"
		var det []string
		for _, s := range ok {
			t := s.Ret[0].T
			if t.Op == "addr" {
				t = t.Args[0]
			}
			h := structGet(t, "Header")
			var cc *Term
			if h != nil {
				cc = structGet(h, "CertChain")
			}
			if cc == nil || cc.Key() != list {
				good = false
				if cc != nil {
					det = append(det, "CertChain: "+cc.Key())
				} else {
					det = append(det, "CertChain not set in the returned envelope")
				}
			}
		}
		c.add("O-C08.3", "JWS: x5c is the list of the signer's chain", "the generated envelope's Header.CertChain is a [][]byte with one element per certificate handed in", good, c.P.pos(fs.Decl.Pos()), det...)
		if good {
			rawCopy(pg, list, chainParam)
		}
	}
}

// writesLabel33: the function stores under the constant header label 33 (x5chain).
func writesLabel33(fs *FuncSrc) bool {
	writes := false
	ast.Inspect(fs.Decl.Body, func(n ast.Node) bool {
		if as, ok := n.(*ast.AssignStmt); ok {
			for _, l := range as.Lhs {
				if ix, ok := ast.Unparen(l).(*ast.IndexExpr); ok {
					if tv := fs.Pkg.TypesInfo.Types[ix.Index]; tv.Value != nil && tv.Value.String() == "33" {
						writes = true
					}
				}
			}
		}
		return true
	})
	return writes
}

// constMapRows: the (key, value) rows of a package-level map with a literal of
// constants that is never written (sorted by key); nil if it is not one.
func constMapRows(p *Prog, global string) [][2]string {
	for _, pk := range p.Pkgs {
		if !isProductPkg(pk.PkgPath, p.ModPath) || pk.Types == nil {
			continue
		}
		sc := pk.Types.Scope()
		for _, nm := range sc.Names() {
			v, ok := sc.Lookup(nm).(*types.Var)
			if !ok || p.abbrev(pk.PkgPath)+"."+nm != global || !p.neverWritten(v) {
				continue
			}
			cl, ok := ast.Unparen(findInit(pk.Syntax, pk.TypesInfo, v)).(*ast.CompositeLit)
			if !ok {
				return nil
			}
			var rows [][2]string
			for _, e := range cl.Elts {
				kv, ok := e.(*ast.KeyValueExpr)
				if !ok {
					return nil
				}
				ktv, kok := pk.TypesInfo.Types[kv.Key]
				vtv, vok := pk.TypesInfo.Types[kv.Value]
				if !kok || !vok || ktv.Value == nil || vtv.Value == nil {
					return nil
				}
				rows = append(rows, [2]string{constTerm(ktv.Value).Key(), constTerm(vtv.Value).Key()})
			}
			sort.Slice(rows, func(i, j int) bool { return rows[i][0] < rows[j][0] })
			return rows
		}
	}
	return nil
}

// mapRowTerms is constMapRows for a table whose values may also be never-written package
// variables (rendered by the variable's term name, as the explorer renders a read of it).
func mapRowTerms(p *Prog, global string) [][2]string {
	for _, pk := range p.Pkgs {
		if !isProductPkg(pk.PkgPath, p.ModPath) || pk.Types == nil {
			continue
		}
		sc := pk.Types.Scope()
		for _, nm := range sc.Names() {
			v, ok := sc.Lookup(nm).(*types.Var)
			if !ok || p.abbrev(pk.PkgPath)+"."+nm != global || !p.neverWritten(v) {
				continue
			}
			cl, ok := ast.Unparen(findInit(pk.Syntax, pk.TypesInfo, v)).(*ast.CompositeLit)
			if !ok {
				return nil
			}
			var rows [][2]string
			for _, e := range cl.Elts {
				kv, ok := e.(*ast.KeyValueExpr)
				if !ok {
					return nil
				}
				ktv, kok := pk.TypesInfo.Types[kv.Key]
				if !kok || ktv.Value == nil {
					return nil
				}
				val := ""
				if vtv, vok := pk.TypesInfo.Types[kv.Value]; vok && vtv.Value != nil {
					val = constTerm(vtv.Value).Key()
				} else if id := selIdent(kv.Value); id != nil {
					if gv, ok := pk.TypesInfo.Uses[id].(*types.Var); ok && gv.Pkg() != nil && gv.Parent() == gv.Pkg().Scope() && p.neverWritten(gv) {
						val = p.abbrev(gv.Pkg().Path()) + "." + gv.Name()
					}
				}
				if val == "" {
					return nil
				}
				rows = append(rows, [2]string{constTerm(ktv.Value).Key(), val})
			}
			sort.Slice(rows, func(i, j int) bool { return rows[i][0] < rows[j][0] })
			return rows
		}
	}
	return nil
}
