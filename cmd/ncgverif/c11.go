package main

// C11 / C12: the revocation validator's per-certificate dispatch and result
// slice, analysed with the per-method checkers left opaque.

import (
	"fmt"
	"strings"
)

const (
	ocspCheckFn = "ncg/revocation/internal/ocsp.CertCheckStatus"
	crlCheckFn  = "ncg/revocation/internal/crl.CertCheckStatus"
	chainValFn  = "ncg/revocation/internal/x509util.ValidateChain"
	newWithOpts = "ncg/revocation.NewWithOptions"
	standalone  = "ncg/revocation/ocsp.CheckStatus"
)

// valTerms: vocabulary of a fan-out validator graph.
type valTerms struct {
	fn, chain, L, cert, i, issuer, R, OC, CC, purpose string
	pg                                                *PG
}

// validatorMethod discovers the concrete ValidateContext method behind
// revocation.NewWithOptions.
func validatorMethod(c *Check) string {
	pg := c.pgOf(newWithOpts)
	if pg == nil {
		return ""
	}
	for _, s := range pg.Returns() {
		if retNilErr(s, 1) {
			if dt, ok := dynType(s.Ret[0].T); ok && strings.HasPrefix(dt, "*") {
				return "(" + dt + ").ValidateContext"
			}
		}
	}
	c.undecided("anchor", "validator type", "cannot determine the concrete Validator returned by revocation.NewWithOptions", "")
	return ""
}

func fanoutGraph(c *Check, fn string, chain, ctx, purpose string) *valTerms {
	pg := c.pgOfNI(fn, ocspCheckFn, crlCheckFn, chainValFn)
	if pg == nil {
		return nil
	}
	v := &valTerms{fn: fn, chain: chain, pg: pg, purpose: purpose}
	v.L = chain + "[_:(len(" + chain + ") - 1)]"
	v.cert = "re(" + v.L + ")"
	v.i = "rk(" + v.L + ")"
	v.issuer = chain + "[(" + v.i + " + 1)]"
	v.R = "make([]*ncg/revocation/result.CertRevocationResult, len(" + chain + "))"
	// the actual call keys are discovered (options literal differs per entry point)
	for _, s := range pg.States {
		for _, e := range s.Out {
			for _, l := range e.Labels {
				if l.Kind == "call" && l.T != nil {
					switch l.T.Name {
					case ocspCheckFn:
						v.OC = l.Key
					case crlCheckFn:
						v.CC = l.Key
					}
				}
			}
		}
	}
	return v
}

func isStoreOf(target string, valKey func(string) bool) LP {
	return LP{Desc: "store " + target, F: func(l Label) bool {
		return (l.Kind == "store" || l.Kind == "lstore") && l.Key == target && (valKey == nil || (l.T2 != nil && valKey(l.T2.Key())))
	}}
}

func checkC11(c *Check) {
	c.Explain = "C11: (0) inside the OCSP checker a Good/Revoked/unknown-status answer of one responder ends the responder loop at once and is the certificate's OCSP result (the rules of O-C04.4, re-evaluated here as O-C11.5: otherwise a later responder's failure would turn Revoked into Unknown and open the CRL fallback); the validator's ValidateContext (goroutine bodies spliced in at their go statements, per-method checkers opaque), decided on every path of one iteration: (1) the OCSP checker is called only for a certificate with responders; the CRL checker only after OCSP was asked or when there are no responders, and only for a certificate with distribution points; the NonRevokable literal only when it has neither; (2) inside the OCSP arm the CRL checker is called only if the OCSP result is non-nil, Unknown, and the certificate has distribution points, and the bare OCSP result is stored only if that condition is false — so Good/Revoked OCSP verdicts are final and no CRL call is reachable for them; (3) the fallback stores into the CRL result exactly RevocationMethod=OCSPFallbackCRL and ServerResults=append(ocsp results, crl results...) and never its Result; (4) the standalone OCSP entry point's packages do not import the CRL packages. Does not decide which URLs are contacted beyond call reachability."
	c.Assume = append(c.Assume, "per-source outcome classes are decided under C04/C05")
	ocspDecisiveRules(c)
	fn := validatorMethod(c)
	if fn == "" {
		return
	}
	v := fanoutGraph(c, fn, "p1.CertChain", "p0", "recv.certChainPurpose")
	if v == nil {
		return
	}
	pg := v.pg
	if v.OC == "" || v.CC == "" {
		c.undecided("O-C11.1", "checker calls", "the validator does not call both per-method checkers", c.P.pos(pg.G.Root.Decl.Pos()))
		return
	}
	ocCall, ccCall := CallKey(v.OC), CallKey(v.CC)
	noOCSP := AnyOf(A("+Empty("+v.cert+".OCSPServer)"), A("+IsNil("+v.cert+")"))
	noCRL := AnyOf(A("+Empty("+v.cert+".CRLDistributionPoints)"), A("+IsNil("+v.cert+")"))
	hasOCSP := A("-Empty(" + v.cert + ".OCSPServer)")
	hasCRL := A("-Empty(" + v.cert + ".CRLDistributionPoints)")
	c.floor("OCSP checker call sites", 1, len(edgeSources(pg, ocCall)))
	c.floor("CRL checker call sites", 1, len(distinctEdgeNodes(pg, ccCall)))
	// both contexts of the CRL checker exist, whether they are two call sites or one: it is
	// reachable within an iteration without the OCSP checker having been asked (certificates that
	// name distribution points only), and after it (the fallback)
	_, direct := c.search(pg, edgeTargets(pg, RangeNext(v.L)), inSet(edgeSources(pg, ccCall)), blockedBy(AnyOf(ocCall, RangeNext(v.L), RangeDone(v.L))))
	c.add("O-C11.1", "CRL checker reachable for certificates without responders", "within an iteration the CRL checker can be reached without the OCSP checker having been called (CRL-only certificates are checked)", direct, "")
	_, after := c.search(pg, edgeTargets(pg, ocCall), inSet(edgeSources(pg, ccCall)), blockedBy(AnyOf(RangeNext(v.L), RangeDone(v.L))))
	c.add("O-C11.1", "CRL checker reachable after the OCSP checker", "within an iteration the CRL checker can be reached after the OCSP checker (the fallback exists)", after, "")
	// O-C11.1
	c.within(pg, "O-C11.1", "OCSP only with responders", "the OCSP checker is called only for a certificate that names responders", v.L, hasOCSP, ocCall)
	c.within(pg, "O-C11.1", "CRL only after OCSP or without responders", "the CRL checker is called only after the OCSP checker or for a certificate without responders", v.L, AnyOf(ocCall, noOCSP), ccCall)
	c.within(pg, "O-C11.1", "CRL only with distribution points", "the CRL checker is called only for a certificate that names distribution points", v.L, hasCRL, ccCall)
	slot := v.R + "[" + v.i + "]"
	isNonRev := func(k string) bool {
		return strings.HasPrefix(k, "&{ncg/revocation/result.CertRevocationResult Result:2 ")
	}
	nonRevStore := isStoreOf(slot, isNonRev)
	c.floor("NonRevokable slot stores", 1, len(edgeSources(pg, nonRevStore)))
	c.within(pg, "O-C11.1", "NonRevokable only without responders", "the NonRevokable literal is stored only for a certificate without responders", v.L, noOCSP, nonRevStore)
	c.within(pg, "O-C11.1", "NonRevokable only without distribution points", "the NonRevokable literal is stored only for a certificate without distribution points", v.L, noCRL, nonRevStore)
	// O-C11.2 fallback exactly when inconclusive
	unk := A("+Eq(0, " + v.OC + ".Result)")
	ccSrc := edgeSources(pg, ccCall)
	for _, g := range []struct {
		n  string
		lp LP
	}{{"OCSP result is non-nil", A("-IsNil(" + v.OC + ")")}, {"OCSP result is Unknown", unk}, {"certificate has distribution points", hasCRL}} {
		if g.n == "certificate has distribution points" {
			// a property of the certificate: may have been tested earlier in the iteration (hoisted into a local)
			c.noPathFromInIter(pg, "O-C11.2", "fallback only if "+g.n, "after the OCSP checker the CRL checker is called only if "+g.n, v.L, ocCall, ccSrc, AnyOf(g.lp, RangeNext(v.L)), g.lp)
			continue
		}
		c.noPathFrom(pg, "O-C11.2", "fallback only if "+g.n, "after the OCSP checker the CRL checker is called only if "+g.n, ocCall, ccSrc, ptr(AnyOf(g.lp, RangeNext(v.L))))
	}
	// (a test made earlier in the iteration speaks about this certificate only if the local that keeps
	// its outcome is per-iteration: the goroutine reads no loop-carried variable, O-C17.3)
	c.floor("per-iteration state rules (shared with C17)", 1, shareRulesWhere(c, checkC17, []string{"O-C17.3"}, "O-C11.2", "per-certificate state: ", func(n string) bool {
		return strings.Contains(n, "loop-carried")
	}))
	bare := isStoreOf(slot, func(k string) bool { return k == v.OC || k == "nil" })
	c.floor("bare OCSP result stores", 1, len(edgeSources(pg, bare)))
	c.noPathFromInIter(pg, "O-C11.2", "OCSP verdict kept only if conclusive or no CRL", "the OCSP result becomes the certificate's result only if it is nil, not Unknown, or the certificate has no distribution points", v.L, ocCall, edgeSources(pg, bare), AnyOf(A("+IsNil("+v.OC+")"), A("-Eq(0, "+v.OC+".Result)"), noCRL, RangeNext(v.L)), noCRL)
	// after the OCSP checker, the iteration ends with the bare result or with the fallback result
	fb := isStoreOf(slot, func(k string) bool { return k == v.CC })
	c.noPathFrom(pg, "O-C11.2", "OCSP arm always stores a result", "after the OCSP checker the iteration stores either the OCSP result or the fallback result", ocCall, edgeTargets(pg, AnyOf(RangeNext(v.L), RangeDone(v.L))), ptr(AnyOf(bare, fb)))
	// O-C11.3 merge
	wantSR := "append(" + v.OC + ".ServerResults, spread:(" + v.CC + ".ServerResults))"
	mergeSR := isStoreOf(v.CC+".ServerResults", func(k string) bool { return k == wantSR })
	mergeM := isStoreOf(v.CC+".RevocationMethod", func(k string) bool { return k == "3" })
	// on the path OCSP-call -> CRL-call -> store slot := CC both stores happen
	c.noPathFrom(pg, "O-C11.3", "fallback carries OCSP results then CRL results", "the fallback result's server results are the OCSP results followed by the CRL results", ocCall, edgeSources(pg, fb), ptr(AnyOf(mergeSR, RangeNext(v.L))))
	c.noPathFrom(pg, "O-C11.3", "fallback labelled OCSPFallbackCRL", "the fallback result's method is OCSPFallbackCRL", ocCall, edgeSources(pg, fb), ptr(AnyOf(mergeM, RangeNext(v.L))))
	var badStores []string
	for _, s := range pg.States {
		for _, e := range s.Out {
			for _, l := range e.Labels {
				if (l.Kind == "store" || l.Kind == "lstore") && (strings.HasPrefix(l.Key, v.CC+".") || strings.HasPrefix(l.Key, v.OC+".")) {
					ok := (l.Key == v.CC+".ServerResults" && l.T2.Key() == wantSR) || (l.Key == v.CC+".RevocationMethod" && l.T2.Key() == "3")
					if !ok {
						badStores = append(badStores, c.P.pos(l.Node.Pos)+": "+l.String())
					}
				}
			}
		}
	}
	c.add("O-C11.3", "no other write to a checker's result", "the validator writes nothing into a checker's result except the fallback's method and merged server results (never the verdict)", len(badStores) == 0, "", badStores...)
	// the direct CRL arm stores the CRL result as is
	c.within(pg, "O-C11.1", "CRL-only arm stores the CRL result", "a CRL result is stored in the slot only after the CRL checker ran", v.L, ccCall, fb)
	// O-C11.4 the standalone entry never consults CRLs
	checkNoCRLImports(c)
	spg := c.pgOfNI(standalone, ocspCheckFn, chainValFn)
	if spg != nil {
		n := 0
		for _, s := range spg.States {
			for _, e := range s.Out {
				for _, l := range e.Labels {
					if l.Kind == "call" && l.T != nil && strings.Contains(l.T.Name, "/crl") {
						n++
					}
				}
			}
		}
		c.add("O-C11.4", "standalone OCSP calls nothing of the CRL packages", "ocsp.CheckStatus calls no function of the CRL packages", n == 0, "")
	}
}

func distinctEdgeNodes(pg *PG, lp LP) map[*Node]bool {
	m := map[*Node]bool{}
	for _, s := range pg.States {
		for _, e := range s.Out {
			for _, l := range e.Labels {
				if lp.F(l) {
					m[l.Node] = true
				}
			}
		}
	}
	return m
}

func checkNoCRLImports(c *Check) {
	mod := c.P.ModPath
	bad := []string{}
	for _, root := range []string{mod + "/revocation/ocsp", mod + "/revocation/internal/ocsp"} {
		seen := map[string]bool{}
		var walk func(string)
		walk = func(p string) {
			if seen[p] {
				return
			}
			seen[p] = true
			pk := c.P.All[p]
			if pk == nil {
				return
			}
			for ip := range pk.Imports {
				if strings.HasPrefix(ip, mod) {
					walk(ip)
				}
			}
		}
		if c.P.All[root] == nil {
			c.undecided("O-C11.4", "package "+root, "package not loaded", "")
			continue
		}
		walk(root)
		for p := range seen {
			if p == mod+"/revocation/crl" || p == mod+"/revocation/internal/crl" {
				bad = append(bad, fmt.Sprintf("%s imports (transitively) %s", root, p))
			}
		}
	}
	c.add("O-C11.4", "standalone OCSP packages do not import CRL packages", "revocation/ocsp and revocation/internal/ocsp do not import the CRL packages, directly or transitively", len(bad) == 0, "", bad...)
}

// ocspDecisiveRules re-evaluates the responder-loop rules of C04 (O-C04.4)
// under C11: they are what makes a Good or Revoked OCSP answer final.
func ocspDecisiveRules(c *Check) {
	sub := newCheck(c.Prop, c.P, c.Tier)
	sub.depth = c.depth
	checkC04(sub)
	n := 0
	for _, o := range sub.Obls {
		if o.Rule == "O-C04.4" || o.Rule == "O-C04.5" || (!o.OK && (o.Rule == "anchor" || o.Rule == "engine")) {
			n++
			ob := c.add("O-C11.5", strings.TrimPrefix(o.Key, o.Rule+"|"), o.Desc, o.OK, o.Where, o.Detail...)
			ob.Undecided = o.Undecided
		}
	}
	c.Searches += sub.Searches
	c.States += sub.States
	c.floor("OCSP responder-loop rules (shared with C04)", 5, n)
}
