package main

// C05: CRL-based OK verdict requires every distribution point to deliver an
// authentic, current CRL (bundle).

import (
	"strings"
)

const (
	oidIDP       = "[encoding/asn1.ObjectIdentifier: 2, 5, 29, 28]"
	oidDeltaInd  = "[encoding/asn1.ObjectIdentifier: 2, 5, 29, 27]"
	oidFreshest  = "[encoding/asn1.ObjectIdentifier: 2, 5, 29, 46]"
	oidInvalDate = "[encoding/asn1.ObjectIdentifier: 2, 5, 29, 24]"
)

// The search for an extension by its object identifier (x509util.FindExtensionByOID, analysed from
// its source - slices.IndexFunc with a closure or a hand-written loop): extAbsent matches the
// exhaustion of the search loop over exts for oid, extPresent the comparison that found it.
const findExtFn = "ncg/revocation/internal/x509util.FindExtensionByOID"

func findExtInst(in *Instance) *Instance {
	for ; in != nil; in = in.Parent {
		if in.Fn != nil && in.Name == findExtFn {
			return in
		}
	}
	return nil
}

func extAbsent(exts, oid string) LP {
	return LP{Keyed: true, Desc: "extension " + oid + " not found in " + exts, F: func(l Label) bool {
		if l.Kind != "rangedone" || l.Key != exts || l.Node == nil {
			return false
		}
		in := findExtInst(l.Node.Inst)
		return in != nil && len(in.Args) == 2 && in.Args[1].Key() == oid
	}}
}

func extPresent(exts, oid string) LP {
	return LP{Keyed: true, Desc: "extension " + oid + " found in " + exts, F: func(l Label) bool {
		if l.Kind != "atom" || !l.Pol || l.Implied || l.Node == nil || l.Key != "OidEq("+oid+", re("+exts+").Id)" {
			return false
		}
		return findExtInst(l.Node.Inst) != nil
	}}
}

// extValue: the value of the extension the search found.
func extValue(exts string) string { return "re(" + exts + ").Value" }

// crlTerms names the terms of the CRL root in the entry point's vocabulary.
type crlTerms struct {
	dps, dp, fetch, bundle, ferr, base, delta, ind string
}

func crlRootTerms() crlTerms {
	t := crlTerms{}
	t.dps = "p1.CRLDistributionPoints"
	t.dp = "re(" + t.dps + ")"
	t.fetch = "(ncg/revocation/crl.Fetcher).Fetch(p3.Fetcher, p0, " + t.dp + ")"
	t.bundle = t.fetch + "#0"
	t.ferr = t.fetch + "#1"
	t.base = t.bundle + ".BaseCRL"
	t.delta = t.bundle + ".DeltaCRL"
	t.ind = "(*golang.org/x/crypto/cryptobyte.String).ReadASN1Integer(&$[golang.org/x/crypto/cryptobyte.String], new(math/big.Int))"
	return t
}

func crlValidReqs(x, issuer string) []req {
	ext := "re(" + x + ".Extensions)"
	return []req{
		{"signed by the issuer", A("+IsNil((*crypto/x509.RevocationList).CheckSignatureFrom(" + x + ", " + issuer + "))")},
		{"next update not passed", A("-TLt(" + x + ".NextUpdate, time.Now())")},
		{"list extensions fully examined", RangeDone(x + ".Extensions")},
		_perIterMarker(x+".Extensions", "no unknown critical list extension", AnyOf(A("+OidEq("+oidIDP+", "+ext+".Id)"), A("+OidEq("+oidDeltaInd+", "+ext+".Id)"), A("-Truth("+ext+".Critical)"))),
	}
}

// _perIterMarker encodes a per-iteration requirement on a nested loop in a req
// (name prefixed by the loop key and a tab).
func _perIterMarker(loop, name string, lp LP) req {
	return req{name: "\t" + loop + "\t" + name, lp: lp}
}

func checkC05(c *Check) {
	c.Explain = "C05: internal/crl.CertCheckStatus with bundle validation and the entry scan inlined, decided on every path: (1) the OK verdict is reachable only through the exhaustion edge of the loop over ALL distribution points and, per iteration, only through the success edges of Fetch (err == nil), of the freshest-CRL refusal (no freshest-CRL extension in the certificate or a delta in the bundle), of bundle validation and of the entry scan; a failure edge that leaves the loop can reach only the Unknown (or an earlier Revoked) verdict; (2) bundle validation requires for the base and, when present, for the delta: CheckSignatureFrom(issuer) == nil with the issuer parameter, next-update not passed, every list extension either issuingDistributionPoint / deltaCRLIndicator or non-critical, and for the delta: both CRL numbers present, delta number strictly greater than the base number, indicator present, parsed and not above the base number; every rejection of the validator is guarded by the negation of one of these (two-sided); (3) verdict literals. Signature mathematics and the cRLSign/CA rule are inside CheckSignatureFrom (trusted)."
	c.Assume = append(c.Assume, "(*x509.RevocationList).CheckSignatureFrom verifies the CRL signature and the issuer's cRLSign/CA authority (crypto/x509)", "the issuer handed to CertCheckStatus is chain[i+1] (checked under C12)")
	pg := c.pgOf(crlRoot)
	if pg == nil {
		return
	}
	t := crlRootTerms()
	byClass := func(k int) []*PState {
		return returnsWhere(pg, func(s *PState) bool {
			cl, ok := resultClass(s.Ret[0].T)
			return ok && cl == k
		})
	}
	okRets, unk, rev, nonrev := byClass(resOK), byClass(resUnknown), byClass(resRevoked), byClass(resNonRevokable)
	var uncls []*PState
	for _, s := range pg.Returns() {
		if _, ok := resultClass(s.Ret[0].T); !ok {
			uncls = append(uncls, s)
		}
	}
	var unclsDet []string
	for _, s := range uncls {
		unclsDet = append(unclsDet, c.P.pos(s.Node.Pos)+": "+retKey(s, 0))
	}
	c.add("O-C05.1", "verdicts are constant literals", "every return of the CRL check is a literal with a constant verdict", len(uncls) == 0, posOf(pg, uncls), unclsDet...)
	c.floor("CRL OK returns", 1, len(okRets))
	c.floor("CRL Unknown returns", 2, len(distinctNodes(unk)))
	c.floor("CRL Revoked returns", 1, len(rev))
	c.floor("CRL NonRevokable returns", 1, len(nonrev))

	// O-C05.1: all points, each passing every gate
	c.mustPass(pg, "O-C05.1", "supported", "the OK verdict", okRets, A("-Empty("+t.dps+")"))
	c.mustPass(pg, "O-C05.1", "fetcher present", "the OK verdict", okRets, A("-IsNil(p3.Fetcher)"))
	c.mustPass(pg, "O-C05.1", "all distribution points consulted", "the OK verdict", okRets, RangeDone(t.dps))
	c.onlyAfterExhaustion(pg, "O-C05.1", "no OK from inside the loop", "the OK verdict", t.dps, okRets)
	noDelta := A("+IsNil(" + t.delta + ")")
	gates := []req{
		{"download succeeded", A("+IsNil(" + t.ferr + ")")},
		{"freshest-CRL pointer honoured", AnyOf(extAbsent("p1.Extensions", oidFreshest), A("-IsNil("+t.delta+")"))},
	}
	for _, r := range crlValidReqs(t.base, "p2") {
		if strings.HasPrefix(r.name, "\t") {
			gates = append(gates, req{r.name + " (base)", r.lp})
			continue
		}
		gates = append(gates, req{"base CRL: " + r.name, r.lp})
	}
	for _, r := range crlValidReqs(t.delta, "p2") {
		if strings.HasPrefix(r.name, "\t") {
			gates = append(gates, req{r.name + " (delta)", r.lp})
			continue
		}
		gates = append(gates, req{"delta CRL: " + r.name, AnyOf(noDelta, r.lp)})
	}
	gates = append(gates,
		req{"delta CRL: base number present", AnyOf(noDelta, A("-IsNil("+t.base+".Number)"))},
		req{"delta CRL: delta number present", AnyOf(noDelta, A("-IsNil("+t.delta+".Number)"))},
		req{"delta CRL: number greater than base number", AnyOf(noDelta, A("+BLt("+t.base+".Number, "+t.delta+".Number)"))},
		req{"delta CRL: indicator present", AnyOf(noDelta, extPresent(t.delta+".Extensions", oidDeltaInd))},
		req{"delta CRL: indicator parses", AnyOf(noDelta, A("+Truth("+t.ind+")"))},
		req{"delta CRL: indicator not above base number", AnyOf(noDelta, A("-BLt("+t.base+".Number, "+t.ind+"!1)"))},
	)
	for _, g := range gates {
		if strings.HasPrefix(g.name, "\t") {
			parts := strings.SplitN(g.name, "\t", 3)
			c.perIteration(pg, "O-C05.2", parts[2]+" ["+shortCRL(parts[1], t)+"]", "every extension of the list: "+parts[2], parts[1], g.lp)
			continue
		}
		c.perIteration(pg, "O-C05.1", "each point: "+g.name, "every distribution point that lets the loop go on: "+g.name, t.dps, g.lp)
	}
	// the indicator value is decoded from the indicator extension of this delta
	indSrcOK := false
	for _, s := range pg.States {
		for _, e := range s.Out {
			for _, l := range e.Labels {
				if l.Kind == "assign" && l.T2 != nil && l.T2.Key() == "&"+extValue(t.delta+".Extensions") {
					indSrcOK = true
				}
			}
		}
	}
	// the cryptobyte string is built from extension.Value: look for the conversion assignment
	for _, s := range pg.States {
		for _, e := range s.Out {
			for _, l := range e.Labels {
				if (l.Kind == "assign") && l.T2 != nil && l.T2.Key() == extValue(t.delta+".Extensions") {
					indSrcOK = true
				}
			}
		}
	}
	c.add("O-C05.2", "indicator decoded from the delta's indicator extension", "the integer compared with the base number is read from the value of the delta CRL's deltaCRLIndicator extension", indSrcOK, "")
	// entry scan gates (the scan itself is C10): no error and not Revoked, then one OK element is appended
	scanRev := rev
	c.mustPass(pg, "O-C05.1", "Revoked comes from the entry scan of a validated point", "the Revoked verdict", scanRev, A("+IsNil("+t.ferr+")"))
	c.mustPass(pg, "O-C05.1", "Revoked needs an authentic base CRL", "the Revoked verdict", scanRev, A("+IsNil((*crypto/x509.RevocationList).CheckSignatureFrom("+t.base+", p2))"))
	// a failing point can only end Unknown/Revoked: from every failure edge the OK return is unreachable
	fails := []LP{
		A("-IsNil(" + t.ferr + ")"),
		A("-IsNil((*crypto/x509.RevocationList).CheckSignatureFrom(" + t.base + ", p2))"),
		A("-IsNil((*crypto/x509.RevocationList).CheckSignatureFrom(" + t.delta + ", p2))"),
		A("+TLt(" + t.base + ".NextUpdate, time.Now())"),
		A("+TLt(" + t.delta + ".NextUpdate, time.Now())"),
		A("-BLt(" + t.base + ".Number, " + t.delta + ".Number)"),
		A("+BLt(" + t.base + ".Number, " + t.ind + "!1)"),
		A("-Truth(" + t.ind + ")"),
		extAbsent(t.delta+".Extensions", oidDeltaInd),
	}
	nf := 0
	for _, f := range fails {
		if len(edgeTargets(pg, f)) == 0 {
			continue
		}
		nf++
		c.noPathFrom(pg, "O-C05.1", "failure is final "+f.Desc, "after the failure "+f.Desc+" the OK verdict is unreachable", f, okRets, nil)
	}
	c.floor("CRL failure edges", 9, nf)

	// B side on the bundle validator as its own root
	_, vinst := instOfAtom(pg, "IsNil((*crypto/x509.RevocationList).CheckSignatureFrom("+t.base+", p2))")
	if vinst == nil || vinst.Parent == nil || vinst.Parent.Fn == nil {
		c.undecided("O-C05.2B", "bundle validator", "cannot locate the bundle validation function", "")
	} else {
		v := vinst.Parent
		if v.Parent == nil { // validateCRL called directly from the root
			v = vinst
		}
		vpg := c.pgOf(v.Name)
		if vpg != nil {
			b, d := "p0.BaseCRL", "p0.DeltaCRL"
			ind := t.ind
			hasDelta := A("-IsNil(" + d + ")")
			mkv := func(x string, ctx ...LP) []Viol {
				ext := "re(" + x + ".Extensions)"
				w := func(lps ...LP) []LP { return append(append([]LP{}, ctx...), lps...) }
				return []Viol{
					{Name: "not signed by the issuer", All: w(A("-IsNil((*crypto/x509.RevocationList).CheckSignatureFrom(" + x + ", p1))"))},
					{Name: "next update missing (implied by expiry)", All: w(A("+TZero(" + x + ".NextUpdate)"))},
					{Name: "next update passed", All: w(A("+TLt(" + x + ".NextUpdate, time.Now())"))},
					{Name: "unknown critical list extension", All: w(A("-OidEq("+oidIDP+", "+ext+".Id)"), A("-OidEq("+oidDeltaInd+", "+ext+".Id)"), A("+Truth("+ext+".Critical)"))},
				}
			}
			viols := mkv(b)
			viols = append(viols, mkv(d, hasDelta)...)
			viols = append(viols,
				Viol{Name: "CRL number missing", All: []LP{hasDelta, AnyOf(A("+IsNil("+b+".Number)"), A("+IsNil("+d+".Number)"))}},
				Viol{Name: "delta number not greater than base number", All: []LP{hasDelta, A("-BLt(" + b + ".Number, " + d + ".Number)")}},
				Viol{Name: "delta indicator missing", All: []LP{hasDelta, extAbsent(d+".Extensions", oidDeltaInd)}},
				Viol{Name: "delta indicator does not parse", All: []LP{hasDelta, A("-Truth(" + ind + ")")}},
				Viol{Name: "delta indicator above base number", All: []LP{hasDelta, A("+BLt(" + b + ".Number, " + ind + "!1)")}},
			)
			origins := errorOrigins(vpg, 0)
			c.floor("bundle validator rejection origins", 9, len(origins))
			c.justify(vpg, "O-C05.2B", origins, viols, originName)
		}
	}
	checkCRLLiterals(c, pg, "O-C05.3")
	// "no unknown critical extension at entry level": the entry-extension rules of the scan
	// (O-C10.2 exemption source, O-C10.5 every extension of a matching entry examined and
	// either the invalidity date or not critical) are necessary for C05 as well
	c.floor("entry-level extension rules (shared with C10)", 4, shareRules(c, checkC10, []string{"O-C10.5", "O-C10.2"}, "O-C05.4", "entry level: "))
}

func shortCRL(k string, t crlTerms) string {
	k = strings.ReplaceAll(k, t.bundle, "bundle")
	return k
}

// instOfAtom finds the instance in which an atom with the given key is tested.
func instOfAtom(pg *PG, key string) (*Node, *Instance) {
	for _, s := range pg.States {
		for _, e := range s.Out {
			for _, l := range e.Labels {
				if l.Kind == "atom" && l.Key == key {
					return l.Node, l.Node.Inst
				}
			}
		}
	}
	return nil, nil
}

// checkCRLLiterals: each verdict literal's nested server results agree with it.
func checkCRLLiterals(c *Check, pg *PG, rule string) {
	n := 0
	for _, s := range pg.Returns() {
		t := s.Ret[0].T
		cl, ok := resultClass(t)
		if !ok {
			continue
		}
		if t.Op == "addr" {
			t = t.Args[0]
		}
		sr := structGet(t, "ServerResults")
		where := pg.G.P.pos(s.Node.Pos)
		switch {
		case sr != nil && sr.Op == "list":
			n++
			good := len(sr.Args) == 1
			var det []string
			for _, el := range sr.Args {
				ecl, eok := resultClass(el)
				if !eok || ecl != cl {
					good = false
					det = append(det, "nested server result: "+el.Key())
				}
			}
			c.add(rule, "verdict literal agrees with its single server result", "a verdict literal with a literal server list carries exactly one server result of the same verdict", good, where, det...)
		case cl != resOK:
			n++
			k := "?"
			if sr != nil {
				k = sr.Key()
			}
			c.add(rule, "non-OK verdict carries a single literal server result", "a Revoked/Unknown/NonRevokable verdict carries a literal list with exactly one server result", false, where, "server results: "+k)
		case cl == resOK:
			n++
			// accumulated list: every appended element must be an OK-class server result
			good := sr != nil && sr.Op == "call" && sr.Name == "append"
			var det []string
			if good {
				for _, el := range sr.Args[1:] {
					if ecl, eok := resultClass(el); !eok || ecl != resOK {
						good = false
						det = append(det, "appended element: "+el.Key())
					}
				}
			} else if sr != nil {
				det = append(det, "server results: "+sr.Key())
			}
			c.add(rule, "OK verdict carries only OK server results", "the OK verdict's accumulated server results are OK entries, one per distribution point", good, where, det...)
		}
	}
	c.floor(rule+" verdict literals checked", 4, n)
}
