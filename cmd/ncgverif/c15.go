package main

// C15: timestamped signing; C08: three structural necessary conditions of the
// sign/verify round trip.

import (
	"go/ast"
	"go/constant"
	"go/token"
	"go/types"
	"strings"
)

const (
	tsFn  = "ncg/internal/timestamp.Timestamp"
	tsp   = "github.com/notaryproject/tspclient-go"
	tsVal = "ncg/x509.ValidateTimestampingCertChain"
)

// countAllIdiom recognises the aggregation fold of the TSA revocation results:
// a counter from 0, incremented at most once per element and only when the
// element's Result is OK or NonRevokable, a loop over all indices of the result
// slice, and "counter != len(results) => error" before the only nil return.
func countAllIdiom(c *Check, fs *FuncSrc) (ok bool, why string) {
	info := fs.Pkg.TypesInfo
	if fs.Decl.Type.Params.NumFields() < 1 {
		return false, "no parameters"
	}
	var R types.Object
	if names := fs.Decl.Type.Params.List[0].Names; len(names) > 0 {
		R = info.Defs[names[0]]
	}
	isR := func(e ast.Expr) bool {
		id, ok := ast.Unparen(e).(*ast.Ident)
		return ok && info.Uses[id] == R
	}
	isLenR := func(e ast.Expr) bool {
		call, ok := ast.Unparen(e).(*ast.CallExpr)
		if !ok || len(call.Args) != 1 {
			return false
		}
		id, ok := call.Fun.(*ast.Ident)
		return ok && id.Name == "len" && isR(call.Args[0])
	}
	// counter: `x := 0`
	var counter types.Object
	var loop *ast.ForStmt
	var afterLoop []ast.Stmt
	for i, st := range fs.Decl.Body.List {
		switch s := st.(type) {
		case *ast.AssignStmt:
			if s.Tok == token.DEFINE && len(s.Lhs) == 1 && len(s.Rhs) == 1 {
				if tv := info.Types[s.Rhs[0]]; tv.Value != nil && tv.Value.Kind() == constant.Int && constant.Sign(tv.Value) == 0 {
					if id, ok := s.Lhs[0].(*ast.Ident); ok && counter == nil {
						counter = info.Defs[id]
					}
				}
			}
		case *ast.ForStmt:
			if loop != nil {
				return false, "more than one loop"
			}
			loop = s
			afterLoop = fs.Decl.Body.List[i+1:]
		case *ast.RangeStmt:
			return false, "range loop instead of the recognised index loop"
		}
	}
	if counter == nil || loop == nil {
		return false, "no counter initialised to 0 followed by an index loop"
	}
	// loop over all indices: i := len(R)-1; i >= 0; i--   or   i := 0; i < len(R); i++
	var idx types.Object
	if as, ok := loop.Init.(*ast.AssignStmt); ok && len(as.Lhs) == 1 {
		if id, ok := as.Lhs[0].(*ast.Ident); ok {
			idx = info.Defs[id]
		}
		desc := false
		if be, ok := ast.Unparen(as.Rhs[0]).(*ast.BinaryExpr); ok && be.Op == token.SUB && isLenR(be.X) {
			if tv := info.Types[be.Y]; tv.Value != nil && constant.Compare(tv.Value, token.EQL, constant.MakeInt64(1)) {
				desc = true
			}
		}
		asc := false
		if tv := info.Types[as.Rhs[0]]; tv.Value != nil && constant.Sign(tv.Value) == 0 {
			asc = true
		}
		cond, _ := loop.Cond.(*ast.BinaryExpr)
		post, _ := loop.Post.(*ast.IncDecStmt)
		if cond == nil || post == nil {
			return false, "loop is not a counted index loop"
		}
		cid, _ := ast.Unparen(cond.X).(*ast.Ident)
		pid, _ := ast.Unparen(post.X).(*ast.Ident)
		if cid == nil || pid == nil || info.Uses[cid] != idx || info.Uses[pid] != idx {
			return false, "loop condition/post do not use the index variable"
		}
		switch {
		case desc && cond.Op == token.GEQ && post.Tok == token.DEC:
			if tv := info.Types[cond.Y]; tv.Value == nil || constant.Sign(tv.Value) != 0 {
				return false, "descending loop does not reach index 0"
			}
		case asc && cond.Op == token.LSS && post.Tok == token.INC && isLenR(cond.Y):
		default:
			return false, "loop does not visit every index of the result slice"
		}
	} else {
		return false, "loop has no index initialisation"
	}
	// element alias: e := R[i]
	elem := map[types.Object]bool{}
	isElem := func(e ast.Expr) bool {
		e = ast.Unparen(e)
		if ix, ok := e.(*ast.IndexExpr); ok && isR(ix.X) {
			if id, ok := ast.Unparen(ix.Index).(*ast.Ident); ok && info.Uses[id] == idx {
				return true
			}
		}
		if id, ok := e.(*ast.Ident); ok && elem[info.Uses[id]] {
			return true
		}
		return false
	}
	ast.Inspect(loop.Body, func(n ast.Node) bool {
		if as, ok := n.(*ast.AssignStmt); ok && as.Tok == token.DEFINE && len(as.Lhs) == len(as.Rhs) {
			for i, r := range as.Rhs {
				if isElem(r) {
					if id, ok := as.Lhs[i].(*ast.Ident); ok {
						elem[info.Defs[id]] = true
					}
				}
			}
		}
		return true
	})
	// no break/continue/goto; the index is not modified in the body
	bad := ""
	nInc := 0
	ast.Inspect(loop.Body, func(n ast.Node) bool {
		switch x := n.(type) {
		case *ast.BranchStmt:
			bad = "loop body contains " + x.Tok.String()
		case *ast.IncDecStmt:
			if id, ok := ast.Unparen(x.X).(*ast.Ident); ok {
				if info.Uses[id] == counter {
					nInc++
				}
				if info.Uses[id] == idx {
					bad = "index modified in the loop body"
				}
			}
		case *ast.AssignStmt:
			for _, l := range x.Lhs {
				if id, ok := ast.Unparen(l).(*ast.Ident); ok && (info.Uses[id] == counter || info.Uses[id] == idx) {
					bad = "counter or index assigned in the loop body"
				}
			}
		}
		return true
	})
	if bad != "" {
		return false, bad
	}
	if nInc != 1 {
		return false, "the counter is not incremented at exactly one place"
	}
	// the increment is the first statement of the then-branch of a top-level if whose
	// condition is elem.Result == OK || elem.Result == NonRevokable
	found := false
	for _, st := range loop.Body.List {
		ifs, ok := st.(*ast.IfStmt)
		if !ok || ifs.Init != nil {
			continue
		}
		inc := false
		for _, b := range ifs.Body.List {
			if x, ok := b.(*ast.IncDecStmt); ok && x.Tok == token.INC {
				if id, ok := ast.Unparen(x.X).(*ast.Ident); ok && info.Uses[id] == counter {
					inc = true
				}
			}
		}
		if !inc {
			continue
		}
		vals := map[int64]bool{}
		okCond := true
		var walk func(e ast.Expr)
		walk = func(e ast.Expr) {
			e = ast.Unparen(e)
			be, ok := e.(*ast.BinaryExpr)
			if !ok {
				okCond = false
				return
			}
			switch be.Op {
			case token.LOR:
				walk(be.X)
				walk(be.Y)
			case token.EQL:
				se, ok := ast.Unparen(be.X).(*ast.SelectorExpr)
				if !ok || se.Sel.Name != "Result" || !isElem(se.X) {
					okCond = false
					return
				}
				tv := info.Types[be.Y]
				if tv.Value == nil {
					okCond = false
					return
				}
				v, _ := constant.Int64Val(tv.Value)
				vals[v] = true
			default:
				okCond = false
			}
		}
		walk(ifs.Cond)
		if okCond && len(vals) == 2 && vals[resOK] && vals[resNonRevokable] {
			found = true
		} else {
			return false, "the counter is incremented under a condition other than Result == OK || Result == NonRevokable"
		}
	}
	if !found {
		return false, "the counter increment is not guarded by a top-level test of the element's Result"
	}
	// after the loop: if counter != len(R) { return <error> } ... return nil
	okTail := false
	for _, st := range afterLoop {
		ifs, ok := st.(*ast.IfStmt)
		if !ok {
			continue
		}
		be, ok := ast.Unparen(ifs.Cond).(*ast.BinaryExpr)
		if !ok || be.Op != token.NEQ {
			continue
		}
		id, ok := ast.Unparen(be.X).(*ast.Ident)
		if ok && info.Uses[id] == counter && isLenR(be.Y) {
			if len(ifs.Body.List) > 0 {
				if _, ok := ifs.Body.List[len(ifs.Body.List)-1].(*ast.ReturnStmt); ok {
					okTail = true
				}
			}
		}
	}
	if !okTail {
		return false, "no 'counter != len(results) => return error' after the loop"
	}
	return true, ""
}

func checkC15(c *Check) {
	c.Explain = "C15: (1) gate chain of timestamp.Timestamp (validator, aggregation and context helper opaque): the token bytes are returned only after, in this order, NewRequest ok, Timestamper.Timestamp ok, SignedToken ok, token.Verify(ctx, {Roots: req.TSARootCAs}) ok, ValidateTimestampingCertChain(the chain Verify returned) ok, and - unless no revocation validator is given - ValidateContext(ctx, {CertChain: that chain}) ok and the aggregation ok; every context argument is req.Context(); the bytes returned are resp.TimestampToken.FullBytes of the same response. (2) Aggregation: nil only for non-empty results of the chain's length in which every element is OK or NonRevokable (recognised count-all fold), Revoked returns an error at once. (3) Envelope side: timestamp.Timestamp is called only from the two format-level Sign paths, under scheme == notary.x509 and a non-nil Timestamper, with Content = the signature of the message being emitted (after the signing call succeeded) and HashAlgorithm derived from the signer's key spec through the hash tables; the token is stored into the message only from result 0 on the err == nil edge; the Timestamper interface is invoked nowhere else. (4) Every failure of the timestamp block is a TimestampError and precedes the commit of the inner message. CMS verification, nonce and imprint matching are tspclient's."
	c.Assume = append(c.Assume, "tspclient-go HTTP timestamper validates status granted, nonce and message imprint; SignedToken.Verify refuses a nil root pool and returns the verified chain (v1.0.0)")
	ctxFn := "(*ncg/signature.SignRequest).Context"
	// the aggregation: the function below timestamp.Timestamp that takes the validator's results
	agg := ""
	for _, fs := range c.callTree([]string{tsFn}) {
		sig := fs.Obj.Type().(*types.Signature)
		if sig.Params().Len() > 0 && c.P.typeStr(sig.Params().At(0).Type()) == "[]*ncg/revocation/result.CertRevocationResult" {
			agg = c.P.abbrev(fs.Obj.FullName())
		}
	}
	pg := c.pgOfNI(tsFn, tsVal, agg, ctxFn)
	if pg == nil || agg == "" {
		c.undecided("O-C15.1", "timestamp.Timestamp", "function or its aggregation helper not found", "")
		return
	}
	CTX := ctxFn + "(p0)"
	nr := tsp + ".NewRequest(p1)"
	ts := "(" + tsp + ".Timestamper).Timestamp(p0.Timestamper, " + CTX + ", " + nr + "#0)"
	tok := "(*" + tsp + ".Response).SignedToken(" + ts + "#0)"
	ver := "(*" + tsp + ".SignedToken).Verify(" + tok + "#0, " + CTX + ", {crypto/x509.VerifyOptions Roots:p0.TSARootCAs})"
	chain := ver + "#0"
	vc := "(ncg/revocation.Validator).ValidateContext(p0.TSARevocationValidator, " + CTX + ", {ncg/revocation.ValidateContextOptions CertChain:" + chain + "})"
	ag := agg + "(" + vc + "#0, " + chain + ")"
	noVal := A("+IsNil(p0.TSARevocationValidator)")
	ok := returnsWhere(pg, func(s *PState) bool { return retNilErr(s, 1) })
	c.floor("Timestamp success returns", 1, len(ok))
	gates := []struct {
		name, call, errKey string
		lp                 LP
	}{
		{"timestamp request built", nr, nr + "#1", A("+IsNil(" + nr + "#1)")},
		{"timestamp authority answered", ts, ts + "#1", A("+IsNil(" + ts + "#1)")},
		{"response carries a signed token", tok, tok + "#1", A("+IsNil(" + tok + "#1)")},
		{"token verifies against the caller's TSA roots", ver, ver + "#1", A("+IsNil(" + ver + "#1)")},
		{"TSA chain passes timestamping chain validation", tsVal + "(" + chain + ")", tsVal + "(" + chain + ")", A("+IsNil(" + tsVal + "(" + chain + "))")},
		{"TSA chain revocation checked", vc, vc + "#1", AnyOf(noVal, A("+IsNil("+vc+"#1)"))},
		{"every TSA certificate OK or NonRevokable", ag, ag, AnyOf(noVal, A("+IsNil("+ag+")"))},
	}
	for i, g := range gates {
		c.mustPass(pg, "O-C15.1", "gate: "+g.name, "returning the timestamp token", ok, g.lp)
		if i > 0 {
			src := edgeSources(pg, CallKey(g.call))
			c.floor("call sites of gate "+g.name, 1, len(src))
			c.mustPass(pg, "O-C15.1", "order: "+gates[i-1].name+" before "+g.name, "evaluating the next gate", src, gates[i-1].lp)
		}
	}
	good := len(ok) > 0
	for _, s := range ok {
		if retKey(s, 0) != ts+"#0.TimestampToken.FullBytes" {
			good = false
		}
	}
	c.add("O-C15.1", "token bytes come from the verified response", "the bytes returned are TimestampToken.FullBytes of the response whose token was verified", good, posOf(pg, ok))
	// (2) aggregation
	if afs := c.P.fn(agg); afs != nil {
		okI, why := countAllIdiom(c, afs)
		flagIdiom := false
		switch {
		case okI:
			c.add("O-C15.2", "aggregation fold", "count-all fold: a counter from 0, incremented once per element only when Result is OK or NonRevokable, over every index, compared with len(results) before the only nil return", true, c.P.pos(afs.Decl.Pos()))
		default:
			okG, how := false, "no graph"
			if apg := c.pgOf(agg); apg != nil {
				okG, how = foldAllOK(c, apg, afs)
			}
			if okG {
				flagIdiom = strings.Contains(how, "flag idiom")
				c.add("O-C15.2", "aggregation fold", "the accepting return is reached only if every element's Result was tested OK or NonRevokable: "+how, true, c.P.pos(afs.Decl.Pos()))
			} else {
				c.undecided("O-C15.2", "aggregation fold", "the aggregation of revocation results is neither the recognised count-all fold ("+why+") nor decided by path analysis ("+how+")", c.P.pos(afs.Decl.Pos()))
			}
		}
		if apg := c.pgOf(agg); apg != nil {
			aok := returnsWhere(apg, func(s *PState) bool { return retNilErr(s, 0) })
			c.floor("aggregation nil returns", 1, len(distinctNodes(aok)))
			c.add("O-C15.2", "single accepting return", "the aggregation has exactly one nil return", len(distinctNodes(aok)) == 1, posOf(apg, aok))
			c.mustPass(apg, "O-C15.2", "results not empty", "accepting the revocation results", aok, A("-Empty(p0)"))
			c.mustPass(apg, "O-C15.2", "one result per certificate", "accepting the revocation results", aok, A("+Eq(len(p0), len(p1))"))
			if !flagIdiom {
				c.mustPass(apg, "O-C15.2", "all results counted", "accepting the revocation results", aok, AG("+Eq(*, len(p0))"))
			}
			// Revoked => immediate error: from a +Eq(3, elem.Result) edge no nil return
			rev := LP{Desc: "element is Revoked", F: func(l Label) bool {
				return l.Kind == "atom" && l.Pol && (strings.HasPrefix(l.Key, "Eq(3, p0[") || l.Key == "Eq(3, re(p0).Result)") && strings.HasSuffix(l.Key, ".Result)")
			}}
			c.floor("Revoked tests in the aggregation", 1, len(edgeTargets(apg, rev)))
			c.noPathFrom(apg, "O-C15.2", "a Revoked certificate aborts", "after a Revoked element the aggregation cannot accept", rev, aok, nil)
		}
	}
	// "the TSA chain passes timestamping chain validation": the validator behind that gate must
	// enforce the profile (every accepting path of it passes every requirement, O-C14.A)
	c.floor("timestamping profile rules (shared with C14)", 40, shareRules(c, checkC14, []string{"O-C14.A"}, "O-C15.1", "TSA chain profile: "))
	// (3) envelope side
	sites := c.P.callSites(func(n string) bool { return n == tsFn })
	c.CallSites += len(sites)
	var where []string
	for _, s := range sites {
		where = append(where, c.P.abbrev(s.Fn.Obj.FullName()))
	}
	isites := c.P.callSites(func(n string) bool { return n == "("+tsp+".Timestamper).Timestamp" })
	c.add("O-C15.3", "who may contact the authority", "timestamp.Timestamp has exactly two call sites (the two format-level Sign paths) and the Timestamper interface is invoked only inside timestamp.Timestamp", len(sites) == 2 && len(isites) == 1 && c.P.abbrev(isites[0].Fn.Obj.FullName()) == tsFn, "", where...)
	for _, s := range sites {
		fn := c.P.abbrev(s.Fn.Obj.FullName())
		spg := c.skeleton(fn)
		if strings.Contains(fn, "/cose.") && !strings.HasSuffix(fn, ").Sign") {
			// the call sits in a helper of the COSE Sign: analyse Sign with that helper inlined
			for _, f := range discoverFormats(c) {
				if f.name == "COSE" {
					spg = c.skeleton(f.method("Sign"), fn)
				}
			}
		}
		if strings.Contains(fn, "/jws.") && !strings.HasSuffix(fn, ").Sign") {
			// likewise for JWS: whatever is split between Sign and its timestamp helper
			for _, f := range discoverFormats(c) {
				if f.name == "JWS" {
					spg = c.skeleton(f.method("Sign"), fn)
				}
			}
		}
		if spg == nil {
			continue
		}
		req := paramOfType(spg, "signature.SignRequest")
		var call *Term
		for _, st := range spg.States {
			for _, e := range st.Out {
				for _, l := range e.Labels {
					if l.Kind == "call" && l.T != nil && l.T.Name == tsFn {
						call = l.T
					}
				}
			}
		}
		if call == nil || req == "" {
			c.undecided("O-C15.3", fn, "call of timestamp.Timestamp not found in the graph", "")
			continue
		}
		csrc := edgeSources(spg, CallKey(call.Key()))
		short := fn[strings.LastIndex(fn, "/")+1:]
		// scheme gate: a test of a scheme value against "notary.x509"
		schemeGate := LP{Desc: "+scheme == notary.x509", F: func(l Label) bool {
			return l.Kind == "atom" && l.Pol && strings.HasPrefix(l.Key, "Eq("+schemeX+", ")
		}}
		c.mustPass(spg, "O-C15.3", short+": authority contacted only under notary.x509", "calling timestamp.Timestamp", csrc, schemeGate)
		c.mustPass(spg, "O-C15.3", short+": authority contacted only with a timestamper", "calling timestamp.Timestamp", csrc, A("-IsNil("+req+".Timestamper)"))
		c.add("O-C15.3", short+": request passed through", "timestamp.Timestamp receives the sign request itself", call.Args[0].Key() == req, "")
		opts := call.Args[1]
		content, hash := structGet(opts, "Content"), structGet(opts, "HashAlgorithm")
		ck, hk := "", ""
		if content != nil {
			ck = content.Key()
		}
		if hash != nil {
			hk = hash.Key()
		}
		switch {
		case strings.Contains(fn, "/cose."):
			msg := "github.com/veraison/go-cose.NewSign1Message()"
			c.add("O-C15.3", "COSE: timestamp covers the message's signature", "RequestOptions.Content is the Signature field of the message being emitted", ck == msg+".Signature", "", "Content: "+ck)
			c.mustPass(spg, "O-C15.3", "COSE: signature exists before it is timestamped", "calling timestamp.Timestamp", csrc, AG("+IsNil((*github.com/veraison/go-cose.Sign1Message).Sign("+msg+", **))"))
			c.add("O-C15.3", "COSE: hash derived from the signer's algorithm", "RequestOptions.HashAlgorithm is the hash-table row of the signer's algorithm", globMatch("ncg/signature/cose.*((github.com/veraison/go-cose.Signer).Algorithm(ncg/signature/cose.*("+req+".Signer)#0))#0", hk), "", "HashAlgorithm: "+hk)
			c.mustPass(spg, "O-C15.3", "COSE: hash lookup succeeded", "calling timestamp.Timestamp", csrc, AG("+IsNil("+strings.TrimSuffix(hk, "#0")+"#1)"))
			st := isStoreOf(msg+`.Headers.Unprotected["io.cncf.notary.timestampSignature"]`, nil)
			c.floor("COSE token stores", 1, len(edgeSources(spg, st)))
			c.mustPass(spg, "O-C15.3", "COSE: token embedded only after success", "storing the timestamp token", edgeSources(spg, st), A("+IsNil("+call.Key()+"#1)"))
			for _, sst := range spg.States {
				for _, e := range sst.Out {
					for _, l := range e.Labels {
						if st.F(l) && l.T2.Key() != call.Key()+"#0" {
							c.add("O-C15.3", "COSE: embedded token is the one returned", "the value stored is result 0 of timestamp.Timestamp", false, c.P.pos(l.Node.Pos), l.T2.Key())
						}
					}
				}
			}
			// (4)
			fails := returnsWhere(spg, func(s *PState) bool {
				return !retNilErr(s, 1) && !retHasType(s, 1, "ncg/signature.TimestampError")
			})
			c.noPathFrom(spg, "O-C15.4", "COSE: timestamp failures are TimestampErrors", "after the timestamp block failed only a TimestampError is returned", AnyOf(A("-IsNil("+call.Key()+"#1)"), AG("-IsNil("+strings.TrimSuffix(hk, "#0")+"#1)")), fails, nil)
		default:
			// the envelope being emitted: what Sign hands to json.Marshal
			env := paramOfType(spg, "jws.jwsEnvelope")
			for _, st := range spg.States {
				for _, e := range st.Out {
					for _, l := range e.Labels {
						if l.Kind == "call" && l.T != nil && l.T.Name == "encoding/json.Marshal" && len(l.T.Args) == 1 {
							env = l.T.Args[0].Key()
						}
					}
				}
			}
			if env == "" {
				env = "p0"
			}
			dec := b64dec + env + ".Signature)"
			c.add("O-C15.3", "JWS: timestamp covers the envelope's signature", "RequestOptions.Content is the base64url-decoded Signature of the envelope being emitted", ck == dec+"#0", "", "Content: "+ck)
			c.mustPass(spg, "O-C15.3", "JWS: signature decoded without error", "calling timestamp.Timestamp", csrc, A("+IsNil("+dec+"#1)"))
			wantHash := "(ncg/internal/algorithm.Algorithm).Hash((ncg/internal/algorithm.KeySpec).SignatureAlgorithm((ncg/signature.Signer).KeySpec(" + req + ".Signer)#0))"
			c.add("O-C15.3", "JWS: hash derived from the signer's key spec", "RequestOptions.HashAlgorithm is Hash(SignatureAlgorithm(signer key spec))", hk == wantHash, "", "HashAlgorithm: "+hk)
			c.mustPass(spg, "O-C15.3", "JWS: hash is non-zero", "calling timestamp.Timestamp", csrc, A("-Eq("+wantHash+", 0)"))
			st := isStoreOf(env+".Header.TimestampSignature", nil)
			c.floor("JWS token stores", 1, len(edgeSources(spg, st)))
			c.mustPass(spg, "O-C15.3", "JWS: token embedded only after success", "storing the timestamp token", edgeSources(spg, st), A("+IsNil("+call.Key()+"#1)"))
			fails := returnsWhere(spg, func(s *PState) bool {
				return !retNilErr(s, 1) && !retHasType(s, 1, "ncg/signature.TimestampError")
			})
			c.noPathFrom(spg, "O-C15.4", "JWS: timestamp failures are TimestampErrors", "after the timestamp block failed only a TimestampError is returned", AnyOf(A("-IsNil("+call.Key()+"#1)"), A("-IsNil("+dec+"#1)"), A("+Eq("+wantHash+", 0)")), fails, nil)
		}
	}
	// the timestamp block precedes the commit of the inner message (C20.1): no failing return after the commit
	for _, f := range discoverFormats(c) {
		if spg := c.signSkeleton(f); spg != nil {
			isBase := LP{Desc: "store to the inner message", F: func(l Label) bool { return (l.Kind == "store" || l.Kind == "lstore") && l.Key == "recv.base" }}
			c.noPathFrom(spg, "O-C15.4", f.name+": a failed timestamp leaves no envelope", "after the inner message was committed no failure is possible", isBase, returnsWhere(spg, func(s *PState) bool { return !retNilErr(s, 1) }), nil)
		}
	}
}

// paramOfType: the name (p<i>) of the first non-receiver parameter whose type
// string ends with the given suffix.
func paramOfType(pg *PG, suffix string) string {
	params := pg.G.Params
	if pg.G.Root != nil && pg.G.Root.Decl.Recv != nil && len(params) > 0 {
		params = params[1:]
	}
	// parameter indices follow the declaration (unnamed/blank parameters are skipped in Params)
	idx := 0
	for _, f := range pg.G.Root.Decl.Type.Params.List {
		n := len(f.Names)
		if n == 0 {
			n = 1
		}
		for i := 0; i < n; i++ {
			if strings.HasSuffix(pg.G.P.typeStr(pg.G.Root.Pkg.TypesInfo.TypeOf(f.Type)), suffix) {
				return "p" + string(rune('0'+idx))
			}
			idx++
		}
	}
	return ""
}

// foldAllOK decides "nil is returned only if every element of p0 was tested OK
// or NonRevokable" on the product graph, for any loop form: (B) by feasibility
// (an iteration that does not pass the test can no longer reach the accepting
// return: flag idioms), else (A) by the counting argument (a counter from 0,
// incremented at most once per iteration and only after the test, compared
// with len(p0) on the way to the accepting return, loop over every index).
func foldAllOK(c *Check, pg *PG, fs *FuncSrc) (bool, string) {
	var okv, nrv string
	for path, pk := range c.P.All {
		if strings.HasSuffix(path, "/revocation/result") && pk.Types != nil {
			if k, ok := pk.Types.Scope().Lookup("ResultOK").(*types.Const); ok {
				okv = k.Val().String()
			}
			if k, ok := pk.Types.Scope().Lookup("ResultNonRevokable").(*types.Const); ok {
				nrv = k.Val().String()
			}
		}
	}
	if okv == "" || nrv == "" {
		return false, "result constants not found"
	}
	okTest := LP{Desc: "element tested OK or NonRevokable", F: func(l Label) bool {
		if l.Kind != "atom" || !l.Pol || !strings.HasSuffix(l.Key, ".Result)") {
			return false
		}
		for _, v := range []string{okv, nrv} {
			if strings.HasPrefix(l.Key, "Eq("+v+", p0[") || l.Key == "Eq("+v+", re(p0).Result)" {
				return true
			}
		}
		return false
	}}
	// the loop: heads and body entries
	heads := map[*Node]bool{}
	var body []*PState
	for _, s := range pg.States {
		n := s.Node
		if n.Note == "forhead" {
			heads[n] = true
		}
		if n.Note == "forbody" {
			body = append(body, s)
		}
		if n.Kind == NRange {
			heads[n] = true
		}
	}
	body = append(body, edgeTargets(pg, RangeNext("p0"))...)
	nloops := map[int]bool{}
	for n := range heads {
		nloops[n.LoopID] = true
	}
	if len(nloops) != 1 || len(body) == 0 {
		return false, "expected exactly one loop in the aggregation"
	}
	// every index visited
	visits := len(edgeTargets(pg, RangeNext("p0"))) > 0
	if !visits {
		info := fs.Pkg.TypesInfo
		var p0 types.Object
		if names := fs.Decl.Type.Params.List[0].Names; len(names) > 0 {
			p0 = info.Defs[names[0]]
		}
		ast.Inspect(fs.Decl.Body, func(n ast.Node) bool {
			if f, ok := n.(*ast.ForStmt); ok && f.Init != nil {
				if as, ok := f.Init.(*ast.AssignStmt); ok && len(as.Lhs) == 1 {
					if id, ok := as.Lhs[0].(*ast.Ident); ok {
						if y := c.P.counterLoopBound(info.Defs[id]); y != nil {
							if yid, ok := ast.Unparen(y).(*ast.Ident); ok && info.Uses[yid] == p0 {
								visits = true
							}
						}
					}
				}
			}
			return true
		})
	}
	if !visits {
		return false, "the loop is not recognised as visiting every index of the results"
	}
	accept := inSet(returnsWhere(pg, func(s *PState) bool { return retNilErr(s, 0) }))
	// walk from the body entries without passing the test, stopping at the head
	walk := func(from []*PState, blocked func(*PEdge) bool, stopAtHead bool) (reached map[*PState]bool, atHead []*PState, edges []*PEdge) {
		reached = map[*PState]bool{}
		queue := append([]*PState{}, from...)
		for _, s := range from {
			reached[s] = true
		}
		for len(queue) > 0 {
			s := queue[0]
			queue = queue[1:]
			for _, e := range s.Out {
				if blocked != nil && blocked(e) {
					continue
				}
				edges = append(edges, e)
				if stopAtHead && heads[e.To.Node] {
					atHead = append(atHead, e.To)
					continue
				}
				if !reached[e.To] {
					reached[e.To] = true
					queue = append(queue, e.To)
				}
			}
		}
		return
	}
	c.Searches++
	reached, bad, _ := walk(body, blockedBy(okTest), true)
	for s := range reached {
		if accept(s) {
			return false, "the accepting return is reachable from inside an iteration that did not pass the test (break/return)"
		}
	}
	// (B) feasibility
	c.Searches++
	after, _, _ := walk(bad, nil, false)
	feasible := false
	for s := range after {
		if accept(s) {
			feasible = true
		}
	}
	if !feasible {
		return true, "after an iteration without the test the accepting return is unreachable (flag idiom, decided by the path-sensitive store)"
	}
	// (A) counting
	var counter *Var
	isInc := func(l Label) bool {
		return l.Kind == "assign" && l.T != nil && l.T.V != nil && l.T2 != nil && l.T2.Key() == "(self + 1)"
	}
	for _, s := range pg.States {
		for _, e := range s.Out {
			for _, l := range e.Labels {
				if isInc(l) {
					if counter != nil && counter != l.T.V {
						return false, "more than one incremented variable"
					}
					counter = l.T.V
				}
			}
		}
	}
	if counter == nil {
		return false, "no counter is incremented in the loop and an iteration without the test can still reach the accepting return"
	}
	for _, s := range pg.States {
		for _, e := range s.Out {
			for _, l := range e.Labels {
				if l.Kind == "assign" && l.T != nil && l.T.V == counter && !isInc(l) && (l.T2 == nil || l.T2.Key() != "0") {
					return false, "the counter is assigned something other than 0 or itself plus one"
				}
			}
		}
	}
	inc := func(e *PEdge) bool { return e.has(isInc) }
	c.Searches++
	_, _, es := walk(body, blockedBy(okTest), true)
	for _, e := range es {
		if inc(e) {
			return false, "the counter can be incremented in an iteration that did not pass the test"
		}
	}
	var afterInc []*PState
	for _, s := range pg.States {
		for _, e := range s.Out {
			if inc(e) {
				afterInc = append(afterInc, e.To)
			}
		}
	}
	c.Searches++
	_, _, es = walk(afterInc, nil, true)
	for _, e := range es {
		if inc(e) {
			return false, "the counter can be incremented twice in one iteration"
		}
	}
	cmp := LP{Desc: "counter equals len(results)", F: func(l Label) bool {
		return l.Kind == "atom" && l.Pol && globMatch("Eq(*, len(p0))", l.Key) && l.Node != nil && l.Node.Cond != nil && l.Node.Cond.mentionsVar(counter)
	}}
	if okc, _ := c.cut(pg, returnsWhere(pg, func(s *PState) bool { return retNilErr(s, 0) }), cmp); !okc {
		return false, "the accepting return is reachable without comparing the counter with len(results)"
	}
	return true, "counting argument: counter from 0, incremented at most once per iteration and only after the test, equal to len(results) on the way to the accepting return, loop over every index"
}
