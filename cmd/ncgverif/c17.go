package main

// C17: fork/join structure, panic forwarding and ownership of the goroutines.

import (
	"fmt"
	"go/ast"
	"go/token"
	"go/types"
	"strings"

	"golang.org/x/tools/go/types/typeutil"
)

// recoverForward classifies a deferred literal: it calls recover() directly
// and, when the value is non-nil, sends it on a channel. Returns the channel
// variable object.
func recoverForward(lit *ast.FuncLit, info *types.Info) types.Object {
	if len(lit.Type.Params.List) != 0 {
		return nil
	}
	return recoverForwardBody(lit.Body, info)
}

// deferredRecover classifies a defer statement: a recover-and-forward literal,
// or a call of an in-module function whose body is that pattern with the
// channel as a parameter (recover() is still called directly by the deferred
// function). Returns the channel variable of the deferring function.
func deferredRecover(P *Prog, ds *ast.DeferStmt, info *types.Info) types.Object {
	if fl, ok := ast.Unparen(ds.Call.Fun).(*ast.FuncLit); ok {
		if len(ds.Call.Args) != 0 {
			return nil
		}
		return recoverForward(fl, info)
	}
	fn, ok := typeutil.Callee(info, ds.Call).(*types.Func)
	if !ok {
		return nil
	}
	fs := P.Funcs[fn.Origin()]
	if fs == nil || fs.Decl.Recv != nil {
		return nil
	}
	ch := recoverForwardBody(fs.Decl.Body, fs.Pkg.TypesInfo)
	if ch == nil {
		return nil
	}
	idx := 0
	for _, f := range fs.Decl.Type.Params.List {
		for _, nm := range f.Names {
			if fs.Pkg.TypesInfo.Defs[nm] == ch && idx < len(ds.Call.Args) {
				if id, ok := ast.Unparen(ds.Call.Args[idx]).(*ast.Ident); ok {
					return info.Uses[id]
				}
			}
			idx++
		}
	}
	return nil
}

func recoverForwardBody(body *ast.BlockStmt, info *types.Info) types.Object {
	if len(body.List) != 1 {
		return nil
	}
	ifs, ok := body.List[0].(*ast.IfStmt)
	if !ok || ifs.Init == nil || ifs.Else != nil {
		return nil
	}
	as, ok := ifs.Init.(*ast.AssignStmt)
	if !ok || as.Tok != token.DEFINE || len(as.Lhs) != 1 || len(as.Rhs) != 1 {
		return nil
	}
	call, ok := as.Rhs[0].(*ast.CallExpr)
	if !ok {
		return nil
	}
	id, ok := call.Fun.(*ast.Ident)
	if !ok {
		return nil
	}
	if b, ok := info.Uses[id].(*types.Builtin); !ok || b.Name() != "recover" {
		return nil
	}
	rv := info.Defs[as.Lhs[0].(*ast.Ident)]
	cond, ok := ifs.Cond.(*ast.BinaryExpr)
	if !ok || cond.Op != token.NEQ {
		return nil
	}
	cx, ok1 := cond.X.(*ast.Ident)
	if !ok1 || info.Uses[cx] != rv || !info.Types[cond.Y].IsNil() {
		return nil
	}
	if len(ifs.Body.List) != 1 {
		return nil
	}
	send, ok := ifs.Body.List[0].(*ast.SendStmt)
	if !ok {
		return nil
	}
	vid, ok := send.Value.(*ast.Ident)
	if !ok || info.Uses[vid] != rv {
		return nil
	}
	chid, ok := send.Chan.(*ast.Ident)
	if !ok {
		return nil
	}
	return info.Uses[chid]
}

func goStructure(c *Check, v *valTerms, name string) string {
	pg := v.pg
	rule := "O-C17"
	isGo := LP{Desc: "go statement", F: func(l Label) bool { return l.Kind == "go" }}
	goNodes := distinctEdgeNodes(pg, isGo)
	c.floor(name+" go sites", 1, len(goNodes))
	wgKey := "&$[sync.WaitGroup]"
	add := CallKey("(*sync.WaitGroup).Add(" + wgKey + ", 1)")
	done := LP{Desc: "defer wg.Done()", F: func(l Label) bool {
		return l.Kind == "defer" && l.Key == "(*sync.WaitGroup).Done("+wgKey+")"
	}}
	wait := CallKey("(*sync.WaitGroup).Wait(" + wgKey + ")")
	okRets := returnsWhere(pg, func(s *PState) bool { return retNilErr(s, 1) })
	// one WaitGroup only
	nwg := 0
	for _, vv := range pg.G.Vars {
		if vv.Typ != nil && c.P.typeStr(vv.Typ) == "sync.WaitGroup" {
			nwg++
		}
	}
	c.add(rule+".1", name+": a single WaitGroup", "the entry point uses exactly one sync.WaitGroup (so Add/Done/Wait refer to the same one)", nwg == 1, c.P.pos(pg.G.Root.Decl.Pos()), fmt.Sprintf("found %d", nwg))
	// (a) Add(1) precedes each go within the iteration, one go per Add - or one Add(n) before the
	// loop with n the number of iterations, every one of which starts its goroutine
	bulk := CallKey("(*sync.WaitGroup).Add(" + wgKey + ", (len(" + v.chain + ") - 1))")
	if len(edgeTargets(pg, add)) == 0 && len(edgeTargets(pg, bulk)) > 0 && strings.HasSuffix(v.L, "[_:(len("+v.chain+") - 1)]") {
		c.mustPass(pg, rule+".1", name+": Add(1) before go", "the loop is entered only after wg.Add(number of iterations)", edgeTargets(pg, RangeNext(v.L)), bulk)
		c.noPathFrom(pg, rule+".1", name+": Add(n) happens once", "wg.Add(n) is not repeated once the loop has started", RangeNext(v.L), edgeSources(pg, bulk), nil)
		// ... or, having nothing to wait for, gives its unit back itself: one direct wg.Done() by the spawner
		direct := LP{Desc: "spawner calls wg.Done() itself", F: func(l Label) bool {
			return l.Kind == "call" && l.Key == "(*sync.WaitGroup).Done("+wgKey+")" && l.Node != nil && l.Node.Inst != nil && l.Node.Inst.Name != "lit" && l.Node.Kind != NDefer
		}}
		c.perIteration(pg, rule+".1", name+": every Add(1) is followed by its go", "every iteration starts its goroutine or gives its unit of the counter back (the counter was raised for each of them; otherwise Wait would block forever)", v.L, AnyOf(isGo, direct))
		c.noPathFrom(pg, rule+".1", name+": one goroutine per iteration", "at most one goroutine is started per iteration (the panic channel is sized for that)", isGo, edgeSources(pg, isGo), ptr(RangeNext(v.L)))
		if len(edgeSources(pg, direct)) > 0 {
			nextIter := ptr(AnyOf(RangeNext(v.L), RangeDone(v.L)))
			c.noPathFrom(pg, rule+".1", name+": one unit per iteration (go, then no direct Done)", "an iteration that started a goroutine does not also call wg.Done() itself (the counter would drop below the number of running checks and Wait return early)", isGo, edgeSources(pg, direct), nextIter)
			c.noPathFrom(pg, rule+".1", name+": one unit per iteration (direct Done, then no go)", "an iteration that called wg.Done() itself starts no goroutine", direct, edgeSources(pg, isGo), nextIter)
			c.noPathFrom(pg, rule+".1", name+": one unit per iteration (one direct Done)", "an iteration calls wg.Done() itself at most once", direct, edgeSources(pg, direct), nextIter)
			c.mustPass(pg, rule+".1", name+": direct Done only inside the loop (not before it)", "the spawner's own wg.Done()", edgeSources(pg, direct), RangeNext(v.L))
			c.noPathFrom(pg, rule+".1", name+": direct Done only inside the loop (not after it)", "once the loop is over the spawner does not call wg.Done() itself", RangeDone(v.L), edgeSources(pg, direct), nil)
		}
		add = bulk
	} else {
		c.within(pg, rule+".1", name+": Add(1) before go", "a goroutine is started only after wg.Add(1) in the same iteration", v.L, add, isGo)
		c.noPathFrom(pg, rule+".1", name+": one goroutine per iteration", "at most one goroutine is started per iteration (the panic channel is sized for that)", isGo, edgeSources(pg, isGo), ptr(RangeNext(v.L)))
	}
	if add.Desc != bulk.Desc {
		c.noPathFrom(pg, rule+".1", name+": every Add(1) is followed by its go", "after wg.Add(1) the iteration starts a goroutine (otherwise Wait would block forever)", add, edgeTargets(pg, AnyOf(RangeNext(v.L), RangeDone(v.L))), ptr(isGo))
	}
	// (b) the goroutine's first action is defer wg.Done()
	inGo := func(l Label) bool { return l.Node != nil && l.Node.Inst != nil && l.Node.Inst.Name == "lit" }
	anyInGo := LP{Desc: "any action of the goroutine", F: func(l Label) bool {
		if !inGo(l) {
			return false
		}
		if l.Node.Kind == NDefer && len(l.Node.Calls) == 1 && l.Node.Calls[0].Name == "(*sync.WaitGroup).Done" {
			return false
		}
		switch l.Kind {
		case "call", "store", "lstore", "atom", "defer":
			return true
		}
		return false
	}}
	c.noPathFrom(pg, rule+".1", name+": Done deferred first", "the goroutine defers wg.Done() before doing anything else", isGo, edgeSources(pg, anyInGo), ptr(AnyOf(done, Note("goend"))))
	// (c)(d) Wait on every path to the return; no exit between go and Wait; nothing spawned after Wait
	c.mustPass(pg, rule+".1", name+": Wait before returning results", "returning the result slice", okRets, wait)
	exits := append(append([]*PState{}, pg.Returns()...), pg.Panics()...)
	c.noPathFrom(pg, rule+".1", name+": no exit between go and Wait", "once a goroutine was started the function leaves only after wg.Wait()", isGo, exits, ptr(wait))
	c.noPathFrom(pg, rule+".1", name+": nothing started after Wait", "no goroutine is started after wg.Wait()", wait, edgeSources(pg, isGo), nil)
	// which certificates are checked is fixed by the chain, not by timing: the launch loop is left
	// only by exhaustion (a break on ctx.Err() would make the set of filled slots depend on when the
	// cancellation arrives relative to the spawner)
	c.mustPass(pg, rule+".1", name+": every check is started whatever the timing", "the join (wg.Wait)", edgeSources(pg, wait), RangeDone(v.L))
	c.onlyAfterExhaustion(pg, rule+".1", name+": launch loop is not left early", "the join (wg.Wait)", v.L, edgeSources(pg, wait))
	// .2 panic forwarding
	var chObj types.Object
	class := ""
	nRec := 0
	for gn := range goNodes {
		// the deferred literals of this goroutine: NDefer nodes with Lit reachable in the lit instance
		found := false
		for _, n := range pg.G.Nodes {
			if n.Kind == NDefer && n.Lit != nil && n.Inst != nil && n.Inst.Name == "lit" && n.Inst.CallPos == gn.Lit.Pos()+0 {
				_ = n
			}
		}
		// simpler: look at defer statements directly inside the goroutine literal
		for _, st := range gn.Lit.Body.List {
			ds, ok := st.(*ast.DeferStmt)
			if !ok {
				continue
			}
			if o := deferredRecover(c.P, ds, gn.Info); o != nil {
				found = true
				nRec++
				if chObj == nil {
					chObj = o
				} else if chObj != o {
					class = "MIXED-CHANNELS"
				}
			}
		}
		c.add(rule+".2", name+": goroutine forwards panics", "the goroutine defers a literal that recovers and sends the panic value on the panic channel", found, c.P.pos(gn.Pos))
		if !found {
			class += "no-recover;"
		}
	}
	if class == "" {
		class = "recover-forward"
	}
	if chObj != nil {
		// capacity of the channel: make(chan T, n) with n == len(chain) or len(chain)-1
		var capKey string
		for _, s := range pg.States {
			for _, e := range s.Out {
				for _, l := range e.Labels {
					if l.Kind == "assign" && l.T != nil && l.T.V != nil && l.T.V.Obj == chObj && l.T2 != nil && l.T2.Op == "call" && l.T2.Name == "make" && len(l.T2.Args) == 2 {
						capKey = l.T2.Args[1].Key()
					}
				}
			}
		}
		okCap := capKey == "len("+v.chain+")" || capKey == "(len("+v.chain+") - 1)"
		c.add(rule+".2", name+": panic channel holds one value per goroutine", "the panic channel is buffered with len(chain) (or len(chain)-1) slots while at most one goroutine per element of chain[:len-1] is started, so a forwarding send never blocks", okCap, c.P.pos(chObj.Pos()), "capacity: "+capKey)
		// after Wait: non-blocking receive and re-panic of the received value
		chTerm := ""
		for _, s := range pg.States {
			for _, e := range s.Out {
				for _, l := range e.Labels {
					if l.Kind == "call" && l.T != nil && l.T.Name == "chanrecv" {
						chTerm = l.T.Args[0].Key()
					}
				}
			}
		}
		pan := pg.Panics()
		if chTerm == "" {
			// panic(<-ch): the receive is the operand of the panic itself
			for _, p := range pan {
				if len(p.Ret) > 0 && p.Ret[0].T != nil && p.Ret[0].T.Op == "call" && p.Ret[0].T.Name == "chanrecv" && len(p.Ret[0].T.Args) == 1 {
					chTerm = p.Ret[0].T.Args[0].Key()
				}
			}
		}
		good := len(pan) > 0
		for _, p := range pan {
			if len(p.Ret) == 0 || p.Ret[0].T == nil || p.Ret[0].T.Key() != "chanrecv("+chTerm+")" {
				good = false
			}
		}
		c.add(rule+".2", name+": received panic is re-raised", "the value received from the panic channel is re-raised with panic(v) on the caller's goroutine", good && chTerm != "", posOf(pg, pan))
		c.mustPass(pg, rule+".2", name+": re-raise after the join", "re-raising a forwarded panic", pan, wait)
		// a non-blocking look at the channel: select with default, or a test of len(ch)
		sel := LP{Desc: "select on the panic channel", F: func(l Label) bool {
			return l.Kind == "select" || (l.Kind == "atom" && chTerm != "" && (l.Key == "Empty("+chTerm+")" || strings.Contains(l.Key, "len("+chTerm+")")))
		}}
		c.mustPass(pg, rule+".2", name+": panic channel polled before returning", "returning the result slice", okRets, sel)
		c.noPathFrom(pg, rule+".2", name+": polled after the join", "the panic channel is polled only after wg.Wait()", isGo, edgeSources(pg, sel), ptr(wait))
		// close only deferred by the spawner
		var badClose []string
		nclose := 0
		for _, n := range pg.G.Nodes {
			for _, cl := range n.Calls {
				if cl.Op == "call" && cl.Name == "close" {
					nclose++
					if n.Kind != NDefer || n.Inst.Parent != nil {
						badClose = append(badClose, c.P.pos(n.Pos))
					}
				}
			}
		}
		c.add(rule+".2", name+": channel closed only by a deferred call of the spawner", "close(panicChan) only runs deferred in the spawner (after the join), never in a goroutine or before Wait", len(badClose) == 0, "", badClose...)
	}
	// .3 ownership: what the goroutines write
	var badW []string
	nW := 0
	slot := v.R + "[" + v.i + "]"
	for _, s := range pg.States {
		for _, e := range s.Out {
			for _, l := range e.Labels {
				if !inGo(l) {
					continue
				}
				switch l.Kind {
				case "store", "lstore":
					nW++
					fresh := (v.OC != "" && strings.HasPrefix(l.Key, v.OC+".")) || (v.CC != "" && strings.HasPrefix(l.Key, v.CC+"."))
					if l.Key != slot && !fresh {
						badW = append(badW, c.P.pos(l.Node.Pos)+": goroutine writes "+l.Key)
					}
				case "assign":
					if l.T != nil && l.T.V != nil && l.T.V.Obj != nil {
						// assignment to a variable declared outside the literal
						vp := l.T.V.Obj.Pos()
						inLit := false
						for gn := range goNodes {
							if vp >= gn.Lit.Pos() && vp <= gn.Lit.End() {
								inLit = true
							}
						}
						// ... or inside a literal whose body runs as part of the goroutine (a per-iteration
						// strategy closure called by it): the label's own instance is such a literal
						for in := l.Node.Inst; in != nil && !inLit; in = in.Parent {
							if li := litOfInstance(pg.G, in); li != nil && vp >= li.Pos() && vp <= li.End() {
								inLit = true
							}
						}
						if !inLit && l.Node.Note == "" {
							badW = append(badW, c.P.pos(l.Node.Pos)+": goroutine assigns captured variable "+l.Key)
						}
					}
				}
			}
		}
	}
	c.add(rule+".3", name+": goroutines write only their own slot", "a goroutine stores only into results[i] for its own i (bound to the range key) and into objects created inside it; it assigns no captured variable", len(badW) == 0 && nW > 0, "", badW...)
	// the goroutine's i is the range key: the literal is called with (rangeKey, rangeElem)
	for gn := range goNodes {
		st := goStmtOf(pg.G.Root.Decl, gn.Lit)
		good := false
		if st != nil && len(st.Call.Args) >= 1 {
			if id, ok := st.Call.Args[0].(*ast.Ident); ok {
				// first argument is the range key of the enclosing range statement
				good = isRangeKey(pg.G.Root.Decl, gn.Info, id)
			}
		}
		if st != nil && len(st.Call.Args) == 0 && len(badW) == 0 && nW > 0 && c.P.goAtLeast(1, 22) {
			// no index argument: the goroutine uses the loop's own variables, which are per-iteration
			// since go 1.22 (the stores were already shown to hit results[range key])
			good = true
		}
		c.add(rule+".3", name+": goroutine index is the range key", "the goroutine literal is invoked with the loop's range key as its index argument (or, from go 1.22 on, captures the per-iteration loop variable)", good, c.P.pos(gn.Pos))
	}
	// spawner stores between first go and Wait: only own-key slot or root slot
	return class
}

func goStmtOf(fd *ast.FuncDecl, lit *ast.FuncLit) *ast.GoStmt {
	var out *ast.GoStmt
	ast.Inspect(fd, func(n ast.Node) bool {
		if g, ok := n.(*ast.GoStmt); ok && ast.Unparen(g.Call.Fun) == ast.Expr(lit) {
			out = g
		}
		return true
	})
	return out
}

func isRangeKey(fd *ast.FuncDecl, info *types.Info, id *ast.Ident) bool {
	obj := info.Uses[id]
	found := false
	if theProg != nil && obj != nil && (theProg.counterLoopBound(obj) != nil || theProg.counterLoopButLast(obj) != nil) {
		// the counter of a counted loop over len(x): a range key in the graph
		return true
	}
	ast.Inspect(fd, func(n ast.Node) bool {
		if r, ok := n.(*ast.RangeStmt); ok && r.Key != nil {
			if k, ok := r.Key.(*ast.Ident); ok && info.Defs[k] == obj {
				found = true
			}
		}
		return true
	})
	return found
}

// theProg: the program being analysed (for syntactic helpers without a Check at hand).
var theProg *Prog

func checkC17(c *Check) {
	theProg = c.P
	c.Explain = "C17: the classic static argument for fork/join code, per go site of both fan-out entry points (goroutine bodies spliced in): (1) wg.Add(1) precedes each go in its iteration and is always followed by it, at most one goroutine per iteration, the goroutine defers wg.Done() first, wg.Wait() lies on every path to every exit after a goroutine was started, nothing is started after Wait; (2) each goroutine defers a literal that recovers and forwards the value on a channel buffered with at least one slot per goroutine, the spawner polls the channel after the join and re-raises the value with panic, close is only deferred by the spawner; (3) goroutines store only results[i] for the i bound to the range key and into objects created inside them, and assign no captured variable; (4) no package-level variable of the revocation packages is written outside its declaration and no method of the fetcher/validator writes a receiver field; (5) all go sites have the same structure class. From these: slot i depends only on certificate i's exchanges; every started goroutine finished when the call returns (also under cancellation: the join is unconditional); a panic resurfaces on the caller. Not decided: races inside net/http and caller-supplied components; runtime goroutine counts."
	c.Assume = append(c.Assume, "sync.WaitGroup provides the happens-before edge between Done and the return of Wait", "caller-supplied fetchers, caches and transports are safe for concurrent use (their contract)")
	fn := validatorMethod(c)
	if fn == "" {
		return
	}
	classes := map[string]string{}
	if v := fanoutGraph(c, fn, "p1.CertChain", "p0", "recv.certChainPurpose"); v != nil {
		classes["validator"] = goStructure(c, v, "validator")
	}
	if o := fanoutGraph(c, standalone, "p0.CertChain", "", "p0.CertChainPurpose"); o != nil {
		classes["standalone OCSP"] = goStructure(c, o, "standalone OCSP")
	}
	same := true
	var det []string
	for k, cl := range classes {
		det = append(det, k+": "+cl)
		if cl != "recover-forward" {
			same = false
		}
	}
	c.add("O-C17.5", "all go sites recover and forward", "every fan-out entry point's goroutines have the recover-and-forward structure", same && len(classes) == 2, "", det...)
	// every go statement in product code is one of the analysed ones
	ngo := 0
	var where []string
	for _, fs := range c.P.productFuncs() {
		ast.Inspect(fs.Decl.Body, func(n ast.Node) bool {
			if g, ok := n.(*ast.GoStmt); ok {
				ngo++
				name := c.P.abbrev(fs.Obj.FullName())
				if name != fn && name != standalone {
					where = append(where, c.P.pos(g.Pos())+" in "+name)
				}
			}
			return true
		})
	}
	// goroutines call no captured function value (a shared cancel func, callback or hook would let
	// one certificate's exchange influence another's)
	for _, fs := range c.P.productFuncs() {
		info := fs.Pkg.TypesInfo
		ast.Inspect(fs.Decl.Body, func(n ast.Node) bool {
			g, ok := n.(*ast.GoStmt)
			if !ok {
				return true
			}
			lit, ok := ast.Unparen(g.Call.Fun).(*ast.FuncLit)
			if !ok {
				return true
			}
			var bad []string
			ast.Inspect(lit.Body, func(m ast.Node) bool {
				call, ok := m.(*ast.CallExpr)
				if !ok {
					return true
				}
				id, ok := ast.Unparen(call.Fun).(*ast.Ident)
				if !ok {
					return true
				}
				v, ok := info.Uses[id].(*types.Var)
				if !ok {
					return true
				}
				if _, isFunc := v.Type().Underlying().(*types.Signature); isFunc && (v.Pos() < lit.Pos() || v.Pos() > lit.End()) {
					// a per-iteration strategy closure: declared inside the loop body that holds the go
					// statement and only ever assigned function literals (its body is then analysed as
					// part of the goroutine)
					if perIterationClosure(fs, info, g, v) {
						return true
					}
					// a per-call strategy closure: the parameter of the local spawning helper that
					// holds the go statement, bound to a fresh function literal at every call
					if litParamArgs(fs.Decl.Body, info, v) != nil {
						return true
					}
					bad = append(bad, c.P.pos(call.Pos())+": call of captured function value "+id.Name)
				}
				return true
			})
			// ... and reads no variable that lives across iterations and that the loop keeps assigning (its
			// value when the goroutine gets to read it is the one of some later iteration)
			var carried []string
			if loopBody := enclosingLoopBody(fs.Decl.Body, g); loopBody != nil {
				assignedInLoop := map[types.Object]bool{}
				ast.Inspect(loopBody, func(m ast.Node) bool {
					switch x := m.(type) {
					case *ast.AssignStmt:
						if x.Tok == token.DEFINE {
							return true
						}
						for _, l := range x.Lhs {
							if id, ok := ast.Unparen(l).(*ast.Ident); ok {
								if o := info.Uses[id]; o != nil {
									assignedInLoop[o] = true
								}
							}
						}
					case *ast.IncDecStmt:
						if id, ok := ast.Unparen(x.X).(*ast.Ident); ok {
							if o := info.Uses[id]; o != nil {
								assignedInLoop[o] = true
							}
						}
					}
					return true
				})
				seen := map[types.Object]bool{}
				ast.Inspect(lit.Body, func(m ast.Node) bool {
					id, ok := m.(*ast.Ident)
					if !ok {
						return true
					}
					v, ok := info.Uses[id].(*types.Var)
					if !ok || v.IsField() || isPkgLevel(v) || seen[v] {
						return true
					}
					if v.Pos() >= loopBody.Pos() && v.Pos() <= loopBody.End() {
						return true // declared inside the loop: per iteration
					}
					if assignedInLoop[v] {
						seen[v] = true
						carried = append(carried, c.P.pos(id.Pos())+": "+v.Name()+" (declared outside the loop, assigned in it)")
					}
					return true
				})
			}
			c.add("O-C17.3", "goroutine in "+c.P.abbrev(fs.Obj.FullName())+" reads no loop-carried variable", "the goroutine body reads no variable that is declared outside the launch loop and assigned inside it (per-certificate state must be per-iteration)", len(carried) == 0, c.P.pos(g.Pos()), carried...)
			c.add("O-C17.3", "goroutine in "+c.P.abbrev(fs.Obj.FullName())+" calls no captured function value", "the goroutine body calls only named functions, methods of its own values and its parameters - never a function value captured from the spawner (such as a shared cancel func), through which one exchange could affect another", len(bad) == 0, c.P.pos(g.Pos()), bad...)
			return true
		})
	}
	c.add("O-C17.1", "every go statement of the module is covered", "all go statements of product code are in the two analysed entry points", len(where) == 0 && ngo >= 1, "", where...)
	c.floor("go statements in product code", 1, ngo)
	checkNoSharedState(c, "O-C17.4")
	cachedBundleNotWritten(c, "O-C17.4")
	responseBodiesClosed(c)
}

// checkNoSharedState: no package-level variable of the revocation packages is
// assigned outside its declaration / init, and no method stores into a field of
// its receiver.
func checkNoSharedState(c *Check, rule string) {
	var bad []string
	nfn := 0
	for _, fs := range c.P.productFuncs() {
		rel := strings.TrimPrefix(fs.Pkg.PkgPath, c.P.ModPath)
		if !strings.HasPrefix(rel, "/revocation") {
			continue
		}
		nfn++
		info := fs.Pkg.TypesInfo
		var recv types.Object
		if fs.Decl.Recv != nil && len(fs.Decl.Recv.List) > 0 && len(fs.Decl.Recv.List[0].Names) > 0 {
			recv = info.Defs[fs.Decl.Recv.List[0].Names[0]]
		}
		// locals that hold the receiver pointer itself (x := r): a store through them is a store
		// into the receiver (a copy, x := *r, is the function's own)
		recvAlias := map[types.Object]bool{}
		if recv != nil {
			if _, isPtr := recv.Type().Underlying().(*types.Pointer); isPtr {
				for changed := true; changed; {
					changed = false
					ast.Inspect(fs.Decl.Body, func(n ast.Node) bool {
						as, ok := n.(*ast.AssignStmt)
						if !ok || len(as.Lhs) != len(as.Rhs) {
							return true
						}
						for i, r := range as.Rhs {
							rid := identOf(ast.Unparen(r))
							lid := identOf(ast.Unparen(as.Lhs[i]))
							if rid == nil || lid == nil {
								continue
							}
							ro := info.Uses[rid]
							lo := info.Defs[lid]
							if lo == nil {
								lo = info.Uses[lid]
							}
							if ro != nil && lo != nil && (ro == recv || recvAlias[ro]) && !recvAlias[lo] && lo != recv {
								recvAlias[lo] = true
								changed = true
							}
						}
						return true
					})
				}
			}
		}
		check := func(lhs ast.Expr, pos token.Pos) {
			root := lhs
			depth := 0
			for {
				switch x := ast.Unparen(root).(type) {
				case *ast.SelectorExpr:
					if _, isPkg := info.Uses[identOf(x.X)].(*types.PkgName); isPkg {
						root = x.Sel
						goto done
					}
					root = x.X
					depth++
					continue
				case *ast.IndexExpr:
					root = x.X
					depth++
					continue
				case *ast.StarExpr:
					root = x.X
					depth++
					continue
				}
				break
			}
		done:
			id := identOf(root)
			if id == nil {
				return
			}
			obj := info.Uses[id]
			if obj == nil {
				obj = info.Defs[id]
			}
			if v, ok := obj.(*types.Var); ok {
				if isPkgLevel(v) && fs.Obj.Name() != "init" {
					bad = append(bad, c.P.pos(pos)+": package-level variable "+v.Name()+" written in "+fs.Obj.Name())
				}
				if recv != nil && obj == recv && depth > 0 {
					bad = append(bad, c.P.pos(pos)+": receiver field written in "+c.P.abbrev(fs.Obj.FullName()))
				}
				if recvAlias[obj] && depth > 0 {
					bad = append(bad, c.P.pos(pos)+": receiver field written through "+v.Name()+", which holds the receiver pointer, in "+c.P.abbrev(fs.Obj.FullName()))
				}
			}
		}
		ast.Inspect(fs.Decl.Body, func(n ast.Node) bool {
			switch x := n.(type) {
			case *ast.AssignStmt:
				for _, l := range x.Lhs {
					check(l, x.Pos())
				}
			case *ast.IncDecStmt:
				check(x.X, x.Pos())
			}
			return true
		})
	}
	// append writes into the spare capacity of its first operand's backing array: appending to a
	// slice that was not allocated by the appending function (a field of a certificate, of a CRL
	// bundle handed out by the fetcher or cache, of a result another goroutine may hold) is a write
	// into memory that concurrent checks share
	var abad []string
	nap := 0
	for _, fs := range c.P.productFuncs() {
		rel := strings.TrimPrefix(fs.Pkg.PkgPath, c.P.ModPath)
		if !strings.HasPrefix(rel, "/revocation") {
			continue
		}
		ab, n := appendAliasing(c, fs)
		nap += n
		abad = append(abad, ab...)
	}
	c.add(rule, "append only to slices allocated by the appending function (revocation packages)", "every append in the revocation packages grows a slice whose backing array was allocated in the same function (nil, make, literal, or a result of such an append), or one that the function alone owns: appending to a slice read from a certificate, a CRL bundle or another shared object writes into its spare capacity, which concurrent checks share ("+fmt.Sprint(nap)+" append sites)", len(abad) == 0, "", abad...)
	c.add(rule, "no shared mutable state in the revocation packages", "no function of the revocation packages assigns a package-level variable or a field of its receiver (the packages are stateless between calls; results depend only on arguments and server answers)", len(bad) == 0 && nfn > 20, "", bad...)
	c.floor("revocation functions scanned for shared state", 20, nfn)
}

func identOf(e ast.Expr) *ast.Ident {
	id, _ := ast.Unparen(e).(*ast.Ident)
	return id
}

// responseBodiesClosed: O-C17.6 "nothing left behind". For every call in the
// revocation packages that returns (*http.Response, error): once its error was
// tested nil, every return that does not hand the response on passes a deferred
// (or direct) Close of that response's body.
func responseBodiesClosed(c *Check) {
	n := 0
	for _, fs := range c.P.productFuncs() {
		if !strings.Contains(fs.Pkg.PkgPath, "/revocation") {
			continue
		}
		info := fs.Pkg.TypesInfo
		has := false
		ast.Inspect(fs.Decl.Body, func(nd ast.Node) bool {
			call, ok := nd.(*ast.CallExpr)
			if !ok {
				return true
			}
			if tup, ok := info.TypeOf(call).(*types.Tuple); ok && tup.Len() == 2 && c.P.typeStr(tup.At(0).Type()) == "*net/http.Response" {
				has = true
			}
			return true
		})
		if !has {
			continue
		}
		name := c.P.abbrev(fs.Obj.FullName())
		pg := c.skeleton(name)
		if pg == nil {
			continue
		}
		// the calls, by resolved key
		calls := map[string]bool{}
		for _, s := range pg.States {
			for _, e := range s.Out {
				for _, l := range e.Labels {
					if l.Kind == "call" && l.T != nil {
						if sig, ok := callErrIdx[l.T.Name]; ok && sig[1] == 2 && sig[0] == 1 && (strings.HasSuffix(l.T.Name, ".Do") || strings.Contains(l.T.Name, "/ocsp.") || strings.Contains(l.T.Name, "/crl.")) {
							if isResponseCallee(c, l.T.Name) {
								calls[l.Key] = true
							}
						}
					}
				}
			}
		}
		for key := range calls {
			n++
			closeLP := LP{Desc: "Close of the response body (deferred or direct)", F: func(l Label) bool {
				return (l.Kind == "defer" || l.Kind == "call") && strings.Contains(l.Key, ".Close(") && strings.Contains(l.Key, key+"#0.Body")
			}}
			rets := returnsWhere(pg, func(s *PState) bool { return retKey(s, 0) != key+"#0" })
			c.noPathFrom(pg, "O-C17.6", shortCallee(name)+": response body closed on every path", "after the transfer succeeded no return is reached (other than handing the response on) without closing the body: an open body keeps its connection and the client's timeout goroutine alive after the check returned", A("+IsNil("+key+"#1)"), rets, &closeLP)
		}
	}
	c.floor("calls returning an HTTP response in the revocation packages", 3, n)
}

// isResponseCallee: the callee's first result is *http.Response.
func isResponseCallee(c *Check, name string) bool {
	if name == "(*net/http.Client).Do" {
		return true
	}
	if fs := c.P.fn(name); fs != nil {
		sig := fs.Obj.Type().(*types.Signature)
		return sig.Results().Len() == 2 && c.P.typeStr(sig.Results().At(0).Type()) == "*net/http.Response"
	}
	return false
}

// litOfInstance: the function literal an inline instance was built from (by
// its call position and the literal registry), if any.
func litOfInstance(g *Graph, in *Instance) *ast.FuncLit {
	if in == nil || in.Name != "lit" {
		return nil
	}
	if in.Lit != nil {
		return in.Lit
	}
	var best *ast.FuncLit
	for _, li := range g.Lits {
		if li.Lit != nil && li.Inst != nil {
			// the instance's nodes lie inside the literal's source range
			for _, n := range g.Nodes {
				if n.Inst == in && n.Pos.IsValid() && n.Pos >= li.Lit.Pos() && n.Pos <= li.Lit.End() {
					if best == nil || (li.Lit.End()-li.Lit.Pos()) < (best.End()-best.Pos()) {
						best = li.Lit
					}
					break
				}
			}
		}
	}
	return best
}

// perIterationClosure: v is declared inside the body of the innermost loop
// around the go statement and every assignment to it is a function literal.
func perIterationClosure(fs *FuncSrc, info *types.Info, g *ast.GoStmt, v *types.Var) bool {
	var loopBody *ast.BlockStmt
	ast.Inspect(fs.Decl.Body, func(n ast.Node) bool {
		var body *ast.BlockStmt
		switch x := n.(type) {
		case *ast.ForStmt:
			body = x.Body
		case *ast.RangeStmt:
			body = x.Body
		}
		if body != nil && g.Pos() >= body.Pos() && g.End() <= body.End() {
			loopBody = body // innermost wins (inspected later)
		}
		return true
	})
	if loopBody == nil || v.Pos() < loopBody.Pos() || v.Pos() > loopBody.End() {
		return false
	}
	ok, n := true, 0
	ast.Inspect(fs.Decl.Body, func(m ast.Node) bool {
		switch x := m.(type) {
		case *ast.AssignStmt:
			for i, l := range x.Lhs {
				id, isId := l.(*ast.Ident)
				if !isId || (info.Defs[id] != v && info.Uses[id] != v) {
					continue
				}
				if len(x.Rhs) != len(x.Lhs) {
					ok = false
					continue
				}
				if _, isLit := ast.Unparen(x.Rhs[i]).(*ast.FuncLit); isLit {
					n++
				} else {
					ok = false
				}
			}
		case *ast.UnaryExpr:
			if id, isId := ast.Unparen(x.X).(*ast.Ident); isId && x.Op == token.AND && info.Uses[id] == v {
				ok = false
			}
		}
		return true
	})
	return ok && n > 0
}

// enclosingLoopBody: the body of the innermost for/range statement around the go statement.
func enclosingLoopBody(fn *ast.BlockStmt, g *ast.GoStmt) *ast.BlockStmt {
	var loopBody *ast.BlockStmt
	ast.Inspect(fn, func(n ast.Node) bool {
		var body *ast.BlockStmt
		switch x := n.(type) {
		case *ast.ForStmt:
			body = x.Body
		case *ast.RangeStmt:
			body = x.Body
		}
		if body != nil && g.Pos() >= body.Pos() && g.End() <= body.End() {
			loopBody = body
		}
		return true
	})
	return loopBody
}
