package main

// C16: invalid sign requests never produce an envelope.

import (
	"sort"
	"strconv"
	"strings"
)

var coseLabelTypes = []string{"int", "int8", "int16", "int32", "int64", "uint", "uint8", "uint16", "uint32", "uint64", "string"}

// innerSignGates: every fallible step of the format-level Sign (skeleton)
// guards the success return; error => no bytes.
func innerSignGates(c *Check, f format) {
	pg := c.signSkeleton(f)
	if pg == nil {
		return
	}
	rule := "O-C16.2"
	if f.name == "COSE" {
		rule = "O-C16.3"
	}
	ok := returnsWhere(pg, func(s *PState) bool { return retNilErr(s, 1) })
	c.floor(f.name+" Sign success returns", 1, len(ok))
	// every error-valued call of the skeleton: once it was evaluated, success requires its nil test
	n := 0
	for _, a := range pg.AtomSet() {
		if !strings.HasPrefix(a, "+IsNil(") {
			continue
		}
		k := strings.TrimSuffix(strings.TrimPrefix(a, "+IsNil("), ")")
		callKey := k
		if i := strings.LastIndex(k, "#"); i > 0 && !strings.Contains(k[i:], ")") {
			callKey = k[:i]
		}
		if !(strings.HasPrefix(callKey, "ncg/") || strings.HasPrefix(callKey, "(*github.com/veraison/go-cose.Sign1Message).") || strings.HasPrefix(callKey, "encoding/json.Marshal(")) {
			continue
		}
		if len(edgeTargets(pg, CallKey(callKey))) == 0 {
			continue
		}
		n++
		short := callKey
		if i := strings.Index(short, "("); i > 0 && !strings.HasPrefix(short, "(") {
			short = short[:i]
		} else if strings.HasPrefix(short, "(") {
			if j := strings.Index(short[1:], "("); j > 0 {
				short = short[:j+1]
			}
		}
		c.noPathFrom(pg, rule, f.name+": step "+short+" must have succeeded", "once "+short+" was evaluated the format-level Sign returns an envelope only if it reported no error", CallKey(callKey), ok, ptr(A("+IsNil("+k+")")))
	}
	c.floor(f.name+" fallible steps of Sign", 5, n)
	good := true
	var det []string
	for _, s := range pg.Returns() {
		if !retNilErr(s, 1) && retKey(s, 0) != "nil" {
			good = false
			det = append(det, c.P.pos(s.Node.Pos)+": error returned together with "+retKey(s, 0))
		}
		if retNilErr(s, 1) && retKey(s, 0) == "nil" {
			good = false
			det = append(det, c.P.pos(s.Node.Pos)+": success without bytes")
		}
	}
	c.add("O-C16.5", f.name+" Sign: error means no bytes", "every failing return of the format-level Sign has nil bytes and every success returns the encoding", good, "", det...)
}

func checkC16(c *Check) {
	c.Explain = "C16: the signing gate as a conjunction over three layers, every conjunct on every success path. (1) Wrapper: times truncated to seconds before anything is validated; payload non-empty; signing time present; expiry absent or strictly later; signer non-nil (tested before KeySpec is invoked) and reporting a key spec; scheme present; format-level Sign ok; Content of the produced envelope ok; chain check with the address of the content's signing time (so code-signing validation happens AT the signing time) and declared == derived algorithm. (2) JWS: each fallible step guards success; every attribute key asserted string, not already present, not one of the seven specification keys (the reader's system table), scheme one of the two. (3) COSE: each fallible step guards success; every attribute key restricted to an integer kind or string BEFORE any map access with it, not already present, not one of the seven system labels; scheme in the scheme->label table; time encodings ok. (4) The writer's reserved tables contain the reader's system tables. (5) Error => nil bytes in all three Sign methods. (6) Local signer pairing (shared with C02). Encoder-side rejections and third-party signers returning nil certificates are not decided."
	fmts := discoverFormats(c)
	wrapperSignRules(c, true, false)
	for _, f := range fmts {
		innerSignGates(c, f)
		if f.name == "JWS" {
			jwsPayloadIsObject(c, f)
		}
		w := findAttrWriter(c, f)
		if w == "" {
			c.undecided("O-C16", f.name+" attribute writer", "no function in the signing call tree ranges over ExtendedSignedAttributes", "")
			continue
		}
		pg := c.pgOf(w)
		if pg == nil {
			continue
		}
		req := paramOfType(pg, "signature.SignRequest")
		X := req + ".ExtendedSignedAttributes"
		el := "re(" + X + ")"
		ok := returnsWhere(pg, func(s *PState) bool { return retNilErr(s, -1) })
		c.floor(f.name+" attribute writer success returns", 1, len(ok))
		c.onlyAfterExhaustion(pg, "O-C16", f.name+": all attributes examined", "building the protected header", X, ok)
		switch f.name {
		case "JWS":
			key := el + ".Key.(string)"
			c.perIteration(pg, "O-C16.2", "JWS: attribute key is a string", "every extended attribute key is asserted to be a string", X, A("+TypeIs("+el+".Key, string)"))
			c.perIteration(pg, "O-C16.2", "JWS: attribute key not repeated", "every extended attribute key is new", X, AG("-Has(*, "+key+")"))
			var reserved []string
			for _, a := range pg.AtomSet() {
				if strings.HasPrefix(a, "-Eq(") && strings.HasSuffix(a, ", "+key+")") {
					reserved = append(reserved, strings.Trim(strings.TrimSuffix(strings.TrimPrefix(a, "-Eq("), ", "+key+")"), `"`))
				}
			}
			sort.Strings(reserved)
			for _, r := range reserved {
				c.perIteration(pg, "O-C16.2", "JWS: attribute key is not the specification header "+r, "every extended attribute key differs from "+r, X, A(`-Eq("`+r+`", `+key+")"))
			}
			// reader's system table
			var structNames []string
			if cpg := c.pgOf(f.method("Content")); cpg != nil {
				t := jwsNames(c)
				for _, s := range cpg.States {
					for _, e := range s.Out {
						for _, l := range e.Labels {
							if l.Kind == "call" && l.Key == t.dec && l.T != nil && len(l.T.Args) == 2 && l.T.Args[1].V != nil {
								structNames = jsonNames(l.T.Args[1].V.Typ)
							}
						}
					}
				}
			}
			missing := []string{}
			for _, n := range structNames {
				found := false
				for _, r := range reserved {
					if r == n {
						found = true
					}
				}
				if !found {
					missing = append(missing, n)
				}
			}
			c.Tables["jws_reserved_keys_on_sign"] = reserved
			c.add("O-C16.4", "JWS reserved keys contain the reader's system keys", "the keys refused as extended attributes on signing include every specification header the reader hides (7)", len(missing) == 0 && len(structNames) >= 7, "", "not refused on signing: "+strings.Join(missing, ","))
			c.mustPass(pg, "O-C16.2", "JWS: scheme is one of the two", "building the protected header", ok, AnyOf(A("+Eq("+schemeX+", "+req+".SigningScheme)"), A("+Eq("+schemeSA+", "+req+".SigningScheme)")))
		case "COSE":
			key := el + ".Key"
			var tys []LP
			for _, t := range coseLabelTypes {
				tys = append(tys, A("+TypeIs("+key+", "+t+")"))
			}
			typed := AnyOf(tys...)
			c.perIteration(pg, "O-C16.3", "COSE: attribute key is an integer or a text string", "every extended attribute key has an integer kind or string as dynamic type", X, typed)
			mapUse := LP{Desc: "map access or comparison with the key", F: func(l Label) bool {
				if l.Kind == "atom" && (strings.HasPrefix(l.Key, "Has(") || strings.HasPrefix(l.Key, "Eq(")) && strings.Contains(l.Key, key) {
					return true
				}
				return (l.Kind == "store" || l.Kind == "lstore") && strings.Contains(l.Key, "["+key+"]")
			}}
			c.within(pg, "O-C16.3", "COSE: key type restricted before it is used as a map key", "the key is used for a map access or an interface comparison only after its dynamic type was restricted (an unhashable key would panic)", X, typed, mapUse)
			c.perIteration(pg, "O-C16.3", "COSE: attribute key not repeated", "every extended attribute key is new in the protected header", X, AG("-Has(*, "+key+")"))
			var reserved []string
			for _, a := range pg.AtomSet() {
				if strings.HasPrefix(a, "-Eq(") && strings.HasSuffix(a, ", "+key+")") {
					reserved = append(reserved, strings.TrimSuffix(strings.TrimPrefix(a, "-Eq("), ", "+key+")"))
				}
			}
			sort.Strings(reserved)
			for _, r := range reserved {
				c.perIteration(pg, "O-C16.3", "COSE: attribute key is not the system label "+r, "every extended attribute key differs from "+r, X, A("-Eq("+r+", "+key+")"))
			}
			// reader's table
			var sys []string
			if cpg := c.pgOf(f.method("Content")); cpg != nil {
				P := "recv.base.Headers.Protected"
				for _, a := range cpg.AtomSet() {
					if strings.HasPrefix(a, "-Eq(") && strings.HasSuffix(a, ", rk("+P+"))") {
						sys = append(sys, strings.TrimSuffix(strings.TrimPrefix(a, "-Eq("), ", rk("+P+"))"))
					}
				}
			}
			var missing []string
			for _, s := range sys {
				found := false
				for _, r := range reserved {
					if r == s {
						found = true
					}
				}
				if !found {
					missing = append(missing, s)
				}
			}
			c.Tables["cose_reserved_labels_on_sign"] = reserved
			c.add("O-C16.4", "COSE reserved labels contain the reader's system labels", "the labels refused as extended attributes on signing include every system label the reader hides (7)", len(missing) == 0 && len(sys) >= 7, "", "not refused on signing: "+strings.Join(missing, ","))
			t := coseNames(c)
			// (looked up in the table, or compared with the two scheme names one by one)
			c.mustPass(pg, "O-C16.3", "COSE: scheme is in the scheme->label table", "building the protected header", ok, AnyOf(A("+Has("+t.labelMap+", "+req+".SigningScheme)"), A("+Eq("+schemeX+", "+req+".SigningScheme)"), A("+Eq("+schemeSA+", "+req+".SigningScheme)")))
			c.mustPass(pg, "O-C16.3", "COSE: signing time encodes", "building the protected header", ok, AG("+IsNil((github.com/fxamacker/cbor/v2.EncMode).Marshal(*, "+req+".SigningTime)#1)"))
			c.mustPass(pg, "O-C16.3", "COSE: expiry encodes when present", "building the protected header", ok, AnyOf(A("+TZero("+req+".Expiry)"), AG("+IsNil((github.com/fxamacker/cbor/v2.EncMode).Marshal(*, "+req+".Expiry)#1)")))
		}
	}
	localSignerRules(c, "O-C16.6")
	// "a chain that fails code-signing validation" is refused: the gate's validator must be the
	// one that enforces the profile (every accepting path of it passes every requirement, O-C03.A)
	c.floor("code-signing profile rules (shared with C03)", 40, shareRules(c, checkC03, []string{"O-C03.A"}, "O-C16.1", "code-signing profile: "))
	// "the signer reports no usable key": the key spec tables give an algorithm only for the six
	// (key type, size) rows and zero for everything else (O-C02.1)
	c.floor("key spec tables (shared with C02)", 10, shareRules(c, checkC02, []string{"O-C02.1"}, "O-C16.6", "key spec tables: "))
}

func localSignerRules(c *Check, rule string) {
	pg := c.pgOfNI("ncg/signature.NewLocalSigner", algPkg+".ExtractKeySpec")
	if pg == nil {
		return
	}
	ok := returnsWhere(pg, func(s *PState) bool { return retNilErr(s, 1) })
	ks := algPkg + ".ExtractKeySpec(p0[0])"
	c.floor("NewLocalSigner success returns", 1, len(ok))
	c.mustPass(pg, rule, "local signer: certificates given", "constructing a local signer", ok, A("-Empty(p0)"))
	c.mustPass(pg, rule, "local signer: leaf key supported", "constructing a local signer", ok, A("+IsNil("+ks+"#1)"))
	c.mustPass(pg, rule, "local signer: private key belongs to the leaf certificate", "constructing a local signer", ok, AnyOf(A("+KeyEq(&p1.(*crypto/rsa.PrivateKey).PublicKey, p0[0].PublicKey)"), A("+KeyEq(&p1.(*crypto/ecdsa.PrivateKey).PublicKey, p0[0].PublicKey)"), A("+KeyEq(&p1.PublicKey, p0[0].PublicKey)")))
	for _, s := range pg.Returns() {
		if !retNilErr(s, 1) && retKey(s, 0) != "nil" {
			c.add(rule, "local signer: error means no signer", "a failing NewLocalSigner returns a nil signer", false, c.P.pos(s.Node.Pos))
		}
	}
}

// jwsPayloadIsObject: O-C16.2. The JSON text null decodes into a nil map
// without an error; a payload that is not a JSON object must not be signed, so
// after the decode every success path tests the decoded map for nil.
func jwsPayloadIsObject(c *Check, f format) {
	sk := c.signSkeleton(f)
	if sk == nil {
		return
	}
	// the graph in which the payload is decoded: Sign itself or the in-module
	// helper that receives the payload content
	type cand struct {
		pg  *PG
		src string
	}
	cands := []cand{{sk, "p0.Payload.Content"}}
	for _, s := range sk.States {
		for _, e := range s.Out {
			for _, l := range e.Labels {
				if l.Kind != "call" || l.T == nil || !strings.HasPrefix(l.T.Name, "ncg/") {
					continue
				}
				for i, a := range l.T.Args {
					if a.Key() == "p0.Payload.Content" {
						if pg := c.pgOf(l.T.Name); pg != nil {
							cands = append(cands, cand{pg, "p" + strconv.Itoa(i)})
						}
					}
				}
			}
		}
	}
	n := 0
	seen := map[string]bool{}
	for _, cd := range cands {
		pg := cd.pg
		for _, s := range pg.States {
			for _, e := range s.Out {
				for _, l := range e.Labels {
					if l.Kind != "call" || l.T == nil || !strings.Contains(l.Key, cd.src) {
						continue
					}
					var dst *Term
					switch l.T.Name {
					case "encoding/json.Unmarshal", "(*encoding/json.Decoder).Decode":
						dst = l.T.Args[1]
					default:
						continue
					}
					if seen[l.Key] {
						continue
					}
					seen[l.Key] = true
					n++
					ok := returnsWhere(pg, func(s *PState) bool { return retNilErr(s, -1) })
					unless := AnyOf(A("-IsNil(*"+dst.Key()+")"), A("-IsNil("+l.T.Key()+"!1)"), AG("-IsNil(*"+l.T.Key()+"!1)"))
					if l.T.Name == "(*encoding/json.Decoder).Decode" {
						// a Decoder stops after the first value: the rest of the input must be shown empty
						eof := AG("+Eq((*encoding/json.Decoder).Token(" + l.T.Args[0].Key() + ")#1, io.EOF)")
						c.noPathFrom(pg, "O-C16.2", "JWS: nothing follows the payload's top-level value", "after the payload was decoded with a Decoder no success return is reached unless the next token read from the same decoder reported io.EOF (Decoder.More() is false before a stray '}' or ']', and Decode alone ignores trailing data)", CallKey(l.Key), ok, &eof)
					}
					c.noPathFrom(pg, "O-C16.2", "JWS: decoded payload is a JSON object (not null)", "after the payload was decoded no success return is reached without testing the decoded map for nil (the JSON text null decodes into a nil map without an error and would be signed)", CallKey(l.Key), ok, &unless)
				}
			}
		}
	}
	c.floor("JWS payload decode calls on the signing path", 1, n)
}
